-------------------------- MODULE HiddenPathTrace --------------------------
(* Trace specification for C45: events recorded by harness/cmd/hiddenpath from the real
   hiddenpath.RegistryServer / AuthoritativeServer with the real Storer over the real sqlite path DB.
     reset  cfg = [local, groups : <<[g, owner, writers, readers, regs]>>], pool
     reg    one Register call (peer, group, segments) with its error result and the complete content of
            the path DB afterwards (dump: per stored segment version its types and groups)
     req    one Segments call (peer, groups, destination) with its error result and answer
   Monitors: (1) the DB changes only if every registry clause holds, and then exactly as the C27 store
   prescribes (an equal-or-older re-registration may or may not add the group: both accepted, the
   first is what C27 specifies); (2) a request is answered only if every server clause holds, and then
   with exactly the stored segments of a requested group ending at the destination.
   Refusing although allowed is drift (only-if statement).                                        *)
EXTENDS HiddenPathOps, TLC, Json

Trace == ndJsonDeserialize("trace.ndjson")

VARIABLES store, rl, failed, l
vars == <<store, rl, failed, l>>
R == Trace[l]
Cfg == Trace[rl].cfg
pool == Trace[rl].pool
Groups == {[g |-> x.g, owner |-> x.owner, writers |-> Range(x.writers), readers |-> Range(x.readers),
            regs |-> Range(x.regs)] : x \in Range(Cfg.groups)}

Init == store = {} /\ rl = 1 /\ failed = FALSE /\ l = 1
Bad(key) == /\ PrintT(<<"VERIF-BAD", l, key>>)
            /\ failed' = TRUE
            /\ UNCHANGED <<store, rl>>
Drift(key) == PrintT(<<"VERIF-DRIFT", l, key>>)
Keep == UNCHANGED <<store, rl, failed>>
Reset == store' = {} /\ rl' = l /\ failed' = FALSE

Observed == {[p |-> R.dump[i].p, types |-> Range(R.dump[i].types), groups |-> Range(R.dump[i].groups),
              inIf |-> 0, usage |-> {}] : i \in 1..Len(R.dump)}

Reg ==
    LET v == RegisterVerdict(Groups, Cfg.local, R.peer, R.g, R.segs, pool)
        a == PutAll(store, pool, R.segs, R.g)
        b == PutAllAdd(store, pool, R.segs, R.g)
        obs == Observed IN
    IF \E i \in 1..Len(R.dump) : R.dump[i].p = 0 THEN Bad("reg:database-holds-unknown-segment")
    ELSE IF v # "ok" THEN
        (IF obs # store THEN Bad("reg:stored-although-" \o v)
         ELSE /\ (R.err = 0 => Drift("reg:no-error-although-" \o v))
              /\ Keep)
    ELSE IF obs = store /\ a # store THEN
        /\ Drift("reg:nothing-stored-although-allowed")
        /\ Keep
    ELSE IF \A e \in obs : e \in a \/ e \in b THEN
         IF Cardinality(obs) # Cardinality(a) THEN Bad("reg:stored-set-differs")
         ELSE /\ store' = obs
              /\ (obs # a => Drift("reg:group-added-by-ignored-insert"))
              /\ (obs = a /\ a # b => Drift("reg:re-registration-under-new-group-ignored"))
              /\ UNCHANGED <<rl, failed>>
    ELSE Bad("reg:stored-content-differs-from-abstract-store")

Req ==
    LET gs == Range(R.gs)
        v == RequestVerdict(Groups, Cfg.local, R.peer, gs)
        want == Served(store, pool, gs, R.dst)
        got == {R.res[i].p : i \in 1..Len(R.res)} IN
    IF R.err # 0 THEN
        /\ (v = "ok" => Drift("req:refused-although-allowed"))
        /\ Keep
    ELSE IF v # "ok" THEN Bad("req:answered-although-" \o v)
    ELSE IF \E p \in got : p \notin want THEN
        Bad("req:returns-segment-" \o
            (IF \E p \in got : p = 0 \/ \A e \in store : e.p # p THEN "not-stored"
             ELSE IF \E p \in got \ want : End(pool[p]) # R.dst THEN "of-other-destination"
             ELSE "of-other-group"))
    ELSE IF \E p \in want : p \notin got THEN Bad("req:misses-segment")
    ELSE IF Len(R.res) # Cardinality(got) THEN Bad("req:duplicate-result")
    ELSE IF \E i \in 1..Len(R.res) : R.res[i].type # Down THEN Bad("req:non-down-segment")
    ELSE Keep

\* group configuration table (not part of C45's statement: every mismatch is drift): Group.Validate accepts
\* iff the id is not zero, the owner is set and is the AS named in the id, writers and registries are not
\* empty; Groups.Roles(ia) = the roles of ia in the group; the YAML form round-trips
GCfg ==
    LET wantValid == /\ ~(R.ido = 0 /\ R.suf = 0) /\ R.owner # 0 /\ As(R.owner) = R.ido
                     /\ R.writers # <<>> /\ R.regs # <<>>
        rolesOK == \A i \in 1..Len(R.roles) :
                      LET x == R.roles[i] IN
                      /\ x.o = (x.ia = R.owner) /\ x.w = (x.ia \in Range(R.writers))
                      /\ x.r = (x.ia \in Range(R.readers)) /\ x.g = (x.ia \in Range(R.regs)) IN
    /\ (R.valid # wantValid => Drift("gcfg:validate-accepts=" \o ToString(R.valid)))
    /\ (~rolesOK => Drift("gcfg:roles"))
    /\ (R.valid /\ ~R.rt => Drift("gcfg:yaml-round-trip"))
    /\ Keep

Step == /\ l <= Len(Trace)
        /\ l' = l + 1
        /\ IF R.ev = "reset" THEN Reset
           ELSE IF failed THEN Keep
           ELSE CASE R.ev = "reg" -> Reg
                  [] R.ev = "req" -> Req
                  [] R.ev = "gcfg" -> GCfg
                  [] OTHER -> Bad("no-spec-action:" \o R.ev)

Done == /\ l = Len(Trace) + 1
        /\ PrintT(<<"VERIF-DONE", Len(Trace)>>)
        /\ UNCHANGED vars

Next == Step \/ Done
Spec == Init /\ [][Next]_vars
=============================================================================
