--------------------------- MODULE HiddenPathOps ---------------------------
(* C45: hidden-path registry (RegistryServer.Register) and hidden-path server
   (AuthoritativeServer.Segments) on top of the path-segment store of C27 (SegDBOps).
   Pure operators shared by HiddenPath.tla and HiddenPathTrace.tla.

   groups : set of [g, owner, writers, readers, regs]  (g = abstract group number, unique)
   A registration is [peer, g, segs] with segs a sequence of [p, type] (pool index, segment type;
   2 = down); pool descriptors carry `bad` (indices of AS entries whose signature does not verify). *)
EXTENDS SegDBOps

Down == 2
Group(groups, g) == {x \in groups : x.g = g}

\* every only-if clause of the registry
RegisterOK(groups, local, peer, g, segs, pool) ==
    /\ \E x \in Group(groups, g) : peer \in x.writers /\ local \in x.regs
    /\ \A i \in 1..Len(segs) : segs[i].type = Down
    /\ \A i \in 1..Len(segs) : pool[segs[i].p].bad = <<>>

\* the first failing clause in the code's order ("ok" if none)
RegisterVerdict(groups, local, peer, g, segs, pool) ==
    IF Group(groups, g) = {} THEN "unknown-group"
    ELSE LET x == CHOOSE y \in Group(groups, g) : TRUE IN
         IF peer \notin x.writers THEN "not-a-writer"
         ELSE IF local \notin x.regs THEN "not-a-registry"
         ELSE IF \E i \in 1..Len(segs) : segs[i].type # Down THEN "not-a-down-segment"
         ELSE IF \E i \in 1..Len(segs) : pool[segs[i].p].bad # <<>> THEN "signature"
         ELSE "ok"

\* store after an accepted registration: the path DB semantics of C27, one insert per segment
RECURSIVE PutAll(_, _, _, _)
PutAll(store, pool, segs, g) ==
    IF segs = <<>> THEN store
    ELSE PutAll(PInsert(store, pool, segs[1].p, segs[1].type, {g}), pool, Tail(segs), g)

\* alternative an implementation may choose: an equal-or-older re-registration still adds group and type
PInsertAdd(store, pool, p, type, g) ==
    LET old == Stored(store, pool, pool[p].id) IN
    IF InsertOutcome(store, pool, "p", p) # "ign" THEN PInsert(store, pool, p, type, {g})
    ELSE LET o == CHOOSE e \in old : TRUE IN
         (store \ old) \cup {[o EXCEPT !.types = @ \cup {type}, !.groups = @ \cup {g}]}
RECURSIVE PutAllAdd(_, _, _, _)
PutAllAdd(store, pool, segs, g) ==
    IF segs = <<>> THEN store
    ELSE PutAllAdd(PInsertAdd(store, pool, segs[1].p, segs[1].type, g), pool, Tail(segs), g)

\* every only-if clause of the server
CanRead(x, peer) == peer = x.owner \/ peer \in x.writers \/ peer \in x.readers \/ peer \in x.regs
RequestOK(groups, local, peer, gs) ==
    /\ gs # {}
    /\ \A g \in gs : \E x \in Group(groups, g) : CanRead(x, peer) /\ local \in x.regs
RequestVerdict(groups, local, peer, gs) ==
    IF gs = {} THEN "no-groups"
    ELSE IF \E g \in gs : Group(groups, g) = {} THEN "unknown-group"
    ELSE IF \E g \in gs : \E x \in Group(groups, g) : ~CanRead(x, peer) THEN "not-allowed-to-read"
    ELSE IF \E g \in gs : \E x \in Group(groups, g) : local \notin x.regs THEN "not-a-registry"
    ELSE "ok"

\* exactly the stored segments registered under a requested group that end at dst
Served(store, pool, gs, dst) == {e.p : e \in {x \in store : x.groups \cap gs # {} /\ End(pool[x.p]) = dst}}
=============================================================================
