------------------------------ MODULE Dispatcher ------------------------------
(* C44: the shim dispatcher as a state machine over a *sequence* of datagrams on one server.

   The model is shaped like Server.processMsgNextHop: DecodeLayers fills the reusable layers of the
   server (`lay`: the SCION, UDP and SCMP layer contents persist from datagram to datagram; only the layers
   present in the current datagram are overwritten) and the list `decoded`; the decision then reads
   the layers selected by decoded.  Invariants: the decision equals the stateless Out(d, on) whatever
   was processed before (NoStaleInfluence); a forwarded packet always goes to the outer destination
   (NoReflection); with the dispatcher function off only requests are answered (OffOnlyRequests).  *)
EXTENDS DispatcherOps, TLC

CONSTANTS Datagrams,   \* alphabet of abstract datagrams
          MaxLen,      \* datagrams per server
          Modes        \* subset of BOOLEAN: dispatcher function on / off

VARIABLES on, n, lay, decoded, cur, out, hist
vars == <<on, n, lay, decoded, cur, out, hist>>

NoD == [mal |-> "garbage", dt |-> "ip", dh |-> "A", outer |-> "A", ext |-> "none", l4 |-> "none", port |-> 0,
        st |-> "echoreq", id |-> 0, q |-> "empty", qp |-> 0, path |-> "empty"]

Init == /\ on \in Modes /\ n = 0 /\ lay = [scion |-> NoD, udp |-> NoD, scmp |-> NoD]
        /\ decoded = <<>> /\ cur = NoD /\ out = Drop /\ hist = <<>>

\* parser.DecodeLayers: which layers the datagram yields
Layers(d) == IF d.mal # "no" THEN <<>>
             ELSE <<"scion">> \o (IF d.ext \in {"hbh", "both"} THEN <<"hbh">> ELSE <<>>)
                            \o (IF d.ext \in {"e2e", "both"} THEN <<"e2e">> ELSE <<>>)
                            \o (CASE d.l4 = "udp" -> <<"udp">> [] d.l4 = "scmp" -> <<"scmp">> [] OTHER -> <<>>)

Last(s) == s[Len(s)]

\* the decision of processMsgNextHop, reading the (possibly stale) layers
Decide(dec, L, outer, isOn) ==
    IF Len(dec) < 2 THEN Drop
    ELSE LET top == Last(dec)
             sc == L.scion
             view(x) == [x EXCEPT !.dt = sc.dt, !.dh = sc.dh, !.outer = outer, !.path = sc.path, !.mal = "no",
                                  !.ext = sc.ext] IN
         IF top = "scmp" THEN Out(view([L.scmp EXCEPT !.l4 = "scmp"]), isOn)
         ELSE IF top = "udp" THEN Out(view([L.udp EXCEPT !.l4 = "udp"]), isOn)
         ELSE Drop

Receive == /\ n < MaxLen
           /\ \E d \in Datagrams :
                LET ls == Layers(d)
                    has(x) == \E i \in 1..Len(ls) : ls[i] = x
                    L == [scion |-> IF has("scion") THEN d ELSE lay.scion,
                          udp |-> IF has("udp") THEN d ELSE lay.udp,
                          scmp |-> IF has("scmp") THEN d ELSE lay.scmp] IN
                /\ lay' = L /\ decoded' = ls /\ cur' = d
                /\ out' = Decide(ls, L, d.outer, on)
                /\ hist' = Append(hist, d)
           /\ n' = n + 1 /\ UNCHANGED on

Next == Receive
Spec == Init /\ [][Next]_vars

NoStaleInfluence == n > 0 => out = Out(cur, on)
NoReflection == (n > 0 /\ out.k = "fwd") => out.host = cur.outer
OffOnlyRequests == (n > 0 /\ ~on /\ out.k # "drop") => (out.k = "reply" /\ IsRequest(cur))
RepliesOnlyToRequests == (n > 0 /\ out.k = "reply") => IsRequest(cur)

-----------------------------------------------------------------------------
D(mal, dt, dh, outer, ext, l4, port, st, id, q, qp, path) ==
    [mal |-> mal, dt |-> dt, dh |-> dh, outer |-> outer, ext |-> ext, l4 |-> l4, port |-> port, st |-> st,
     id |-> id, q |-> q, qp |-> qp, path |-> path]

Udp(dt, dh, outer, ext, port) == D("no", dt, dh, outer, ext, "udp", port, "echoreq", 0, "empty", 0, "seg1")
Scmp(dt, dh, outer, ext, st, id, q, qp, path) == D("no", dt, dh, outer, ext, "scmp", 0, st, id, q, qp, path)

BaseSet ==
    {Udp("ip", "A", o, e, 40001) : o \in {"A", "B"}, e \in {"none", "e2e"}} \cup
    {Udp("svc", s, o, "none", 40002) : s \in {"CS", "DS"}, o \in {"A", "B", "V"}} \cup
    {Udp("bad", "A", "A", "none", 40003)} \cup
    {Scmp("ip", "A", o, e, st, 50001, "empty", 0, p) : o \in {"A", "B"}, e \in {"none", "e2e"},
                                                       st \in {"echoreq", "trreq"}, p \in {"seg1"}} \cup
    {Scmp("ip", "A", o, "none", st, 50002, "empty", 0, "seg1") : o \in {"A", "B"}, st \in {"echorep", "trrep"}} \cup
    {Scmp("ip", "A", o, "none", "err", 0, q, 50003, "seg1") : o \in {"A", "B"},
         q \in {"udp", "udp0", "echoreq", "trreq", "echorep", "trrep", "err", "tcp", "truncl4", "truncscion", "empty"}} \cup
    {Scmp("ip", "A", "A", "none", st, 50004, "empty", 0, "seg1") : st \in {"unkerr", "unkinfo"}} \cup
    {Scmp("svc", "CS", o, "none", st, 50005, "udp", 50006, "seg1") : o \in {"A", "V"}, st \in {"echorep", "err", "echoreq"}} \cup
    {D(m, "ip", "A", "A", "none", "udp", 40004, "echoreq", 0, "empty", 0, "seg1") : m \in {"trunc", "garbage"}} \cup
    {D("no", "ip", "A", "A", e, l, 0, "echoreq", 0, "empty", 0, "seg1") : e \in {"none", "e2e"}, l \in {"tcp", "none"}}

WideSet == BaseSet \cup
    {Scmp("ip", "B", o, "hbh", st, 50007, "empty", 0, p) : o \in {"A", "B"}, st \in {"echoreq", "trreq"},
                                                          p \in {"empty", "seg2"}} \cup
    {Scmp("ip", "B", "B", "both", "err", 0, q, 50008, "seg2") : q \in {"udp", "trreq"}} \cup
    {Scmp("bad", "A", "A", "none", st, 50009, "empty", 0, "seg1") : st \in {"echoreq", "echorep"}} \cup
    {Udp("ip", "B", o, e, 40005) : o \in {"B", "C"}, e \in {"hbh", "both"}}
=============================================================================
