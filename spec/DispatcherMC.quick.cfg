INIT Init
NEXT Next
CONSTANTS
  Datagrams <- BaseSet
  MaxLen = 2
  Modes = {TRUE, FALSE}
INVARIANTS NoStaleInfluence NoReflection OffOnlyRequests RepliesOnlyToRequests
CHECK_DEADLOCK FALSE
