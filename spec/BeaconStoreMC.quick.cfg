SPECIFICATION Spec
CONSTANTS
  MaxLen = 2
  ExtraLen = 3
  NCfg = 4
  LocalInLoopCheck = TRUE
  Gen = TRUE
INVARIANTS StoredOnlyIf StoredConforms SentNoLoop RegisteredConform PipelineExact
CHECK_DEADLOCK FALSE
