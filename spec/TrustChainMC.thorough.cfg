SPECIFICATION Spec
CONSTANTS
  FullTimes = TRUE
  PairsOnly = FALSE
INVARIANTS SoundA SoundB Emit
CHECK_DEADLOCK FALSE
