SPECIFICATION Spec
CONSTANTS
  FullTimes = TRUE
  PairsOnly = FALSE
INVARIANTS SoundA SoundB SoundH Emit
CHECK_DEADLOCK FALSE
