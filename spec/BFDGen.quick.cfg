SPECIFICATION Spec
CONSTANTS
  MaxLen = 2
INVARIANTS Emit
CHECK_DEADLOCK FALSE
