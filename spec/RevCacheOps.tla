---------------------------- MODULE RevCacheOps ----------------------------
(* C31 - pure operators of the revocation cache (private/revcache/memrevcache): one slot per
   interface key, holding a revocation [ts, ttl] (issue time and lifetime in whole seconds) or None.
   Time is in whole seconds; a revocation is live at `now` iff ts + ttl > now.                  *)
EXTENDS Integers

None == [ts |-> -99, ttl |-> -99]
Live(r, now) == r # None /\ r.ts + r.ttl > now

\* an insertion is accepted iff the revocation is unexpired and newer than the live stored one
InsertOK(stored, r, now) == Live(r, now) /\ (~Live(stored, now) \/ r.ts > stored.ts)
\* a lookup returns the accepted revocation while it is unexpired, nothing otherwise
Lookup(stored, now) == IF Live(stored, now) THEN stored ELSE None
=============================================================================
