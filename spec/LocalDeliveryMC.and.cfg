SPECIFICATION Spec
CONSTANTS
  Variant = "and"
  RangeSet = "small"
INVARIANTS DeliveredToAllowedPort ServiceToRegisteredInstance
CHECK_DEADLOCK FALSE
