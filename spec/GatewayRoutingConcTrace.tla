---------------------- MODULE GatewayRoutingConcTrace ----------------------
(* Trace specification for the run-time update part of C42.  One trace = one real AtomicRoutingTable with
   real publishing + data-plane routing tables behind it:
     reset(W, tables, pkts)
     w(op, t, i, j, inv, res)   the single writer's operations in program order: "swap" installs a fresh
                                table object t, "set" / "clear" change the session of class j of entry i of
                                the current table; inv / res are values of one global atomic clock taken
                                before the call and after its return
     r(pkt, inv, res, out)      a concurrent lookup (RouteIPv4 / RouteIPv6 through the AtomicRoutingTable) and
                                the session it returned (100*t + 10*i + j, 0 = nil)
   The writer's operations define the sequence of global states S0, S1, ...  A lookup may observe any state
   from "all writes that returned before it was invoked" to "all writes invoked before it returned"; its
   answer must be Route() on one of those states: the table before or after an update, never a mix.
   VERIF-BAD: conc:answer-matches-no-table-state(:swap | :session), conc:writer-error, conc:panic        *)
EXTENDS GatewayRoutingOps, TLC, Json

Trace == ndJsonDeserialize("trace.ndjson")

VARIABLES l, cfg, states, winv, wres, failed
tvars == <<l, cfg, states, winv, wres, failed>>
R == Trace[l]

TTables == cfg.tables
NoSess(n) == [t \in 1..n |-> {}]

TInit == l = 1 /\ cfg = [W |-> 6, tables |-> <<>>, pkts |-> <<>>] /\ states = <<>> /\ winv = <<>> /\ wres = <<>>
         /\ failed = FALSE

Bad(key) == PrintT(<<"VERIF-BAD", l, key>>) /\ failed' = TRUE /\ UNCHANGED <<cfg, states, winv, wres>>

WithSessT(t, on) == [i \in 1..Len(TTables[t]) |->
                       [TTables[t][i] EXCEPT !.cls = [j \in 1..Len(TTables[t][i].cls) |->
                           [TTables[t][i].cls[j] EXCEPT !.sess = IF <<i, j>> \in on THEN 1 ELSE 0]]]]
RouteState(st, pkt) ==
    IF st.cur = 0 THEN 0
    ELSE LET r == Route(WithSessT(st.cur, st.sessOn[st.cur]), pkt, cfg.W) IN IF r = 0 THEN 0 ELSE 100 * st.cur + r

Last == states[Len(states)]
WEv ==
    IF R.err = 1 THEN Bad("conc:writer-error:" \o R.op)
    ELSE LET nxt == CASE R.op = "swap" -> [cur |-> R.t, sessOn |-> [Last.sessOn EXCEPT ![R.t] = {}]]
                      [] R.op = "set" -> [cur |-> Last.cur, sessOn |-> [Last.sessOn EXCEPT ![R.t] = @ \cup {<<R.i, R.j>>}]]
                      [] OTHER -> [cur |-> Last.cur, sessOn |-> [Last.sessOn EXCEPT ![R.t] = @ \ {<<R.i, R.j>>}]] IN
         /\ states' = Append(states, nxt) /\ winv' = Append(winv, R.inv) /\ wres' = Append(wres, R.res)
         /\ UNCHANGED <<cfg, failed>>

\* states[1] is the initial state; write k (1-based) produces states[k + 1]
REv ==
    LET nw == Len(winv)
        a == Cardinality({k \in 1..nw : wres[k] < R.inv})        \* writes completed before the lookup began
        b == Cardinality({k \in 1..nw : winv[k] < R.res})        \* writes begun before the lookup returned
        pkt == cfg.pkts[R.pkt]
        ok == \E k \in a..b : R.out = RouteState(states[k + 1], pkt) IN
    IF R.panic = 1 THEN Bad("conc:panic")
    ELSE IF ok THEN UNCHANGED <<cfg, states, winv, wres, failed>>
    ELSE Bad("conc:answer-matches-no-table-state" \o
             (IF \E k \in (a + 1)..b : states[k + 1].cur # states[k].cur THEN ":swap" ELSE ":session"))

TStep == /\ l <= Len(Trace)
         /\ l' = l + 1
         /\ IF R.ev = "reset"
              THEN /\ cfg' = R /\ states' = <<[cur |-> 0, sessOn |-> NoSess(Len(R.tables))]>>
                   /\ winv' = <<>> /\ wres' = <<>> /\ failed' = FALSE
            ELSE IF failed THEN UNCHANGED <<cfg, states, winv, wres, failed>>
            ELSE CASE R.ev = "w" -> WEv
                   [] R.ev = "r" -> REv
                   [] OTHER -> Bad("no-spec-action:" \o R.ev)

TDone == /\ l = Len(Trace) + 1
         /\ PrintT(<<"VERIF-DONE", Len(Trace)>>)
         /\ UNCHANGED tvars

TNext == TStep \/ TDone
TSpec == TInit /\ [][TNext]_tvars
=============================================================================
