------------------------------ MODULE PathLookup ------------------------------
(* Exhaustive design model for C30 (Pather.GetPaths + MultiSegmentSplitter.Split), abstracting path
   segments to their end points: an up/down segment joins a non-core AS with a core AS of its ISD, a
   core segment joins two core ASes.  For EVERY core configuration of two ISDs (one or two core ASes
   in the local ISD), every local AS, every destination (AS, ISD wildcard, local AS), every set of
   registered segments, every subset of them expired and every subset of them carrying a revoked
   interface, the lookup pipeline (split -> resolve the requests against the segment store ->
   find destinations -> combine -> drop expired -> drop revoked) is compared with the definition:

     Sound        every returned path starts at the local AS, ends at the destination (a core AS of the
                  ISD for a wildcard), is live and unrevoked
     Sufficient   for a concrete destination the requests issued suffice: every live, unrevoked
                  up/core/down combination over ALL registered segments is returned
     LocalEmpty   the local AS as destination yields exactly one empty path                     *)
EXTENDS PathLookupOps, TLC

CONSTANTS CoreCfg,     \* "two": ISD 1 has core ASes c1, c2; "one": only c1
          MaxStore, MaxDead, MaxRev,  \* bounds on registered / expired / revoked segments
          Contract,                   \* TRUE: a reply only holds segments that satisfy the request
          MaxBad, MaxExtra            \* remote fetch: unverifiable segments / segments for other destinations
                                      \* a path server may add to its replies (0, 0: everything is local)

A(isd, as) == [isd |-> isd, as |-> as]
Cores == IF CoreCfg = "two" THEN {A(1, "c1"), A(1, "c2"), A(2, "d1")} ELSE {A(1, "c1"), A(2, "d1")}
Leaves == {A(1, "a"), A(1, "b"), A(2, "e")}
ASes == Cores \cup Leaves
Dsts == ASes \cup {A(1, "0"), A(2, "0")}

\* the segment universe: [t, first, last] in construction order (first = originating core AS)
Universe == {[t |-> "down", first |-> p[1], last |-> p[2]] : p \in {q \in Cores \X Leaves : q[1].isd = q[2].isd}}
       \cup {[t |-> "core", first |-> p[1], last |-> p[2]] : p \in {q \in Cores \X Cores : q[1] # q[2]}}

VARIABLES local, dst, store, dead, revoked, result, reqs, bad
vars == <<local, dst, store, dead, revoked, result, reqs, bad>>

Init == /\ local \in ASes /\ dst \in Dsts
        /\ store = {} /\ dead = {} /\ revoked = {} /\ result = {} /\ reqs = {} /\ bad = {}

Match(pat, ia) == IF IsWild(pat) THEN pat.isd = ia.isd ELSE pat = ia

\* DefaultResolver.loadSegment: up and core segments are stored against travel direction
Resolve(r, segs) ==
    CASE r.t = "up" -> {[t |-> "up", first |-> s.first, last |-> s.last] : s \in {x \in segs : x.t = "down" /\ Match(r.src, x.last) /\ Match(r.dst, x.first)}}
      [] r.t = "core" -> {s \in segs : s.t = "core" /\ Match(r.src, s.last) /\ Match(r.dst, s.first)}
      [] r.t = "down" -> {s \in segs : s.t = "down" /\ Match(r.src, s.first) /\ Match(r.dst, s.last)}

\* combinations by end points (a path = sequence of segments; up/core travelled last -> first)
Paths(src, d, ups, cores, downs) ==
         {<<u>> : u \in {x \in ups : x.last = src /\ x.first = d}}
    \cup {<<c>> : c \in {x \in cores : x.last = src /\ x.first = d}}
    \cup {<<w>> : w \in {x \in downs : x.first = src /\ x.last = d}}
    \cup {<<p[1], p[2]>> : p \in {x \in ups \X cores : x[1].last = src /\ x[1].first = x[2].last /\ x[2].first = d}}
    \cup {<<p[1], p[2]>> : p \in {x \in ups \X downs : x[1].last = src /\ x[1].first = x[2].first /\ x[2].last = d}}
    \cup {<<p[1], p[2]>> : p \in {x \in cores \X downs : x[1].last = src /\ x[1].first = x[2].first /\ x[2].last = d}}
    \cup {<<p[1], p[2], p[3]>> : p \in {x \in ups \X cores \X downs :
              x[1].last = src /\ x[1].first = x[2].last /\ x[2].first = x[3].first /\ x[3].last = d}}

Base(s) == IF s.t = "up" THEN [s EXCEPT !.t = "down"] ELSE s     \* the stored segment behind a path element
Live(p) == \A i \in DOMAIN p : Base(p[i]) \notin dead
Clean(p) == \A i \in DOMAIN p : Base(p[i]) \notin revoked
EndOf(p) == LET s == p[Len(p)] IN IF s.t = "down" THEN s.last ELSE s.first
StartOf(p) == LET s == p[1] IN IF s.t = "down" THEN s.first ELSE s.last

Lookup ==
    /\ store = {} /\ result = {}
    /\ \E S \in SUBSET Universe : \E D \in SUBSET S : \E V \in SUBSET S : \E U \in (IF MaxBad = 0 THEN {{}} ELSE SUBSET S) : \E X \in (IF MaxExtra = 0 THEN {{}} ELSE SUBSET S) :
         /\ S # {} /\ Cardinality(S) <= MaxStore /\ Cardinality(D) <= MaxDead /\ Cardinality(V) <= MaxRev
         /\ Cardinality(U) <= MaxBad /\ Cardinality(X) <= MaxExtra
         /\ store' = S /\ dead' = D /\ revoked' = V /\ bad' = U
         /\ IF dst = local THEN result' = {<<>>} /\ reqs' = {}
            ELSE LET rq == SplitRequests(local, local \in Cores, dst, Cores)
                     \* up segments are local; core and down requests go to a path server whose reply holds
                     \* the matching segments, possibly segments for other destinations (X) and unverifiable
                     \* ones (U); the reply handler verifies, stores and hands on only the verified ones
                     Answer(r) == IF r.t = "up" \/ (MaxBad = 0 /\ MaxExtra = 0) THEN Resolve(r, S)
                                  ELSE (Resolve(r, S) \cup (IF Contract THEN {} ELSE {x \in X : x.t = r.t})) \ U
                     got == UNION {Answer(r) : r \in rq}
                     ups == {s \in got : s.t = "up"}
                     cores == {s \in got : s.t = "core"}
                     downs == {s \in got : s.t = "down"}
                     \* findDestinations
                     dests == IF ~IsWild(dst) THEN {dst}
                              ELSE {s.first : s \in cores} \cup (IF dst.isd = local.isd THEN {s.first : s \in ups} ELSE {})
                     all == UNION {Paths(local, d, ups, cores, downs) : d \in dests}
                 IN /\ reqs' = rq
                    \* buildAllPaths drops the expired, filterRevoked the revoked ones
                    /\ result' = {p \in {q \in all : \A i \in DOMAIN q : Base(q[i]) \notin D} :
                                     \A i \in DOMAIN p : Base(p[i]) \notin V}
    /\ UNCHANGED <<local, dst>>

Next == Lookup
Spec == Init /\ [][Next]_vars

Sound == \A p \in result :
            p = <<>> \/ (/\ StartOf(p) = local /\ ValidEnd(EndOf(p), dst, Cores) /\ Live(p) /\ Clean(p))
LocalEmpty == (store # {} /\ dst = local) => result = {<<>>}
Sufficient ==
    (store # {} /\ dst # local /\ ~IsWild(dst)) =>
        LET ups == {[t |-> "up", first |-> s.first, last |-> s.last] : s \in {x \in store : x.t = "down"}}
            cores == {s \in store \ bad : s.t = "core"}
            downs == {s \in store \ bad : s.t = "down"}
        IN {p \in Paths(local, dst, ups, cores, downs) : Live(p) /\ Clean(p)} = result
\* nothing unverifiable reaches a path handed out (remote fetch)
OnlyVerified == \A p \in result : \A i \in DOMAIN p : p[i].t = "up" \/ p[i] \notin bad
\* wildcard lookups reach every core AS of the ISD that one segment (own ISD) / the requested core
\* segments (other ISD) lead to
=============================================================================
