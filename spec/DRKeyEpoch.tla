----------------------------- MODULE DRKeyEpoch -----------------------------
(* C39, epochs and rotation — the key stores of two control services as time passes.

   AS A (source) derives secret values / level-1 keys on demand: the epoch for a validity time t is
   [k*D, (k+1)*D) with k = t \div D (secretValueBackend.getSecretValue), remembered in its
   secret-value store.  AS B (destination) answers a level-1 request for time t from its level-1
   store if a stored key's epoch contains t (EpochBegin <= t < EpochEnd), otherwise fetches the key
   from A and stores it (ServiceEngine.getLevel1Key).  The prefetcher asks for now + D (the next
   epoch) ahead of time; the cleaners delete every entry whose epoch ended (cutoff >= EpochEnd).
   Keys are a function of the epoch (same AS secret, protocol, ASes): K(k).

   Properties: every answer belongs to the epoch that contains the requested time (never a stale key
   after the roll-over, never an early one before it), answers for one epoch are the same key
   whichever route produced them (derived, stored, re-fetched after cleaning).
   Lookup = "inclusive" is the variant with `t <= EpochEnd`: at the boundary instant the store may
   answer with the epoch that just ended (violates AnswerInEpoch); model only.                   *)
EXTENDS Integers, FiniteSets, TLC

CONSTANTS D, MaxT, Lookup     \* epoch length, horizon, "exclusive" | "inclusive"

VARIABLES now, svA, l1B, ans, fetched, prefetchedFor
vars == <<now, svA, l1B, ans, fetched, prefetchedFor>>

EpochOf(t) == t \div D
Begin(k) == k * D
End(k) == (k + 1) * D
Holds(k, t) == IF Lookup = "inclusive" THEN Begin(k) <= t /\ t <= End(k) ELSE Begin(k) <= t /\ t < End(k)
NoAns == [who |-> "-", t |-> 0, k |-> 0, viaStore |-> FALSE]

Init == now = 0 /\ svA = {} /\ l1B = {} /\ ans = NoAns /\ fetched = FALSE /\ prefetchedFor = -1

Tick == now < MaxT /\ now' = now + 1 /\ UNCHANGED <<svA, l1B, ans, fetched, prefetchedFor>>

\* A derives for validity t (also what B's fetch triggers at A)
DeriveA(t) == LET k == IF \E e \in svA : Holds(e, t) THEN CHOOSE e \in svA : Holds(e, t) ELSE EpochOf(t) IN
              /\ svA' = svA \cup {k}
              /\ ans' = [who |-> "src", t |-> t, k |-> k, viaStore |-> FALSE]

Times == {t \in 0..(MaxT + D) : t >= now /\ t <= now + D}

GetSrc == \E t \in Times : DeriveA(t) /\ fetched' = FALSE /\ UNCHANGED <<now, l1B, prefetchedFor>>

GetDstAt(t) ==
    IF \E e \in l1B : Holds(e, t)
      THEN /\ ans' = [who |-> "dst", t |-> t, k |-> CHOOSE e \in l1B : Holds(e, t), viaStore |-> TRUE]
           /\ fetched' = FALSE /\ UNCHANGED <<svA, l1B>>
      ELSE LET k == IF \E e \in svA : Holds(e, t) THEN CHOOSE e \in svA : Holds(e, t) ELSE EpochOf(t) IN
           /\ svA' = svA \cup {k} /\ l1B' = l1B \cup {k}
           /\ ans' = [who |-> "dst", t |-> t, k |-> k, viaStore |-> FALSE]
           /\ fetched' = TRUE

GetDst == \E t \in Times : GetDstAt(t) /\ UNCHANGED <<now, prefetchedFor>>
Prefetch == GetDstAt(now + D) /\ prefetchedFor' = EpochOf(now + D) /\ UNCHANGED now
CleanA == svA' = {e \in svA : End(e) > now} /\ UNCHANGED <<now, l1B, ans, fetched, prefetchedFor>>
CleanB == l1B' = {e \in l1B : End(e) > now} /\ UNCHANGED <<now, svA, ans, fetched, prefetchedFor>>

Next == Tick \/ GetSrc \/ GetDst \/ Prefetch \/ CleanA \/ CleanB
Spec == Init /\ [][Next]_vars

-----------------------------------------------------------------------------
\* the answer's epoch contains the requested time (end exclusive): no stale and no early key
AnswerInEpoch == ans # NoAns => Begin(ans.k) <= ans.t /\ ans.t < End(ans.k)
\* hence the key is K(EpochOf(t)) on every route
AnswerIsEpochKey == ans # NoAns => ans.k = EpochOf(ans.t)
\* the level-1 store of B only holds epochs it was asked for or prefetched; cleaning removes exactly
\* the epochs that ended
StoresHoldWholeEpochs == \A e \in svA \cup l1B : e >= 0 /\ e <= EpochOf(MaxT + D)
=============================================================================
