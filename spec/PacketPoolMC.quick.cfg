SPECIFICATION Spec
CONSTANTS
  NBuf = 5
  NC = 2
  Batch = 1
  NP = 1
  NS = 1
  QProc = 1
  QSlow = 1
  QInt = 1
  QEg = 1
  MaxPkts = 2
  MaxBfd = 1
  StopMode = "quiet"
  BfdSerErr = FALSE
VIEW View
INVARIANTS OwnerUnique NoDoublePut Conservation NoSendOnClosed QuiescentHome StoppedHome
CHECK_DEADLOCK FALSE
