INIT Init
NEXT Next
CONSTANTS
  MaxSize = 5
  MaxLen = 4
  Leaves <- McLeaves
  Hops <- McHops
  Directed <- DirectedMC
INVARIANTS SizeBound SemanticsAgree TextualNeverWider CodeShapeAgrees AclReadingsAgree
CHECK_DEADLOCK FALSE
