SPECIFICATION Spec
CONSTANTS
  D = 4
  MaxT = 14
  Lookup = "exclusive"
INVARIANTS AnswerInEpoch AnswerIsEpochKey StoresHoldWholeEpochs
CHECK_DEADLOCK FALSE
