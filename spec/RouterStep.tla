----------------------------- MODULE RouterStep -----------------------------
(* Exhaustive adversarial exploration of one border router (C01 C05 C06 C12 C13 C15) and scenario
   generator for the driver harness/cmd/dpadv.

   The attacker assembles ANY packet over the constant domains: path shape, pointer pair, ingress
   link, source / destination class, and - for every field the router reads (relevance lemma:
   current hop and info field, the hop reached by a cross-over, the interface of the previous hop
   that ingressInterface() reads; every other position is junk) - every combination of interface
   ids, expiry, MAC validity under both accumulators, router alerts, EPIC freshness / HVF validity.
   Hop fields "issued by another AS" or made up are the ones with vp = vu = FALSE under this AS's key.
   Assembly is staged (Init is one state; Shape, then Assemble) so that TLC's workers share it.

   The invariants are the property predicates of RouterStepOps over RouterStep's result.  With
   Cfg.fix all TRUE they hold; the *.asfound.cfg configurations (fix all FALSE: the check sequence as
   found in the code) show the counterexamples D3, D9, D12, D13.

   Generator (CONSTRAINT Emit): prints one SCN line per assembled packet that the model passes
   (forward / deliver / answered router alert) and per NEAR MISS (rejected by exactly one check:
   leaving that single check out would let it pass).                                         *)
EXTENDS RouterStepOps, Json

CONSTANTS Cfg,        \* router configuration [ifs, fix]
          Kinds,      \* subset of {"scion", "epic", "ohp"}
          Shapes,     \* set of segment-length sequences
          Vias,       \* ingress links (interface ids; 0 = host on the internal network)
          SrcDom, DstDom, Faults, L4Dom,
          InSideDom,  \* values of the ingress-side interface field of a hop (ConsIngress in construction
                      \* direction, ConsEgress against it)
          EgSideDom,  \* values of the egress-side interface field
          PeerDom,    \* values of the info-field Peer flag
          ExpDom,     \* values of "expired"
          AuthDom,    \* set of <<vp, vu>>
          AlertDom,   \* set of <<ia, ea>>
          EpicDom     \* set of <<fresh, phvf, lhvf>>

VARIABLES stage, p, r, r2
vars == <<stage, p, r, r2>>

JunkIf == 999
JunkHop == [in |-> JunkIf, eg |-> JunkIf, exp |-> FALSE, vp |-> FALSE, vu |-> FALSE, ia |-> FALSE, ea |-> FALSE]
JunkInfo == [cons |-> TRUE, peer |-> FALSE]
NoEp == [fresh |-> TRUE, phvf |-> TRUE, lhvf |-> TRUE]
SumSeq(s) == s[1] + (IF Len(s) >= 2 THEN s[2] ELSE 0) + (IF Len(s) >= 3 THEN s[3] ELSE 0)
NoRes == Discard("none")
P0 == [kind |-> "scion", via |-> 0, src |-> "L", dst |-> "F", fault |-> "none", l4 |-> "udp",
       seg |-> <<1>>, inf |-> 0, hf |-> 0, infos |-> <<JunkInfo>>, hops |-> <<JunkHop>>, ep |-> NoEp]

Init == stage = "init" /\ p = P0 /\ r = NoRes /\ r2 = NoRes /\ PrintT(<<"CFG", ToJson(Cfg)>>)

Shape ==
  /\ stage = "init"
  /\ \E k \in Kinds, via \in Vias, src \in SrcDom, dst \in DstDom :
       \/ /\ k = "ohp"
          /\ p' = [P0 EXCEPT !.kind = k, !.via = via, !.src = src, !.dst = dst, !.seg = <<2>>,
                             !.infos = <<JunkInfo>>, !.hops = <<JunkHop, JunkHop>>]
       \/ /\ k # "ohp"
          /\ \E s \in Shapes, f \in Faults, l4 \in L4Dom :
             \E h \in 0..(SumSeq(s) - 1), i \in 0..(Len(s) - 1) :
             \E e \in (IF k = "epic" THEN EpicDom ELSE {<<TRUE, TRUE, TRUE>>}) :
               p' = [kind |-> k, via |-> via, src |-> src, dst |-> dst, fault |-> f, l4 |-> l4,
                     seg |-> s, inf |-> i, hf |-> h,
                     infos |-> [x \in 1..Len(s) |-> JunkInfo],
                     hops |-> [x \in 1..SumSeq(s) |-> JunkHop],
                     ep |-> [fresh |-> e[1], phvf |-> e[2], lhvf |-> e[3]]]
  /\ stage' = "shaped"
  /\ UNCHANGED <<r, r2>>

\* hop field whose egress-side / ingress-side interface (seen in direction cons) is x, other side junk
SideHop(cons, egressSide, x, exp, vp, al) ==
  [in |-> IF cons = egressSide THEN JunkIf ELSE x, eg |-> IF cons = egressSide THEN x ELSE JunkIf,
   exp |-> exp, vp |-> vp, vu |-> FALSE, ia |-> al[1], ea |-> al[2]]

Finish(q) == /\ p' = q
             /\ r' = RouterStep(Cfg, q)
             /\ r2' = IF q.kind = "epic" THEN RouterStep(Cfg, [q EXCEPT !.kind = "scion"]) ELSE NoRes
             /\ stage' = "done"

AssembleOhp ==
  \* the first hop field's ConsIngress (0 in a well-formed one-hop path) is not read by the router, but it is
  \* covered by the MAC: both values are concretised
  \E cons \in BOOLEAN, in \in {0, JunkIf}, eg \in EgSideDom, v \in BOOLEAN :
    Finish([p EXCEPT !.infos = <<[cons |-> cons, peer |-> FALSE]>>,
                     !.hops = <<[JunkHop EXCEPT !.in = in, !.eg = eg, !.vp = v], [JunkHop EXCEPT !.in = 0, !.eg = 0]>>])

AssembleFields(PD) ==
  \E cons \in BOOLEAN, peer \in PD, iside \in InSideDom, eside \in EgSideDom, exp \in ExpDom, au \in AuthDom, al \in AlertDom :
    LET cur == [in |-> IF cons THEN iside ELSE eside, eg |-> IF cons THEN eside ELSE iside,
                exp |-> exp, vp |-> au[1], vu |-> au[2], ia |-> al[1], ea |-> al[2]]
        q0 == [p EXCEPT !.infos[p.inf + 1] = [cons |-> cons, peer |-> peer], !.hops[p.hf + 1] = cur]
        peering == Peering(q0)
        xo == IsXoverAt(p, p.hf, p.inf) /\ ~peering
        fa == IsFirstAfterXover(p, p.hf, p.inf) /\ ~peering
    IN \E ncons \in (IF xo THEN BOOLEAN ELSE {TRUE}), nx \in (IF xo THEN EgSideDom ELSE {JunkIf}),
          nexp \in (IF xo THEN ExpDom ELSE {FALSE}), nv \in (IF xo THEN {a[1] : a \in AuthDom} ELSE {FALSE}),
          nal \in (IF xo THEN {a[1] : a \in AlertDom} ELSE {FALSE}),   \* only the egress-side alert is read
          pcons \in (IF fa THEN BOOLEAN ELSE {TRUE}), px \in (IF fa THEN InSideDom ELSE {JunkIf}) :
         LET q1 == IF xo THEN [q0 EXCEPT !.infos[InfOf(p, p.hf + 1) + 1] = [cons |-> ncons, peer |-> FALSE],
                                         !.hops[p.hf + 2] = SideHop(ncons, TRUE, nx, nexp, nv,
                                                                    IF ncons THEN <<FALSE, nal>> ELSE <<nal, FALSE>>)]
                   ELSE q0
             q2 == IF fa THEN [q1 EXCEPT !.infos[p.inf] = [cons |-> pcons, peer |-> FALSE],
                                         !.hops[p.hf] = SideHop(pcons, FALSE, px, FALSE, FALSE, <<FALSE, FALSE>>)]
                   ELSE q1
         IN Finish(q2)

AssemblePath ==
  IF p.inf # InfOf(p, p.hf) THEN Finish(p)        \* rejected before anything else is read
  ELSE IF Singleton(p) \/ Len(p.seg) # 2
       THEN \* parsePath / determinePeer read the Peer flag and the segment lengths first
            \/ /\ Singleton(p) /\ FALSE \in PeerDom
               /\ Finish([p EXCEPT !.infos[p.inf + 1] = [cons |-> TRUE, peer |-> FALSE]])
            \/ /\ Len(p.seg) # 2 /\ TRUE \in PeerDom
               /\ Finish([p EXCEPT !.infos[p.inf + 1] = [cons |-> TRUE, peer |-> TRUE]])
            \/ AssembleFields({b \in PeerDom : (Singleton(p) => b) /\ (Len(p.seg) # 2 => ~b)})
       ELSE AssembleFields(PeerDom)

Assemble == stage = "shaped" /\ (IF p.kind = "ohp" THEN AssembleOhp ELSE AssemblePath)

Next == Shape \/ Assemble
Spec == Init /\ [][Next]_vars

\* ---------------------------------------------------------------- invariants
Done == stage = "done"
TypeOK == stage \in {"init", "shaped", "done"} /\ r.disp \in {"forward", "deliver", "slow", "discard"}
InvC01 == Done => C01Key(Cfg, p, r) = ""
InvC05 == Done => C05Key(Cfg, p, r) = ""
InvC06 == Done => /\ C06Key(Cfg, p, r) = ""
                  /\ C06RejectKey(Cfg, p, r, r) = ""
                  /\ (r.disp = "slow" /\ r.st \in {ALERTIN, ALERTEG} /\ SlowAlert(Cfg, p) = "reflect")
                        => C06Reflect(Cfg, p, r.xover) = ""
InvC12 == Done => C12Key(Cfg, p, r) = ""
InvC13 == Done => C13Key(Cfg, p, r) = "" /\ (p.kind = "epic" => C13TwinKey(Cfg, p, r, r2) = "")
InvC15 == Done => C15Key(Cfg, p, r) = ""
\* completeness direction of C15: a packet that would use a down link is answered with the SCMP
\* (not silently dropped) - "up" is the last check before the packet leaves
InvC15Answer == (Done /\ r.why = "up") => (r.disp = "slow" /\ r.st \in {EXTDOWN, INTDOWN})
\* the SCMP pointer of the model designates a field of the right kind (sanity of the transcription)
InvPtr == (Done /\ r.disp = "slow" /\ r.st = PP /\ r.code \in {CInvalidMAC, CPathExpired, CUnknownHFIngress, CUnknownHFEgress, CInvalidPath})
             => r.pk = "hop"

\* ---------------------------------------------------------------- generator
NearMiss == ~Passed(r) /\ r.why \in CheckNames /\ Passed(StepSk(Cfg, p, {r.why}))
AlertAnswer == r.disp = "slow" /\ r.st \in {ALERTIN, ALERTEG}
Emit == (Done /\ (p.kind = "ohp" \/ Passed(r) \/ AlertAnswer \/ NearMiss)) =>   \* the one-hop table is small: all of it
          PrintT(<<"SCN", ToJson([p |-> p, m |-> [disp |-> r.disp, why |-> r.why, nm |-> ~Passed(r) /\ ~AlertAnswer /\ p.kind # "ohp"]])>>)

\* ---------------------------------------------------------------- configurations
FixAll == [d3 |-> TRUE, d9 |-> TRUE, d12 |-> TRUE, d13 |-> TRUE]
FixNone == [d3 |-> FALSE, d9 |-> FALSE, d12 |-> FALSE, d13 |-> FALSE]
I(id, sc, own, lt, up, nbr) == [id |-> id, sc |-> sc, own |-> own, lt |-> lt, up |-> up, nbr |-> nbr]
\* adversarial router A: child and parent links of its own, a second child behind sibling A, a
\* parent behind sibling B, one own link and one sibling link that BFD holds down
IfsA == << I(1, "ext", "-", "child", TRUE, "N1"), I(2, "ext", "-", "parent", TRUE, "N2"),
           I(3, "sib", "A", "child", TRUE, "N3"), I(4, "sib", "B", "parent", TRUE, "N4"),
           I(5, "ext", "-", "child", FALSE, "N5"), I(6, "sib", "A", "child", TRUE, "N6") >>
CfgA == [ifs |-> IfsA, fix |-> FixAll]
CfgAasfound == [ifs |-> IfsA, fix |-> FixNone]
\* sibling link A down (interfaces 3 and 6 share it)
IfsAdown == << I(1, "ext", "-", "child", TRUE, "N1"), I(2, "ext", "-", "parent", TRUE, "N2"),
               I(3, "sib", "A", "child", FALSE, "N3"), I(4, "sib", "B", "parent", TRUE, "N4"),
               I(5, "ext", "-", "child", FALSE, "N5"), I(6, "sib", "A", "child", FALSE, "N6") >>
CfgAdown == [ifs |-> IfsAdown, fix |-> FixAll]
\* link-type table router T: one ingress interface per link type (1..5), one own egress interface
\* per type (11..15), one egress interface per type behind sibling A (21..25)
LTs == <<"core", "parent", "child", "peer", "unset">>
IfsT == [k \in 1..15 |-> LET t == LTs[((k - 1) % 5) + 1] IN
           IF k <= 5 THEN I(k, "ext", "-", t, TRUE, "N" \o ToString(k))
           ELSE IF k <= 10 THEN I(k + 5, "ext", "-", t, TRUE, "N" \o ToString(k + 5))
           ELSE I(k + 10, "sib", "A", t, TRUE, "N" \o ToString(k + 10))]
CfgT == [ifs |-> IfsT, fix |-> FixAll]
CfgTasfound == [ifs |-> IfsT, fix |-> FixNone]

AuthAll == {<<FALSE, FALSE>>, <<TRUE, FALSE>>, <<FALSE, TRUE>>, <<TRUE, TRUE>>}
Auth3 == {<<FALSE, FALSE>>, <<TRUE, FALSE>>, <<FALSE, TRUE>>}
AuthOK == {<<TRUE, TRUE>>}
NoAlert == {<<FALSE, FALSE>>}
AlertAll == {<<FALSE, FALSE>>, <<TRUE, FALSE>>, <<FALSE, TRUE>>, <<TRUE, TRUE>>}
EpicAll == {<<a, b, d>> : a \in BOOLEAN, b \in BOOLEAN, d \in BOOLEAN}
EpicOK == {<<TRUE, TRUE, TRUE>>}
ShapesQ == {<<1>>, <<2>>, <<3>>, <<1, 1>>, <<1, 2>>, <<2, 1>>, <<2, 2>>}
ShapesT == ShapesQ \cup {<<4>>, <<1, 3>>, <<3, 1>>, <<1, 1, 1>>, <<1, 1, 2>>, <<1, 2, 1>>, <<2, 1, 1>>, <<2, 2, 2>>}
ShapesTable == {<<2>>, <<3>>, <<2, 2>>, <<2, 2, 2>>}
ShapesAlert == {<<2>>, <<3>>, <<2, 2>>}
ShapesTableQ == {<<3>>, <<2, 2>>}
ShapesOne == {<<2>>}
ShapesOne3 == {<<3>>}
ShapesEpicQ == {<<2>>, <<3>>, <<2, 2>>}
ShapesXo == {<<2, 2>>}
ShapesEpic == {<<2>>, <<3>>, <<2, 2>>, <<1, 2>>, <<2, 1>>, <<2, 2, 2>>}
=============================================================================
