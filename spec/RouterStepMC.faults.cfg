SPECIFICATION Spec
CONSTANTS
  Cfg <- CfgA
  Kinds = {"scion"}
  Shapes <- ShapesOne3
  Vias = {0, 1, 3}
  SrcDom = {"L", "F"}
  DstDom = {"L", "F"}
  Faults = {"none", "len", "srchost"}
  L4Dom = {"udp"}
  InSideDom = {0, 1, 999}
  EgSideDom = {0, 2, 3, 999}
  PeerDom = {FALSE}
  ExpDom = {FALSE}
  AuthDom <- AuthOK
  AlertDom <- NoAlert
  EpicDom <- EpicOK
INVARIANTS TypeOK InvC01 InvC05 InvC06 InvC12 InvC13 InvC15 InvC15Answer InvPtr
CONSTRAINT Emit
CHECK_DEADLOCK FALSE
