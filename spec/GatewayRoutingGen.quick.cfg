INIT GenInit
NEXT Next
CONSTANTS
  W = 6
  PrefixAlphabet <- GenPrefixesQuick
  ClassLists <- GenClassLists
  MaxEntries = 3
  Pkts = {}
  Rules <- GenRulesQuick
  MaxRules = 2
  IAs <- McIAs
  Queries <- McQueries
CONSTRAINTS Prune Emit
CHECK_DEADLOCK FALSE
