INIT GenInit
NEXT Next
CONSTANTS
  W = 6
  PrefixAlphabet = {}
  ClassLists <- GenClassLists
  MaxEntries = 0
  Pkts = {}
  Rules <- GenRules3
  MaxRules = 3
  IAs <- McIAs
  Queries <- McQueries
CONSTRAINTS Prune Emit
CHECK_DEADLOCK FALSE
