INIT GenInit
NEXT Next
CONSTANTS
  W = 6
  Tables <- ConcTables
  Readers = {}
  MaxOps = 6
  Pkts <- ConcPkts
CONSTRAINT Emit
CHECK_DEADLOCK FALSE
