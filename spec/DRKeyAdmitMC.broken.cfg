SPECIFICATION Spec
CONSTANTS
  Variant = "anyhost"
  OnlyRpc = "hosthost"
  Emit = FALSE
INVARIANTS TypeOK ServedOnlyIfAdmitted KeyForBoundEntity RejectedAsksNothing
CHECK_DEADLOCK FALSE
