SPECIFICATION Spec
CONSTANT MaxLen = 4
INVARIANTS Honest SegIDInSync
PROPERTIES Frame
CHECK_DEADLOCK FALSE
