SPECIFICATION Spec
CONSTANTS
  MaxLen = 4
  TamperTopos = {2}
INVARIANTS Honest SegIDInSync NoDeliveryAfterTamper AnswersComeBack
PROPERTIES Frame
CHECK_DEADLOCK FALSE
