SPECIFICATION Spec
CONSTANTS
  Kind = "p"
  MaxOps = 4
  Gen = TRUE
  Tx = FALSE
  Alphabet = "nq"
INVARIANTS IsMap QuerySound CandidatesSound NQUnique
PROPERTIES StepProps
CHECK_DEADLOCK FALSE
