------------------------------ MODULE TRCUpdate ------------------------------
(* C32: the space of signed TRC updates explored by TLC.  A case is an accepted update of one of
   several kinds (regular without change, regular with a re-issued regular voter and root, sensitive
   with re-issued / added voters and changed quorum, sensitive with quorum 1, base TRC) with up to
   Depth deviations applied: header fields, certificate slots (re-issue, delete, add), vote list edits
   (duplicates, other class, out of range), signer infos (absent / good / forged in three ways).
   TLC checks in-model that the decision procedure shaped like SignedTRC.Verify accepts only what
   the statement allows (CodeSound) and emits every distinct case as a scenario.              *)
EXTENDS TRCOps, TLC, Json

CONSTANTS Depth, DeepIds, BaseIds,   \* as in TRCPayload
          KindIds,                   \* signer info kinds (indices into AllKinds) used by the "si" deviation
          FinalKindIds,              \* further kinds applied to the accepted updates themselves only (the case
                                     \* is not deviated further): one representative of every forgery in quick
          SampleMod, SampleRes,      \* emit only cases of full depth whose checksum = SampleRes mod SampleMod
                                     \* (SampleMod = 1: emit every case)
          QuorumLowerBound, EmitScenarios

C(cls, subj, sn, ver) ==
    [cls |-> cls, subj |-> subj, iss |-> subj, sn |-> sn, isd |-> 1, nb |-> -10, na |-> 20, ver |-> ver]

CertPool == <<
    C("sens", 1, 1, 1), C("sens", 2, 2, 1), C("reg", 3, 3, 1), C("reg", 4, 4, 1), C("root", 5, 5, 1),
    \* re-issued certificates of the same subjects (#9 keeps the serial number of #4: same signer identifier)
    C("sens", 1, 11, 2), C("sens", 2, 12, 2), C("reg", 3, 13, 2), C("reg", 4, 4, 2), C("root", 5, 15, 2),
    \* new subjects
    C("sens", 6, 16, 1), C("reg", 7, 17, 1), C("root", 8, 18, 1) >>
NPool == Len(CertPool)
Twin(i) == IF i <= 5 THEN i + 5 ELSE IF i <= 10 THEN i - 5 ELSE i

AllKinds == <<"none", "good", "wrongkey", "wrongpayload", "badsig">>
NoSis == [i \in 1..NPool |-> "none"]
SisOf(S) == [i \in 1..NPool |-> IF i \in S THEN "good" ELSE "none"]

Hdr0 == [isd |-> 1, base |-> 1, serial |-> 4, reset |-> TRUE, quorum |-> 2, core |-> <<1, 2>>,
         auth |-> <<1>>, nb |-> 0, na |-> 10, grace |-> 1]

\* accepted updates
U1 == [hp |-> TRUE, q |-> 2, hdr |-> Hdr0, nc |-> <<1, 2, 3, 4, 5>>, votes |-> <<2, 3>>, sk |-> SisOf({3, 4})]
U2 == [hp |-> TRUE, q |-> 2, hdr |-> Hdr0, nc |-> <<1, 2, 8, 4, 10>>, votes |-> <<3, 2>>, sk |-> SisOf({3, 4, 8, 5})]
U3 == [hp |-> TRUE, q |-> 2, hdr |-> [Hdr0 EXCEPT !.quorum = 1, !.core = <<2, 1>>],
       nc |-> <<1, 7, 3, 4, 5, 12>>, votes |-> <<0, 1>>, sk |-> SisOf({1, 2, 7, 12})]
U4 == [hp |-> TRUE, q |-> 1, hdr |-> Hdr0, nc |-> <<1, 2, 3, 4, 5>>, votes |-> <<1>>, sk |-> SisOf({2})]
U5 == [hp |-> FALSE, q |-> 2, hdr |-> [Hdr0 EXCEPT !.serial = 1, !.grace = 0],
       nc |-> <<1, 2, 3, 4, 5>>, votes |-> <<>>, sk |-> SisOf({1, 2, 3, 4})]
\* regular update with quorum 1: regular voter 3 re-issued (8) and listed at another position than before
U6 == [hp |-> TRUE, q |-> 1, hdr |-> [Hdr0 EXCEPT !.quorum = 1], nc |-> <<1, 2, 4, 8, 5>>, votes |-> <<2>>, sk |-> SisOf({3, 8})]
Bases == <<U1, U2, U3, U4, U5, U6>>

Ids == {<<1, 1, 4>>, <<1, 1, 5>>, <<1, 1, 3>>, <<1, 1, 1>>, <<2, 1, 4>>, <<1, 2, 4>>, <<1, 4, 4>>}
Devs ==
    [k : {"q"}, a : {1, 2}, b : {0}] \cup
    [k : {"hp", "reset", "validity"}, a : {0}, b : {0}] \cup
    [k : {"id"}, a : 1..7, b : {0}] \cup
    [k : {"quorum"}, a : {1, 2, 3}, b : {0}] \cup
    [k : {"core"}, a : 1..3, b : {0}] \cup
    [k : {"auth", "grace"}, a : 1..2, b : {0}] \cup
    [k : {"repl", "del"}, a : 1..6, b : {0}] \cup
    [k : {"add"}, a : 1..NPool, b : {0}] \cup
    [k : {"vadd"}, a : -1..5, b : {0}] \cup
    [k : {"vdrop"}, a : {0}, b : {0}] \cup
    [k : {"vset"}, a : 1..3, b : 0..5] \cup
    [k : {"swapnc"}, a : 1..5, b : {0}] \cup            \* certificate order: slots a and a+1 exchanged
    [k : {"revote"}, a : 1..2, b : 0..4] \cup           \* vote a is cast (and signed) by predecessor certificate b instead
    [k : {"si"}, a : 1..NPool, b : KindIds] \cup
    [k : {"sifinal"}, a : 1..NPool, b : FinalKindIds]

IdSeq == <<(<<1, 1, 4>>), <<1, 1, 5>>, <<1, 1, 3>>, <<1, 1, 1>>, <<2, 1, 4>>, <<1, 2, 4>>, <<1, 4, 4>>>>
CoreSeq == <<(<<1, 2>>), <<2, 1>>, <<1>>>>
AuthSeq == <<(<<1>>), <<2>>>>
RemoveAt(s, i) == [j \in 1..(Len(s) - 1) |-> IF j < i THEN s[j] ELSE s[j + 1]]

Apply(c, m) ==
    CASE m.k = "q" -> [c EXCEPT !.q = m.a]
      [] m.k = "hp" -> [c EXCEPT !.hp = ~@]
      [] m.k = "reset" -> [c EXCEPT !.hdr.reset = ~@]
      [] m.k = "validity" -> [c EXCEPT !.hdr.nb = 5, !.hdr.na = 5]
      [] m.k = "id" -> [c EXCEPT !.hdr.isd = IdSeq[m.a][1], !.hdr.base = IdSeq[m.a][2], !.hdr.serial = IdSeq[m.a][3]]
      [] m.k = "quorum" -> [c EXCEPT !.hdr.quorum = m.a]
      [] m.k = "core" -> [c EXCEPT !.hdr.core = CoreSeq[m.a]]
      [] m.k = "auth" -> [c EXCEPT !.hdr.auth = AuthSeq[m.a]]
      [] m.k = "grace" -> [c EXCEPT !.hdr.grace = m.a - 1]
      [] m.k = "repl" -> IF m.a <= Len(c.nc) THEN [c EXCEPT !.nc[m.a] = Twin(@)] ELSE c
      [] m.k = "del" -> IF m.a <= Len(c.nc) THEN [c EXCEPT !.nc = RemoveAt(@, m.a)] ELSE c
      [] m.k = "add" -> IF Len(c.nc) < 7 THEN [c EXCEPT !.nc = Append(@, m.a)] ELSE c
      [] m.k = "vadd" -> IF Len(c.votes) < 4 THEN [c EXCEPT !.votes = Append(@, m.a)] ELSE c
      [] m.k = "vdrop" -> IF Len(c.votes) > 0 THEN [c EXCEPT !.votes = SubSeq(@, 1, Len(@) - 1)] ELSE c
      [] m.k = "vset" -> IF m.a <= Len(c.votes) THEN [c EXCEPT !.votes[m.a] = m.b] ELSE c
      [] m.k = "swapnc" -> IF m.a < Len(c.nc) THEN [c EXCEPT !.nc[m.a] = c.nc[m.a + 1], !.nc[m.a + 1] = c.nc[m.a]] ELSE c
      [] m.k = "revote" -> IF m.a <= Len(c.votes)
                             THEN [c EXCEPT !.votes[m.a] = m.b, !.sk[m.b + 1] = "good",
                                            !.sk[c.votes[m.a] + 1] = IF c.votes[m.a] \in 0..4 /\ c.votes[m.a] # m.b THEN "none" ELSE @]
                             ELSE c
      [] m.k = "si" -> [c EXCEPT !.sk[m.a] = AllKinds[m.b]]
      [] m.k = "sifinal" -> [c EXCEPT !.sk[m.a] = AllKinds[m.b]]

\* expansion into the form TRCOps talks about
Certs(ix) == [i \in 1..Len(ix) |-> CertPool[ix[i]]]
Pred(c) == [ver |-> 1, isd |-> 1, base |-> 1, serial |-> 3, nb |-> -5, na |-> 8, grace |-> 0, reset |-> TRUE,
            votes |-> <<0>>, quorum |-> c.q, core |-> <<1, 2>>, auth |-> <<1>>, desc |-> 1,
            certs |-> Certs(<<1, 2, 3, 4, 5>>)]
NextP(c) == [ver |-> 1, isd |-> c.hdr.isd, base |-> c.hdr.base, serial |-> c.hdr.serial, nb |-> c.hdr.nb,
             na |-> c.hdr.na, grace |-> c.hdr.grace, reset |-> c.hdr.reset, votes |-> c.votes,
             quorum |-> c.hdr.quorum, core |-> c.hdr.core, auth |-> c.hdr.auth, desc |-> 1, certs |-> Certs(c.nc)]
SisSeq(c) == LET on == {i \in 1..NPool : c.sk[i] # "none"}
                 f == CHOOSE g \in [1..Cardinality(on) -> on] : \A i, j \in 1..Cardinality(on) : i < j => g[i] < g[j]
             IN [i \in 1..Cardinality(on) |-> [c |-> CertPool[f[i]], kind |-> c.sk[f[i]]]]
\* cheaper, equivalent form of the signer info sequence for the pure operators (order is irrelevant)
SisAll(c) == [i \in 1..NPool |-> [c |-> CertPool[i], kind |-> c.sk[i]]]

VARIABLES cs, depth, maxd
vars == <<cs, depth, maxd>>
Init == \E b \in BaseIds : cs = Bases[b] /\ depth = 0 /\ maxd = IF b \in DeepIds THEN Depth ELSE 1
Next == /\ depth < maxd
        /\ \E m \in Devs :
              /\ cs' = Apply(cs, m)
              /\ cs' # cs
              /\ (m.k = "sifinal" => depth = 0)
              /\ depth' = IF m.k = "sifinal" THEN maxd ELSE depth + 1
        /\ UNCHANGED maxd
Spec == Init /\ [][Next]_vars
View == <<cs, maxd>>

-----------------------------------------------------------------------------
\* a signer info of kind "none" is no signer info: Signed and CodeVerifyAll must ignore it
Live(c) == LET s == SisAll(c) IN
           [i \in 1..NPool |-> IF s[i].kind = "none" THEN [c |-> [cls |-> "nocert", subj |-> -i, iss |-> -i, sn |-> -i,
                                                                  isd |-> -1, nb |-> 0, na |-> 0, ver |-> 0],
                                                            kind |-> "none"]
                               ELSE s[i]]
Spec32(c) == AcceptOK(c.hp, Pred(c), NextP(c), Live(c))
Code32(c) == CodeAccept(c.hp, Pred(c), NextP(c), Live(c), QuorumLowerBound)

CodeSound == Code32(cs) => Spec32(cs)
\* informational: how far the code shape is stricter than the statement (not an invariant to hold)
CodeComplete == Spec32(cs) => Code32(cs)
BasesAccepted == depth = 0 => Code32(cs) /\ Spec32(cs)

IxPayload(pl, ix) == [pl EXCEPT !.certs = ix]
Scenario(c) == [hp |-> c.hp, pred |-> IxPayload(Pred(c), <<1, 2, 3, 4, 5>>), next |-> IxPayload(NextP(c), c.nc), sk |-> c.sk]
KindIx(k) == CHOOSE i \in 1..Len(AllKinds) : AllKinds[i] = k
SumTo(f, n) == LET S[i \in 0..n] == IF i = 0 THEN 0 ELSE S[i - 1] + f[i] IN S[n]
Chk(c) == c.q + 3 * c.hdr.serial + 5 * c.hdr.quorum + 7 * c.hdr.isd + 11 * c.hdr.base + (IF c.hp THEN 13 ELSE 0)
          + (IF c.hdr.reset THEN 17 ELSE 0) + 19 * Len(c.hdr.core) + 23 * c.hdr.grace + 29 * c.hdr.na
          + SumTo([i \in 1..Len(c.nc) |-> (i + 1) * c.nc[i]], Len(c.nc))
          + SumTo([i \in 1..Len(c.votes) |-> (i + 2) * (c.votes[i] + 1)], Len(c.votes))
          + SumTo([i \in 1..NPool |-> (i + 3) * KindIx(c.sk[i])], NPool)
Emit == (EmitScenarios /\ (SampleMod = 1 \/ (depth = Depth /\ Chk(cs) % SampleMod = SampleRes)))
          => PrintT(<<"SCN", ToJson(Scenario(cs))>>)
ASSUME EmitScenarios => PrintT(<<"POOL", ToJson(CertPool)>>)
=============================================================================
