--------------------------- MODULE RouterStepTrace ---------------------------
(* Trace specification for the single-router adversarial / table properties C01 C05 C06 C09 C12
   C13 C15.  Every "pkt" line is one packet that went through the REAL router: p = the abstraction
   of the bytes that went in (MAC validity by the harness's independent AES-CMAC), g = header
   geometry, o = what the fast path did, s = what the slow path did, tw = what the router did
   with the embedded SCION path of an EPIC packet.  "reset" lines carry the router configuration.

   Only the property predicates of RouterStepOps (C0xKey ...) and the C09 formulas below print
   VERIF-BAD; the comparison with the transcription RouterStep(c, p) prints VERIF-DRIFT (ignored
   by the verdict).  Every line is an independent case (no latch).                          *)
EXTENDS RouterStepOps, Json, FiniteSets

Trace == ndJsonDeserialize("trace.ndjson")

VARIABLES l,      \* next line
          c,      \* router configuration of the current trace
          up,     \* BFD histories: [interface id -> last logged session state]; <<>> when unused
          cnt     \* statistics
vars == <<l, c, up, cnt>>
R == Trace[l]

FixAllT == [d3 |-> TRUE, d9 |-> TRUE, d12 |-> TRUE, d13 |-> TRUE]
NoCfg == [ifs |-> <<>>, fix |-> FixAllT, auth |-> FALSE]
Init == l = 1 /\ c = NoCfg /\ up = <<>> /\ cnt = [pkt |-> 0, passed |-> 0, slow |-> 0, scmp |-> 0, drift |-> 0]

\* ---------------------------------------------------------------- observation -> result record
PtrKind(p, alen, x) ==
  IF \E h \in 0..(NumHops(p) - 1) : HopOff(p, alen, h) = x THEN "hop"
  ELSE IF \E i \in 0..(NumInf(p) - 1) : InfoOff(p, alen, i) = x THEN "info"
  ELSE IF x = 0 THEN "zero" ELSE IF x = 12 THEN "dst" ELSE IF x = 20 THEN "src" ELSE "other"
PtrIdx(p, alen, x) ==
  IF \E h \in 0..(NumHops(p) - 1) : HopOff(p, alen, h) = x
  THEN CHOOSE h \in 0..(NumHops(p) - 1) : HopOff(p, alen, h) = x
  ELSE IF \E i \in 0..(NumInf(p) - 1) : InfoOff(p, alen, i) = x
  THEN CHOOSE i \in 0..(NumInf(p) - 1) : InfoOff(p, alen, i) = x
  ELSE 0

\* the router used two hop fields iff the outgoing pointer moved one further than a plain hop
XoverSeen(p, o) == o.disp = "forward" /\ o.phf - p.hf - (IF o.osc = "ext" THEN 1 ELSE 0) = 1

ObsRes(p, g, o) ==
  [disp |-> IF o.disp \in {"forward", "deliver", "slow"} THEN o.disp ELSE "discard",
   eg |-> o.eg, xover |-> XoverSeen(p, o), st |-> o.st, code |-> o.code,
   pk |-> IF o.disp = "slow" /\ o.st = PP /\ p.kind # "ohp" THEN PtrKind(p, g.alen, o.ptr) ELSE "none",
   pi |-> IF o.disp = "slow" /\ o.st = PP /\ p.kind # "ohp" THEN PtrIdx(p, g.alen, o.ptr) ELSE 0,
   why |-> "observed"]
TwinRes(p, tw) == [disp |-> IF tw.disp \in {"forward", "deliver", "slow"} THEN tw.disp ELSE "discard",
                eg |-> tw.eg, xover |-> XoverSeen(p, tw), st |-> tw.st, code |-> tw.code, pk |-> "none", pi |-> 0, why |-> "observed"]

\* ---------------------------------------------------------------- C09 (+ the SCMP clauses of C15)
MutableOff(p, alen, x) ==
  \/ x \in PathOff(alen, p.kind)..(PathOff(alen, p.kind) + 3)
  \/ \E i \in 0..(NumInf(p) - 1) : x \in {InfoOff(p, alen, i) + 2, InfoOff(p, alen, i) + 3}
  \/ \E h \in 0..(NumHops(p) - 1) : x = HopOff(p, alen, h)
Cause(o) == ToString(o.st) \o "/" \o ToString(o.code)
C09Keys(cf, p, g, o, s) ==
  IF ~(o.disp = "slow" /\ s.ran /\ ~s.err) THEN {}
  ELSE IF s.kind = "orig" THEN {}                         \* judged by C06Reflect
  ELSE IF s.kind # "scmp" THEN {"C09:output-is-not-an-scmp-message"}
  ELSE
    {IF ~s.same THEN "C09:not-sent-back-over-the-ingress-link" ELSE "",
     IF ~s.dstsrc THEN "C09:not-addressed-to-the-offenders-source:" \o Cause(o) ELSE "",
     IF ~s.srcrtr THEN "C09:source-is-not-the-router:" \o Cause(o) ELSE "",
     IF s.ck # 65535 THEN "C09:bad-checksum:" \o Cause(o) ELSE "",
     IF ~s.hdr THEN "C09:inconsistent-header-lengths" ELSE "",
     IF s.len > 1232 THEN "C09:longer-than-1232:" \o Cause(o) ELSE "",
     IF cf.auth /\ s.typ < 128 /\ s.auth # "ok" THEN "C09:error-without-valid-authenticator:" \o s.auth ELSE ""}
    \cup
    (IF s.typ >= 128 THEN {}
     ELSE {IF p.l4 = "scmperr" THEN "C09:scmp-error-answered-with-scmp-error" ELSE "",
           IF o.st >= 0 /\ (s.typ # o.st \/ s.code # o.code) THEN "C09:type-code-differs-from-detected-problem:" \o Cause(o) ELSE "",
           IF o.st = PP /\ s.ptr # o.ptr THEN "C09:pointer-differs-from-detected-problem:" \o Cause(o) ELSE "",
           IF o.st < 0 THEN "C09:error-message-for-router-alert" ELSE "",
           IF s.qover \/ \E k \in 1..Len(s.qdiff) : ~MutableOff(p, g.alen, s.qdiff[k])
           THEN "C09:quote-is-not-a-prefix-of-the-offending-packet" ELSE ""})
C15ScmpKeys(cf, p, o, s) ==
  IF ~(o.disp = "slow" /\ s.ran /\ ~s.err /\ s.kind = "scmp" /\ o.st \in {EXTDOWN, INTDOWN}) THEN {}
  ELSE {IF s.ia # "L" THEN "C15:interface-down-message-names-foreign-ia" ELSE "",
        IF o.st = EXTDOWN /\ s.ifa # o.eg THEN "C15:external-down-names-wrong-interface" ELSE "",
        IF o.st = INTDOWN /\ (s.ifa # IngressFromLink(cf, p.via) \/ s.ifb # o.eg)
        THEN "C15:internal-down-names-wrong-interfaces" ELSE ""}

\* ---------------------------------------------------------------- one packet
Keys(cf, p, g, o, s, tw) ==
  LET r == ObsRes(p, g, o) IN
  ({C01Key(cf, p, r), C05Key(cf, p, r), C06Key(cf, p, r), C12Key(cf, p, r), C13Key(cf, p, r),
    C15Key(cf, p, r),
    IF p.kind = "epic" /\ tw.disp # "none" THEN C13TwinKey(cf, p, r, TwinRes(p, tw)) ELSE "",
    IF o.disp = "slow" /\ s.ran /\ ~s.err /\ s.kind = "orig" THEN C06Reflect(cf, p, s.phf - p.hf = 1) ELSE "",
    IF o.disp = "panic" THEN "panic" ELSE ""}
   \cup C09Keys(cf, p, g, o, s) \cup C15ScmpKeys(cf, p, o, s)) \ {""}

\* transcription drift (never a verdict)
DriftKey(cf, p, g, o, s) ==
  LET m == RouterStep(cf, p)
      r == ObsRes(p, g, o)
  IN IF o.disp \in {"done", "panic"} THEN ""
     ELSE IF m.disp # r.disp THEN "disp:model=" \o m.disp \o "(" \o m.why \o "),impl=" \o r.disp
     ELSE IF m.disp = "forward" /\ (m.eg # r.eg \/ m.xover # r.xover) THEN "egress:" \o m.why
     ELSE IF m.disp = "slow" /\ (m.st # r.st \/ m.code # r.code) THEN "cause:model=" \o Cause(m) \o ",impl=" \o Cause(r)
     ELSE IF m.disp = "slow" /\ m.st = PP /\ (m.pk # r.pk \/ m.pi # r.pi) THEN "pointer:" \o m.why \o "," \o p.kind
     ELSE IF m.disp = "slow" /\ m.st < 0 /\ s.ran
             /\ SlowAlert(cf, p) # (IF s.err THEN "drop" ELSE IF s.kind = "orig" THEN "reflect" ELSE "reply")
          THEN "alert:model=" \o SlowAlert(cf, p)
     ELSE ""

CurCfg == IF up = <<>> THEN c
          ELSE [c EXCEPT !.ifs = [i \in DOMAIN c.ifs |->
                  IF c.ifs[i].id \in DOMAIN up THEN [c.ifs[i] EXCEPT !.up = up[c.ifs[i].id]] ELSE c.ifs[i]]]

Pkt ==
  LET ks == Keys(CurCfg, R.p, R.g, R.o, R.s, R.tw)
      d == DriftKey(CurCfg, R.p, R.g, R.o, R.s)
  IN /\ \A k \in ks : PrintT(<<"VERIF-BAD", l, k>>)
     /\ (d # "") => PrintT(<<"VERIF-DRIFT", l, d>>)
     /\ cnt' = [cnt EXCEPT !.pkt = @ + 1,
                           !.passed = @ + (IF R.o.disp \in {"forward", "deliver"} THEN 1 ELSE 0),
                           !.slow = @ + (IF R.o.disp = "slow" THEN 1 ELSE 0),
                           !.scmp = @ + (IF R.s.kind = "scmp" THEN 1 ELSE 0),
                           !.drift = @ + (IF d # "" THEN 1 ELSE 0)]
     /\ UNCHANGED <<c, up>>

Reset == /\ c' = [ifs |-> R.c.ifs, fix |-> FixAllT, auth |-> R.auth]
         /\ up' = <<>>
         /\ UNCHANGED cnt

\* ---- C12: the one-hop path completed by the neighbour's router and its reversal
\* R.ok: both forward steps passed; R.second: the second hop field is valid under the neighbour's
\* key for the accumulator the first router left; R.rev1 / R.rev2: dispositions of the reversed
\* path at the neighbour's router (leaving) and at the first router (arriving).
OhpRev ==
  /\ IF R.ok /\ ~R.second THEN PrintT(<<"VERIF-BAD", l, "C12:completed-second-hop-invalid">>)
     ELSE IF R.ok /\ (R.rev1 # "forward" \/ R.rev2 # "deliver")
          THEN PrintT(<<"VERIF-BAD", l, "C12:reversed-one-hop-path-rejected:" \o R.rev1 \o "," \o R.rev2>>)
          ELSE TRUE
  /\ UNCHANGED <<c, up, cnt>>

\* ---- C15: BFD session state changes (logged after the session applied them)
Bfd == /\ up' = (IF up = <<>> THEN (R.ifid :> R.up) ELSE (R.ifid :> R.up) @@ up)
       /\ UNCHANGED <<c, cnt>>

Step == /\ l <= Len(Trace)
        /\ l' = l + 1
        /\ CASE R.ev = "reset" -> Reset
             [] R.ev = "pkt" -> Pkt
             [] R.ev = "ohprev" -> OhpRev
             [] R.ev = "bfd" -> Bfd
             [] OTHER -> PrintT(<<"VERIF-BAD", l, "no-spec-action:" \o R.ev>>) /\ UNCHANGED <<c, up, cnt>>

Done == /\ l = Len(Trace) + 1
        /\ PrintT(<<"VERIF-STAT", "pkt", cnt.pkt>>) /\ PrintT(<<"VERIF-STAT", "passed", cnt.passed>>)
        /\ PrintT(<<"VERIF-STAT", "slow", cnt.slow>>) /\ PrintT(<<"VERIF-STAT", "scmp", cnt.scmp>>)
        /\ PrintT(<<"VERIF-STAT", "drift", cnt.drift>>)
        /\ PrintT(<<"VERIF-DONE", Len(Trace)>>)
        /\ UNCHANGED vars

Next == Step \/ Done
Spec == Init /\ [][Next]_vars
=============================================================================
