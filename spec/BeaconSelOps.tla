---------------------------- MODULE BeaconSelOps ----------------------------
(* C26 - beacon selection (control/beacon baseAlgo.SelectBeacons), written from the statement.
   A candidate is the sequence of its links (one per AS entry; a link is an abstract integer that
   stands for (ISD-AS, egress interface)); its length is the number of entries.  Candidates are
   given ordered by length.                                                                    *)
EXTENDS Integers, Sequences, FiniteSets

Range(s) == {s[i] : i \in 1..Len(s)}
\* link diversity of x with respect to `first`: number of links (entries) of first that x lacks
Div(first, x) == Cardinality({i \in 1..Len(first) : first[i] \notin Range(x)})
MaxOf(S) == CHOOSE m \in S : \A x \in S : x <= m
MinOf(S) == CHOOSE m \in S : \A x \in S : m <= x

\* best diversity among the first k-1 candidates (the best among zero candidates is -1)
BestServed(c, k) == IF k = 1 THEN -1 ELSE MaxOf({Div(c[1], c[j]) : j \in 1..(k - 1)})
\* the remaining candidates that are most diverse w.r.t. the first, the shortest among those
MostDiverseRest(c, k) ==
    LET rest == k..Len(c)
        dmax == MaxOf({Div(c[1], c[j]) : j \in rest})
        top == {j \in rest : Div(c[1], c[j]) = dmax}
        lmin == MinOf({Len(c[j]) : j \in top})
    IN  [div |-> dmax, idx |-> {j \in top : Len(c[j]) = lmin}]

(* The selection as a set of allowed results (sequences of candidate indices): everything if
   n <= k; else the k-1 first ones followed by the most diverse remaining candidate if its diversity
   exceeds BestServed, by the first remaining candidate (index k) otherwise.  Several remaining
   candidates may be equally diverse and equally long: the statement allows any of them.        *)
Prefix(k) == [i \in 1..(k - 1) |-> i]
Select(c, k) ==
    IF Len(c) <= k THEN {[i \in 1..Len(c) |-> i]}
    ELSE LET m == MostDiverseRest(c, k) IN
         IF m.div > BestServed(c, k) THEN {Append(Prefix(k), j) : j \in m.idx}
         ELSE {Append(Prefix(k), k)}
\* the implementation's tie-break (first of the equally good ones), for drift reporting only
SelectFirst(c, k) ==
    IF Len(c) <= k THEN [i \in 1..Len(c) |-> i]
    ELSE LET m == MostDiverseRest(c, k) IN
         IF m.div > BestServed(c, k) THEN Append(Prefix(k), MinOf(m.idx)) ELSE Append(Prefix(k), k)

(* The algorithm as found in selection_algo.go before the repair: the reference beacon is
   result[0], the first element of the k-1 copied candidates - which does not exist for k = 1. *)
Panic == <<-1>>
SelectAsFound(c, k) == IF Len(c) > k /\ k = 1 THEN Panic ELSE SelectFirst(c, k)
=============================================================================
