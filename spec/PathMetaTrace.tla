--------------------------- MODULE PathMetaTrace ---------------------------
(* Trace ("table") specification for C19.  Every line of trace.ndjson is an independent case
   recorded by harness/cmd/pathmeta from the real pkg/slayers/path/scion code:

     ev = "acc"    for (a, b) and every c in 0..63: how many of the enumerated headers with segment
                   lengths <<a, b, c>> Raw / Decoded.DecodeFromBytes accepted, NumINF / NumHops;
     ev = "empty"  the all-zero triple (empty path): only "no panic";
     ev = "tri"    one accepted triple: a cell per in-range pointer pair, Reverse results, ...

   The expected values are the operators of PathMetaOps.  Monitor (VERIF-BAD): everything the
   property states - acceptance, and for pointer pairs whose info pointer is the segment of the hop
   pointer the flags, IncPath, Reverse; for other in-range pairs CurrINFMatchesCurrHF = FALSE and
   reverse twice = identity.
   Pointer pairs the property says nothing about are compared with the code-shaped operators and
   reported as VERIF-DRIFT only.  Out-of-range pointers: no panic, and IncPath refuses
   a hop pointer beyond the last hop.                               *)
EXTENDS PathMetaOps, TLC, Json

Trace == ndJsonDeserialize("trace.ndjson")

VARIABLE l
vars == <<l>>
R == Trace[l]

Chk(ok, key) == IF ok THEN TRUE ELSE PrintT(<<"VERIF-BAD", l, key>>)
Drift(ok, key) == IF ok THEN TRUE ELSE PrintT(<<"VERIF-DRIFT", l, key>>)

-----------------------------------------------------------------------------
Shape(s) == IF AllZero(s) THEN "empty"
            ELSE IF s[1] = 0 \/ (s[2] = 0 /\ s[3] > 0) THEN "gap"
            ELSE IF Total(s) > MaxHops THEN "total>64"
            ELSE "valid"
Got(n, tried) == IF n = 0 THEN "rejected" ELSE IF n = tried THEN "accepted" ELSE "mixed"

Acc ==
    /\ Chk(R.panics = 0, "panic:" \o R.pop)
    /\ Chk(R.fieldMismatch = 0, "metahdr:decoded-fields-differ-from-bits")
    /\ Chk(R.serMismatch = 0, "metahdr:serialize-does-not-round-trip")
    /\ Chk(R.shapeMixed = 0, "decode:numinf-numhops-depend-on-pointers")
    /\ \A c \in 0..63 :
         LET s == <<R.a, R.b, c>>
             acc == Accept(s)
             raw == R.raw[c + 1]
             dec == R.dec[c + 1] IN
         /\ Chk(raw = (IF acc THEN R.tried ELSE 0),
                "accept:raw:" \o Got(raw, R.tried) \o ":shape=" \o Shape(s))
         /\ Chk(dec = (IF acc THEN R.triedDec ELSE 0),
                "accept:decoded:" \o Got(dec, R.triedDec) \o ":shape=" \o Shape(s))
         /\ Chk(raw = 0 \/ ~acc \/ (R.ni[c + 1] = NumInf(s) /\ R.nh[c + 1] = Total(s)),
                "decode:numinf-numhops:ninf=" \o ToString(NumInf(s)))

Empty == Chk(R.panics = 0, "panic:" \o R.pop)

-----------------------------------------------------------------------------
Bit(a, k) == (a \div (2 ^ k)) % 2
Field(a, name) == CASE name = "matches" -> Bit(a, 0) [] name = "xover" -> Bit(a, 1)
                    [] name = "firstafterxover" -> Bit(a, 2) [] name = "isfirst" -> Bit(a, 3)
                    [] name = "islast" -> Bit(a, 4) [] name = "ispenultimate" -> Bit(a, 5)
                    [] name = "inc.err" -> Bit(a, 6) [] name = "inc.inf" -> (a \div 128) % 4
                    [] name = "inc.hf" -> a \div 512
Fields == <<"matches", "xover", "firstafterxover", "isfirst", "islast", "ispenultimate", "inc.err",
            "inc.inf", "inc.hf">>
\* abstract position of hop h: which segment, where in it
Pos(s, h) == LET i == SegOf(s, h) IN
    "ninf=" \o ToString(NumInf(s)) \o ",seg=" \o ToString(i) \o ",pos=" \o
    (IF s[i + 1] = 1 THEN "only" ELSE IF IsFirstOfSeg(s, h) THEN "first"
     ELSE IF IsLastOfSeg(s, h) THEN "last" ELSE "mid")
CellKey(got, want, s, h) ==
    IF got = -1 THEN "cell:panic"
    ELSE IF got = -2 THEN "cell:incpath-not-written-to-raw"
    ELSE LET k == CHOOSE k \in 1..Len(Fields) :
                    /\ Field(got, Fields[k]) # Field(want, Fields[k])
                    /\ \A j \in 1..(k - 1) : Field(got, Fields[j]) = Field(want, Fields[j])
         IN "cell:" \o Fields[k] \o ":got=" \o ToString(Field(got, Fields[k])) \o ",want=" \o
            ToString(Field(want, Fields[k])) \o ":" \o Pos(s, h)

RevKey(kind, got, want, s) ==
    "reverse:" \o kind \o ":" \o
    (IF got = -1 THEN "error"
     ELSE IF got \div 256 # want \div 256 THEN "seglen"
     ELSE IF (got \div 64) % 4 # (want \div 64) % 4 THEN "currinf"
     ELSE "currhf") \o ":ninf=" \o ToString(NumInf(s))

Tri ==
    LET s == <<R.s[1], R.s[2], R.s[3]>>
        N == Total(s)
        NI == NumInf(s)
        so == [h \in 0..(N - 1) |-> SegOf(s, h)]
    IN
    /\ Chk(R.panics = 0, "panic:" \o R.pop)
    /\ IF ~Valid(s) THEN Chk(FALSE, "tri:tabulated-shape-is-not-valid")       \* (judged by "acc")
       ELSE IF R.ni # NI \/ R.nh # N THEN Chk(FALSE, "decode:numinf-numhops:ninf=" \o ToString(NI))
       ELSE
       /\ \A ci \in 0..(NI - 1) :
            LET want == [k \in 1..N |-> IF so[k - 1] = ci THEN CellS(s, ci, k - 1) ELSE CellC(s, ci, k - 1)]
                got == R.cells[ci + 1]
            IN  \/ got = want
                \/ LET badS == {k \in 1..N : so[k - 1] = ci /\ got[k] # want[k]}
                       badM == {k \in 1..N : so[k - 1] # ci /\ got[k] % 2 # 0}
                       badC == {k \in 1..N : so[k - 1] # ci /\ got[k] # want[k]}
                   IN /\ badS = {} \/ LET k == CHOOSE k \in badS : \A j \in badS : k <= j
                                      IN Chk(FALSE, CellKey(got[k], want[k], s, k - 1))
                      /\ badM = {} \/ Chk(FALSE, "cell:matches:got=1,want=0:other-segment")
                      /\ badC = {} \/ Drift(FALSE, "cell:pointers-in-different-segments")
       /\ LET want == [k \in 1..N |-> EncRev(RevS(s, so[k - 1], k - 1))]
              wrong(x) == {k \in 1..N : x[k] # want[k]}
              first(S) == CHOOSE k \in S : \A j \in S : k <= j
          IN /\ R.rr = want \/ Chk(FALSE, RevKey("raw", R.rr[first(wrong(R.rr))], want[first(wrong(R.rr))], s))
             /\ R.rd = want \/ Chk(FALSE, RevKey("decoded", R.rd[first(wrong(R.rd))], want[first(wrong(R.rd))], s))
       /\ LET want == [k \in 1..N |-> EncMeta(s, so[k - 1], k - 1)]
              wrong == {k \in 1..N : R.r2[k] # want[k]}
              k == CHOOSE k \in wrong : \A j \in wrong : k <= j
          IN R.r2 = want \/ Chk(FALSE, RevKey("twice", R.r2[k], want[k], s))
       \* "reversing a path twice restores it" holds for every decodable meta header, also where the info
       \* pointer is not the segment of the hop pointer
       /\ \A ci \in 0..(NI - 1) :
            LET want == [k \in 1..N |-> EncMeta(s, ci, k - 1)]
                wrong == {k \in 1..N : R.r2all[ci + 1][k] # want[k]}
                k == CHOOSE k \in wrong : \A j \in wrong : k <= j
            IN R.r2all[ci + 1] = want
               \/ Chk(FALSE, RevKey("twice", R.r2all[ci + 1][k], want[k], s) \o
                              (IF so[k - 1] = ci THEN "" ELSE ",info-pointer-in-another-segment"))
       /\ Chk(R.restoredall = NI * N, "reverse:twice-does-not-restore-bytes:any-pointers:ninf=" \o ToString(NI))
       \* "advancing moves to the next hop ... until the last hop": a hop pointer at or beyond the last hop is
       \* never advanced (all 4 x (64 - N) pointer pairs beyond the path); whenever IncPath succeeds the raw
       \* bytes carry the same pointers as the struct
       /\ Chk(R.pastinc = 0, "incpath:advances-a-hop-pointer-beyond-the-last-hop:ninf=" \o ToString(NI))
       /\ Chk(R.incrawdiff = 0, "incpath:raw-and-struct-pointers-differ-after-advancing:ninf=" \o ToString(NI))
       /\ Chk(R.agree = N, "reverse:raw-and-decoded-bytes-differ:ninf=" \o ToString(NI))
       /\ Chk(R.restored = N, "reverse:twice-does-not-restore-bytes:ninf=" \o ToString(NI))
       /\ Chk(R.tdr = N, "todecoded-toraw:not-identity:ninf=" \o ToString(NI))
       \* contents after one Reverse: hop fields in opposite order, info fields in opposite order
       \* with the construction-direction flag flipped
       /\ Chk(R.hops1 = [k \in 1..N |-> N - k], "reverse:hop-order:ninf=" \o ToString(NI))
       /\ Chk(R.infs1 = [j \in 1..NI |-> NI - j], "reverse:info-order:ninf=" \o ToString(NI))
       \* field accessors of the raw representation at every index: hop i / info j is the i-th / j-th field of
       \* the decoded representation; setting it changes exactly that field (and nothing else, seen through a
       \* full decode); one past the end nothing is written
       /\ Chk(R.gh = [k \in 1..N |-> k - 1] /\ R.ghd = N, "raw:gethopfield-is-not-the-decoded-hop:ninf=" \o ToString(NI))
       /\ Chk(R.gi = [j \in 1..NI |-> j - 1] /\ R.gid = NI, "raw:getinfofield-is-not-the-decoded-info:ninf=" \o ToString(NI))
       /\ Chk(R.sh = [k \in 1..N |-> k - 1], "raw:sethopfield-does-not-set-exactly-that-hop:ninf=" \o ToString(NI))
       /\ Chk(R.si = [j \in 1..NI |-> j - 1], "raw:setinfofield-does-not-set-exactly-that-info:ninf=" \o ToString(NI))
       /\ Chk(R.oobchanged = 0, "raw:field-access-past-the-end-writes")
       /\ Drift(R.ooberr = 4, "raw:field-access-past-the-end-accepted")
       /\ Chk(Len(R.cons1) = NI /\ Len(R.cons0) = NI /\
              \A j \in 1..NI : R.cons1[j] = 1 - R.cons0[NI + 1 - j], "reverse:consdir:ninf=" \o ToString(NI))

-----------------------------------------------------------------------------
Init == l = 1
Step == /\ l <= Len(Trace)
        /\ l' = l + 1
        /\ CASE R.ev = "acc" -> Acc
             [] R.ev = "tri" -> Tri
             [] R.ev = "empty" -> Empty
             [] OTHER -> Chk(FALSE, "no-spec-action:" \o R.ev)
Done == /\ l = Len(Trace) + 1
        /\ PrintT(<<"VERIF-DONE", Len(Trace)>>)
        /\ UNCHANGED vars
Next == Step \/ Done
Spec == Init /\ [][Next]_vars
=============================================================================
