------------------------------ MODULE TrustStore ------------------------------
(* C35: FetchingProvider.NotifyTRC as it is written -- read the latest TRC, guard, then a loop of
   fetch / verify-against-the-local-predecessor / insert steps -- executed by several concurrent
   callers (the verifier calls it for every signature it checks) against one database, with the
   remote's behaviour chosen by the environment at every fetch.
   Database semantics (private/storage/trust/sqlite): insert of a new ID stores, insert of the same
   content is a no-op, insert of a different content under a stored ID fails (primary key).      *)
EXTENDS TrustStoreOps, TLC

CONSTANTS Procs, MaxSerial, InitLatest, MaxNotify

VARIABLES db,      \* serial -> content
          pc,      \* per process: "idle" | "fetch" | "verify" | "insert" | "done"
          cur,     \* per process: [serial, content] of the TRC held as predecessor
          target,  \* per process: serial notified
          got,     \* per process: what the fetch returned (outcome)
          nnot,    \* notifications issued
          vagainst \* history: serial -> content of the predecessor it was verified against when stored
vars == <<db, pc, cur, target, got, nnot, vagainst>>

Serials == 1..MaxSerial
Init == /\ db = [s \in Serials |-> IF s <= InitLatest THEN "a" ELSE "none"]
        /\ pc = [p \in Procs |-> "idle"] /\ cur = [p \in Procs |-> [serial |-> 0, content |-> "none"]]
        /\ target = [p \in Procs |-> 0] /\ got = [p \in Procs |-> "ok"] /\ nnot = 0
        /\ vagainst = [s \in Serials |-> "none"]

\* NotifyTRC entry: latest TRC read, guards evaluated atomically (one DB query)
Notify(p) == /\ pc[p] = "idle" /\ nnot < MaxNotify
             /\ \E base \in {1, 2}, serial \in 0..MaxSerial :
                  /\ nnot' = nnot + 1
                  /\ IF base # 1 \/ serial <= Latest(db)
                       THEN UNCHANGED <<pc, cur, target>>            \* error or no-op
                       ELSE /\ cur' = [cur EXCEPT ![p] = [serial |-> Latest(db), content |-> db[Latest(db)]]]
                            /\ target' = [target EXCEPT ![p] = serial]
                            /\ pc' = [pc EXCEPT ![p] = "fetch"]
             /\ UNCHANGED <<db, got, vagainst>>

Fetch(p) == /\ pc[p] = "fetch"
            /\ \E o \in Outcomes :
                 /\ got' = [got EXCEPT ![p] = o]
                 /\ pc' = [pc EXCEPT ![p] = IF o = "fetcherr" THEN "idle" ELSE "verify"]
            /\ UNCHANGED <<db, cur, target, nnot, vagainst>>

\* fetched.Verify(&trc.TRC): only a successor of the locally held predecessor passes
Verify(p) == /\ pc[p] = "verify"
             /\ pc' = [pc EXCEPT ![p] = IF got[p] \in GoodOutcomes \cup {"inserterr"} THEN "insert" ELSE "idle"]
             /\ UNCHANGED <<db, cur, target, got, nnot, vagainst>>

Insert(p) ==
    LET s == cur[p].serial + 1
        c == ContentOf(got[p]) IN
    /\ pc[p] = "insert"
    /\ IF got[p] = "inserterr" \/ (db[s] # "none" /\ db[s] # c)
         THEN /\ pc' = [pc EXCEPT ![p] = "idle"] /\ UNCHANGED <<db, cur, vagainst>>
         ELSE /\ db' = [db EXCEPT ![s] = c]
              /\ vagainst' = IF db[s] = "none" THEN [vagainst EXCEPT ![s] = cur[p].content] ELSE vagainst
              /\ cur' = [cur EXCEPT ![p] = [serial |-> s, content |-> c]]
              /\ pc' = [pc EXCEPT ![p] = IF s >= target[p] THEN "idle" ELSE "fetch"]
    /\ UNCHANGED <<target, got, nnot>>

Next == \E p \in Procs : Notify(p) \/ Fetch(p) \/ Verify(p) \/ Insert(p)
Spec == Init /\ [][Next]_vars

-----------------------------------------------------------------------------
TypeOK == db \in [Serials -> {"none", "a", "b"}]
\* the store is an unbroken succession: no serial is stored before its predecessor
Succession == Contiguous(db, 1)
\* every TRC added was verified against the content that is (still) stored as its predecessor
VerifiedChain == \A s \in Serials : (s > InitLatest /\ db[s] # "none") => vagainst[s] = db[s - 1]
\* the latest TRC never regresses and stored TRCs are never replaced
NoRegress == [][/\ Latest(db') >= Latest(db)
                /\ \A s \in Serials : db[s] # "none" => db'[s] = db[s]]_vars
\* a single caller on a quiet store behaves like the pure operator used by the trace specification
=============================================================================
