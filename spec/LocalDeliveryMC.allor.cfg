SPECIFICATION Spec
CONSTANTS
  Variant = "all-or"
  RangeSet = "small"
INVARIANTS DeliveredToAllowedPort ServiceToRegisteredInstance
CHECK_DEADLOCK FALSE
