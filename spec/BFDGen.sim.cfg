SPECIFICATION Spec
CONSTANTS
  MaxLen = 24
INVARIANTS Emit
CHECK_DEADLOCK FALSE
