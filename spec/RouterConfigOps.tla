--------------------------- MODULE RouterConfigOps ---------------------------
(* Pure operators for router configuration (C17, C11-ordering), shared by RouterConfig.tla and the
   trace specifications.

   C17: "the configured receive buffer size is requested as the receive buffer and the configured
   send buffer size as the send buffer of every underlay socket the router opens".
   C11: "The configured range (from the topology, possibly overridden by the router configuration)
   is honoured whatever the order in which the router is configured."                            *)
EXTENDS Integers, Sequences

\* what a socket must be opened with, given the router configuration
WantConn(cfg) == [rcv |-> cfg.rcv, snd |-> cfg.snd]
ConnOK(cfg, got) == got.rcv = cfg.rcv /\ got.snd = cfg.snd
\* classification of a wrong request (for failure keys)
ConnWhy(cfg, got) == IF cfg.rcv # cfg.snd /\ got.rcv = cfg.snd /\ got.snd = cfg.rcv THEN "swapped"
                     ELSE IF got.rcv # cfg.rcv /\ got.snd # cfg.snd THEN "both-wrong"
                     ELSE IF got.rcv # cfg.rcv THEN "rcv-wrong" ELSE "snd-wrong"

\* What the kernel reports for a socket buffer of requested size `want` (0 = not configured: the
\* operating-system default, not judged): Linux stores twice the requested value, clamped to the
\* system maximum, so the read-back value lies between min(want, max) and twice that.
SockOK(want, got, max) == want = 0 \/ LET eff == IF want > max THEN max ELSE want IN eff <= got /\ got <= 2 * eff
SockWhy(cfg, got, rmax, wmax) ==
    IF SockOK(cfg.snd, got.rcv, rmax) /\ SockOK(cfg.rcv, got.snd, wmax) /\ cfg.rcv # cfg.snd THEN "swapped"
    ELSE IF ~SockOK(cfg.rcv, got.rcv, rmax) /\ ~SockOK(cfg.snd, got.snd, wmax) THEN "both-wrong"
    ELSE IF ~SockOK(cfg.rcv, got.rcv, rmax) THEN "rcv-wrong" ELSE "snd-wrong"

\* dispatched-port range of the topology file: "-" (empty) is 0..0, "all" is 1..65535
TopoRange(kind, lo, hi) == IF kind = "empty" THEN <<0, 0>> ELSE IF kind = "all" THEN <<1, 65535>> ELSE <<lo, hi>>
\* the router configuration may override either end (-1 = not overridden)
Effective(range, ovLo, ovHi) == << IF ovLo >= 0 THEN ovLo ELSE range[1], IF ovHi >= 0 THEN ovHi ELSE range[2] >>
EndhostPort == 30041
=============================================================================
