SPECIFICATION Spec
CONSTANTS
  MaxChains = 2
  Expiries = {2, 3, 4}
  KeyRings = {{1, 2}}
  GraceBoundByLatest = TRUE
INVARIANTS Sound Emit
CHECK_DEADLOCK FALSE
