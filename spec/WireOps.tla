----------------------------- MODULE WireOps -----------------------------
(* Pure operators of the SCION wire format family (C18 layout, C20 checksums, C21 authenticated
   fields): the single source of truth shared by the exhaustive models (WireCsum.tla, WireAuth.tla,
   Wire.tla) and the trace specifications (Wire*Trace.tla).  Byte strings are sequences of 0..255. *)
EXTENDS Integers, Sequences, SequencesExt

BitOf(b, k) == (b \div (2 ^ k)) % 2
FlipBit(b, k) == IF BitOf(b, k) = 1 THEN b - 2 ^ k ELSE b + 2 ^ k
FlipAt(s, i, k) == [s EXCEPT ![i] = FlipBit(@, k)]             \* i: 1-based byte index, k: bit 0 (lsb) .. 7
U16Bytes(n) == <<(n \div 256) % 256, n % 256>>
U32Bytes(n) == <<(n \div 16777216) % 256, (n \div 65536) % 256, (n \div 256) % 256, n % 256>>
U16At(s, i) == s[i] * 256 + s[i + 1]                           \* big-endian 16-bit word at 1-based index i
Zeros(n) == [i \in 1..n |-> 0]

-----------------------------------------------------------------------------
(* C20 -- upper-layer checksum (doc/protocols/scion-header.rst, "Pseudo Header for Upper-Layer
   Checksum"; RFC 1071 arithmetic).                                                              *)

\* sum of the 16-bit big-endian words of a byte string; an odd tail is padded with a zero on the right
\* (a fold with TLC's Java override: a recursive operator is ~100x slower on 9000-byte strings)
WordSum(b) == FoldLeftDomain(LAMBDA acc, i : acc + (IF i % 2 = 1 THEN 256 * b[i] ELSE b[i]), 0, b)

RECURSIVE Fold16(_)
Fold16(x) == IF x > 65535 THEN Fold16((x \div 65536) + (x % 65536)) ELSE x

\* the pseudo header as laid out in the documentation (its length is always even)
PseudoHeader(dstIA, srcIA, dst, src, len, proto) ==
    dstIA \o srcIA \o dst \o src \o U32Bytes(len) \o <<0, 0, 0, proto>>

\* unfolded one's-complement sum over pseudo header and upper-layer data (checksum field included)
CsumTotal(dstIA, srcIA, dst, src, proto, upper) ==
    WordSum(PseudoHeader(dstIA, srcIA, dst, src, Len(upper), proto)) + WordSum(upper)

Verifies(dstIA, srcIA, dst, src, proto, upper) == Fold16(CsumTotal(dstIA, srcIA, dst, src, proto, upper)) = 65535

\* contribution of the 32-bit length field to the sum
LenWords(l) == (l \div 65536) + (l % 65536)
=============================================================================
