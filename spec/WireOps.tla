----------------------------- MODULE WireOps -----------------------------
(* Pure operators of the SCION wire format family (C18 layout, C20 checksums, C21 authenticated
   fields): the single source of truth shared by the exhaustive models (WireCsum.tla, WireAuth.tla,
   Wire.tla) and the trace specifications (Wire*Trace.tla).  Byte strings are sequences of 0..255. *)
EXTENDS Integers, Sequences, SequencesExt

BitOf(b, k) == (b \div (2 ^ k)) % 2
FlipBit(b, k) == IF BitOf(b, k) = 1 THEN b - 2 ^ k ELSE b + 2 ^ k
FlipAt(s, i, k) == [s EXCEPT ![i] = FlipBit(@, k)]             \* i: 1-based byte index, k: bit 0 (lsb) .. 7
U16Bytes(n) == <<(n \div 256) % 256, n % 256>>
U32Bytes(n) == <<(n \div 16777216) % 256, (n \div 65536) % 256, (n \div 256) % 256, n % 256>>
U16At(s, i) == s[i] * 256 + s[i + 1]                           \* big-endian 16-bit word at 1-based index i
Zeros(n) == [i \in 1..n |-> 0]

-----------------------------------------------------------------------------
(* C20 -- upper-layer checksum (doc/protocols/scion-header.rst, "Pseudo Header for Upper-Layer
   Checksum"; RFC 1071 arithmetic).                                                              *)

\* sum of the 16-bit big-endian words of a byte string; an odd tail is padded with a zero on the right
\* (a fold with TLC's Java override: a recursive operator is ~100x slower on 9000-byte strings)
WordSum(b) == FoldLeftDomain(LAMBDA acc, i : acc + (IF i % 2 = 1 THEN 256 * b[i] ELSE b[i]), 0, b)

RECURSIVE Fold16(_)
Fold16(x) == IF x > 65535 THEN Fold16((x \div 65536) + (x % 65536)) ELSE x

\* the pseudo header as laid out in the documentation (its length is always even)
PseudoHeader(dstIA, srcIA, dst, src, len, proto) ==
    dstIA \o srcIA \o dst \o src \o U32Bytes(len) \o <<0, 0, 0, proto>>

\* unfolded one's-complement sum over pseudo header and upper-layer data (checksum field included)
CsumTotal(dstIA, srcIA, dst, src, proto, upper) ==
    WordSum(PseudoHeader(dstIA, srcIA, dst, src, Len(upper), proto)) + WordSum(upper)

Verifies(dstIA, srcIA, dst, src, proto, upper) == Fold16(CsumTotal(dstIA, srcIA, dst, src, proto, upper)) = 65535

\* contribution of the 32-bit length field to the sum
LenWords(l) == (l \div 65536) + (l % 65536)

-----------------------------------------------------------------------------
(* C21 -- SPAO authenticated data (doc/protocols/authenticator-option.rst, "Authenticated Data").

   Path kinds: "empty", "scion", "onehop", "epic".  SPI kinds: "nodrkey", "ashost-sender",
   "ashost-receiver", "hosthost-sender", "hosthost-receiver".  A path is its raw byte string; the
   segment lengths of a SCION path are read from its meta header.                                *)

\* --- path layout (doc/protocols/scion-header.rst): which field does bit `bit` (0 = lsb) of the byte at
\* 0-based offset `off` of the raw path belong to
SegLensOf(raw) == <<(raw[2] % 4) * 16 + raw[3] \div 16, (raw[3] % 16) * 4 + raw[4] \div 64, raw[4] % 64>>
NumInf(segs) == IF segs[3] > 0 THEN 3 ELSE IF segs[2] > 0 THEN 2 ELSE IF segs[1] > 0 THEN 1 ELSE 0
NumHops(segs) == segs[1] + segs[2] + segs[3]

InfoFieldAt(o, bit) ==      \* o: offset inside an 8-byte info field:  r r r r r r P C | RSV | SegID | Timestamp
    IF o = 0 THEN (IF bit >= 2 THEN "info-rsv" ELSE "info-flags")
    ELSE IF o = 1 THEN "info-rsv" ELSE IF o \in {2, 3} THEN "segid" ELSE "info-ts"
HopFieldAt(o, bit) ==       \* o: offset inside a 12-byte hop field:  r r r r r r I E | ExpTime | ConsIngress | ConsEgress | MAC
    IF o = 0 THEN (IF bit >= 2 THEN "hop-rsv" ELSE "alert") ELSE "hop-immutable"

ScionFieldAt(segs, off, bit) ==
    LET m == 8 * off + (7 - bit)         \* bit index from the msb of the 32-bit meta header
        ni == NumInf(segs)
        nh == NumHops(segs) IN
    IF off < 4 THEN (IF m < 2 THEN "currinf" ELSE IF m < 8 THEN "currhf" ELSE IF m < 14 THEN "meta-rsv" ELSE "seglen")
    ELSE IF off < 4 + 8 * ni THEN InfoFieldAt((off - 4) % 8, bit)
    ELSE IF off < 4 + 8 * ni + 12 * nh THEN HopFieldAt((off - 4 - 8 * ni) % 12, bit)
    ELSE "beyond"

PathFieldAt(pk, segs, off, bit) ==
    CASE pk = "scion" -> ScionFieldAt(segs, off, bit)
      [] pk = "epic" -> IF off < 16 THEN "epic-meta" ELSE ScionFieldAt(segs, off - 16, bit)
      [] pk = "onehop" -> IF off < 8 THEN InfoFieldAt(off, bit)
                          ELSE IF off < 20 THEN HopFieldAt(off - 8, bit)
                          ELSE IF off < 32 THEN "ohp-second-hop" ELSE "beyond"
      [] OTHER -> "beyond"

\* --- the classification table: "covered" (the authenticator must change), "excluded" (it must not),
\* "unspecified" (reserved bits, fields the documents do not classify: never judged)
PathClass(f) ==
    IF f \in {"currinf", "currhf", "segid", "alert", "ohp-second-hop"} THEN "excluded"
    ELSE IF f \in {"seglen", "info-flags", "info-ts", "hop-immutable", "epic-meta"} THEN "covered"
    ELSE "unspecified"

AuthClass(pk, segs, spi, field, off, bit) ==
    CASE field \in {"version", "flowid", "pathtype", "dt", "dl", "st", "sl", "l4type", "payload", "payloadsize",
                    "alg", "ts"} -> "covered"
      [] field = "tc" -> IF bit \in {0, 1} THEN "excluded" ELSE "covered"        \* ECN = the two low bits
      [] field \in {"nexthdr", "payloadlen"} -> "excluded"
      [] field \in {"dstia", "srcia"} -> IF spi = "nodrkey" THEN "covered" ELSE "excluded"
      [] field = "dsthost" -> IF spi \in {"nodrkey", "ashost-receiver"} THEN "covered" ELSE "excluded"
      [] field = "srchost" -> IF spi \in {"nodrkey", "ashost-sender"} THEN "covered" ELSE "excluded"
      [] field = "path" -> PathClass(PathFieldAt(pk, segs, off, bit))
      [] OTHER -> "unspecified"

\* --- the MAC input as the document constructs it (items 1..5).  p is a packet record
\* [ver, tc, flow, nh, plen, ptype, dt, dl, st, sl, dstia, srcia, dst, src, pk, path, l4, pld, alg, ts];
\* tcCode = TRUE: the traffic class is masked with 0x3f as pkg/spao/mac.go does, FALSE: "TC w/o ECN".
ClearLow2(b) == b - (b % 4)
ZeroScion(raw) ==
    LET segs == SegLensOf(raw)
        ni == NumInf(segs)
        nh == NumHops(segs) IN
    [i \in 1..Len(raw) |->
        LET o == i - 1 IN
        IF o = 0 THEN 0                                                           \* CurrINF, CurrHF
        ELSE IF o >= 4 /\ o < 4 + 8 * ni /\ (o - 4) % 8 \in {2, 3} THEN 0           \* SegID
        ELSE IF o >= 4 + 8 * ni /\ o < 4 + 8 * ni + 12 * nh /\ (o - 4 - 8 * ni) % 12 = 0
          THEN ClearLow2(raw[i])                                                  \* router alert flags
        ELSE raw[i]]
ZeroPath(pk, raw) ==
    CASE pk = "scion" -> ZeroScion(raw)
      [] pk = "epic" -> SubSeq(raw, 1, 16) \o ZeroScion(SubSeq(raw, 17, Len(raw)))
      [] pk = "onehop" -> [i \in 1..Len(raw) |->
                             IF i \in {3, 4} THEN 0                               \* SegID
                             ELSE IF i = 9 THEN ClearLow2(raw[i])                  \* first hop: alert flags
                             ELSE IF i >= 21 THEN 0 ELSE raw[i]]                   \* second hop field
      [] OTHER -> raw

AuthInput(p, spi, tcCode) ==
    LET hdrLen == (12 + 16 + Len(p.dst) + Len(p.src) + Len(p.path)) \div 4
        tcm == IF tcCode THEN p.tc % 64 ELSE ClearLow2(p.tc)
        meta == <<hdrLen % 256, p.l4>> \o U16Bytes(Len(p.pld)) \o <<p.alg, 0>> \o p.ts
        cmn == <<p.ver * 16 + tcm \div 16, (tcm % 16) * 16 + p.flow \div 65536, (p.flow \div 256) % 256, p.flow % 256,
                 p.ptype, p.dt * 64 + p.dl * 16 + p.st * 4 + p.sl, 0, 0>>
        ias == IF spi = "nodrkey" THEN p.dstia \o p.srcia ELSE <<>>
        dh == IF spi \in {"nodrkey", "ashost-receiver"} THEN p.dst ELSE <<>>
        sh == IF spi \in {"nodrkey", "ashost-sender"} THEN p.src ELSE <<>> IN
    meta \o cmn \o ias \o dh \o sh \o ZeroPath(p.pk, p.path) \o p.pld

-----------------------------------------------------------------------------
(* C18 -- header layouts as data (doc/protocols/scion-header.rst, extension-header.rst, scmp.rst).
   A layout is a sequence of items <<width, value, reserved>>: an integer field of `width` bits, or
   <<0, bytes, FALSE>> for a byte string.  Field values wider than 24 bits (ISD-AS, timestamps, MACs,
   interface ids ...) are byte strings because TLC integers are 32 bit.  Pack turns items into bytes,
   MaskOf into the byte mask of the non-reserved bits.

   Only the encoding direction is specified; decoding is its inverse: a decoder that returns field
   values d for bytes b is correct iff  Pack(Items(d)) = b  on the non-reserved bits.             *)
I(w, v) == <<w, v, FALSE>>
RSV(w) == <<w, 0, TRUE>>
B(bs) == <<0, bs, FALSE>>

BitsOfInt(w, v) == [i \in 1..w |-> (v \div (2 ^ (w - i))) % 2]

\* Packing keeps <<bytes so far, number of pending bits (< 8), value of the pending bits>>; integer items
\* are at most 24 bits wide, so the pending value stays below 2^31.  Byte strings are appended whole when
\* they start on a byte boundary (they always do in the documented layouts).
EmitInt(acc, w, v) ==
    LET nb == acc[2] + w
        pv == acc[3] * (2 ^ w) + v IN
    IF nb >= 24 THEN <<acc[1] \o <<pv \div (2 ^ (nb - 8)), (pv \div (2 ^ (nb - 16))) % 256, (pv \div (2 ^ (nb - 24))) % 256>>,
                       nb - 24, pv % (2 ^ (nb - 24))>>
    ELSE IF nb >= 16 THEN <<acc[1] \o <<pv \div (2 ^ (nb - 8)), (pv \div (2 ^ (nb - 16))) % 256>>, nb - 16, pv % (2 ^ (nb - 16))>>
    ELSE IF nb >= 8 THEN <<acc[1] \o <<pv \div (2 ^ (nb - 8))>>, nb - 8, pv % (2 ^ (nb - 8))>>
    ELSE <<acc[1], nb, pv>>
PackStep(acc, it) ==
    IF it[1] # 0 THEN EmitInt(acc, it[1], it[2])
    ELSE IF acc[2] = 0 THEN <<acc[1] \o it[2], 0, 0>>
    ELSE FoldLeft(LAMBDA a, x : EmitInt(a, 8, x), acc, it[2])
Pack(items) == FoldLeft(PackStep, <<<<>>, 0, 0>>, items)[1]
\* the byte mask of the non-reserved bits: pack all-ones into every non-reserved item, zeros into reserved ones
MaskOf(items) == Pack([k \in 1..Len(items) |->
                         IF items[k][1] = 0 THEN <<0, [i \in 1..Len(items[k][2]) |-> 255], FALSE>>
                         ELSE <<items[k][1], IF items[k][3] THEN 0 ELSE 2 ^ items[k][1] - 1, FALSE>>])
ItemsWidth(items) == FoldLeft(LAMBDA acc, it : acc + (IF it[1] = 0 THEN 8 * Len(it[2]) ELSE it[1]), 0, items)
\* value-range check: an integer item fits its width, a byte string has bytes
ItemsFit(items) == \A k \in 1..Len(items) :
                      IF items[k][1] = 0 THEN \A j \in 1..Len(items[k][2]) : items[k][2][j] \in 0..255
                      ELSE items[k][2] >= 0 /\ items[k][2] < 2 ^ items[k][1]

\* b AND mask, bytewise (mask bytes are runs of whole reserved bit groups; computed per bit)
AndByte(x, m) == LET bx == BitsOfInt(8, x)
                     bm == BitsOfInt(8, m) IN
                 bx[1] * bm[1] * 128 + bx[2] * bm[2] * 64 + bx[3] * bm[3] * 32 + bx[4] * bm[4] * 16
                 + bx[5] * bm[5] * 8 + bx[6] * bm[6] * 4 + bx[7] * bm[7] * 2 + bx[8] * bm[8]
Masked(b, mask) == [i \in 1..Len(b) |-> IF mask[i] = 255 THEN b[i] ELSE IF mask[i] = 0 THEN 0 ELSE AndByte(b[i], mask[i])]

Flatten(seqs) == FoldLeft(LAMBDA acc, x : acc \o x, <<>>, seqs)

\* --- SCION header: common header, address header, path
CmnItems(v) == <<I(4, v.version), I(8, v.tc), I(20, v.flowid), I(8, v.nexthdr), I(8, v.hdrlen), I(16, v.payloadlen),
                 I(8, v.pathtype), I(2, v.dt), I(2, v.dl), I(2, v.st), I(2, v.sl), RSV(16)>>
AddrItems(v) == <<B(v.dstia), B(v.srcia), B(v.dst), B(v.src)>>
InfoItems(f) == <<RSV(6), I(1, f.peer), I(1, f.consdir), RSV(8), I(16, f.segid), B(f.ts)>>
HopItems(h) == <<RSV(6), I(1, h.ialert), I(1, h.ealert), I(8, h.exptime), I(16, h.ingress), I(16, h.egress), B(h.mac)>>
ScionPathItems(p) ==
    <<I(2, p.currinf), I(6, p.currhf), RSV(6), I(6, p.seglen[1]), I(6, p.seglen[2]), I(6, p.seglen[3])>>
      \o Flatten([i \in 1..Len(p.infos) |-> InfoItems(p.infos[i])])
      \o Flatten([i \in 1..Len(p.hops) |-> HopItems(p.hops[i])])
PathItems(p) ==
    CASE p.kind = "empty" -> <<>>
      [] p.kind = "scion" -> ScionPathItems(p)
      [] p.kind = "epic" -> <<B(p.pktid), B(p.phvf), B(p.lhvf)>> \o ScionPathItems(p)
      [] p.kind = "onehop" -> InfoItems(p.infos[1]) \o HopItems(p.hops[1]) \o HopItems(p.hops[2])
PathTypeOf(kind) == CASE kind = "empty" -> 0 [] kind = "scion" -> 1 [] kind = "onehop" -> 2 [] kind = "epic" -> 3
ScionItems(v) == CmnItems(v) \o AddrItems(v) \o PathItems(v.path)

\* a well-formed SCION header value: declared type/lengths agree with the variable parts
ScionConsistent(v) ==
    /\ Len(v.dst) = 4 * (v.dl + 1) /\ Len(v.src) = 4 * (v.sl + 1) /\ Len(v.dstia) = 8 /\ Len(v.srcia) = 8
    /\ v.pathtype = PathTypeOf(v.path.kind)
    /\ v.path.kind \in {"scion", "epic"} =>
          /\ Len(v.path.infos) = NumInf(v.path.seglen) /\ Len(v.path.hops) = NumHops(v.path.seglen)
          /\ \A i \in 1..3 : (v.path.seglen[i] = 0 => \A j \in i..3 : v.path.seglen[j] = 0)
    /\ v.path.kind = "onehop" => Len(v.path.infos) = 1 /\ Len(v.path.hops) = 2

\* --- hop-by-hop / end-to-end extension: NextHdr, ExtLen, TLV options (type 0 = Pad1 has no length byte)
OptItems(o) == IF o.type = 0 THEN <<I(8, 0)>> ELSE <<I(8, o.type), I(8, Len(o.data)), B(o.data)>>
ExtItems(v) == <<I(8, v.nexthdr), I(8, v.extlen)>> \o Flatten([i \in 1..Len(v.opts) |-> OptItems(v.opts[i])])
NonPad(opts) == SelectSeq(opts, LAMBDA o : o.type \notin {0, 1})
OptLen(o) == IF o.type = 0 THEN 1 ELSE 2 + Len(o.data)
\* offset (from the start of the extension header) of option k
RECURSIVE OptOffset(_, _)
OptOffset(opts, k) == IF k = 1 THEN 2 ELSE OptOffset(opts, k - 1) + OptLen(opts[k - 1])

\* --- UDP and SCMP
UdpItems(v) == <<I(16, v.sport), I(16, v.dport), I(16, v.len), I(16, v.cksum)>>
ScmpBodyItems(t, v) ==
    CASE t = 1 -> <<RSV(16), RSV(16)>>
      [] t = 2 -> <<RSV(16), I(16, v.mtu)>>
      [] t = 4 -> <<RSV(16), I(16, v.pointer)>>
      [] t = 5 -> <<B(v.ia), B(v.ifid)>>
      [] t = 6 -> <<B(v.ia), B(v.ingress), B(v.egress)>>
      [] t \in {128, 129} -> <<I(16, v.id), I(16, v.seq)>>
      [] t \in {130, 131} -> <<I(16, v.id), I(16, v.seq), B(v.ia), B(v.ifid)>>
      [] OTHER -> <<>>
ScmpItems(v) == <<I(8, v.type), I(8, v.code), I(16, v.cksum)>> \o ScmpBodyItems(v.type, v)
ScmpBodyLen(t) == CASE t \in {1, 2, 4, 128, 129} -> 4 [] t = 5 -> 16 [] t = 6 -> 24 [] t \in {130, 131} -> 20 [] OTHER -> 0

Items(layer, v) == CASE layer = "scion" -> ScionItems(v)
                     [] layer \in {"hbh", "e2e"} -> ExtItems(v)
                     [] layer = "udp" -> UdpItems(v)
                     [] layer = "scmp" -> ScmpItems(v)

\* --- "the declared lengths exceed the data": computed from the raw bytes alone, independently of Items
RECURSIVE TlvExceeds(_, _, _)
TlvExceeds(b, off, end) ==         \* off: 1-based index of the next option, end: last index of the extension
    IF off > end THEN FALSE
    ELSE IF b[off] = 0 THEN TlvExceeds(b, off + 1, end)
    ELSE IF off + 1 > end THEN TRUE
    ELSE IF off + 1 + b[off + 1] > end THEN TRUE
    ELSE TlvExceeds(b, off + 2 + b[off + 1], end)

ScionPathNeed(b, o, ptype, avail) ==   \* o: 0-based offset of the path, avail: bytes HdrLen leaves for it
    CASE ptype = 1 -> IF avail < 4 THEN 4
                      ELSE LET segs == SegLensOf(SubSeq(b, o + 1, o + 4)) IN 4 + 8 * NumInf(segs) + 12 * NumHops(segs)
      [] ptype = 3 -> IF avail < 20 THEN 20
                      ELSE LET segs == SegLensOf(SubSeq(b, o + 17, o + 20)) IN 20 + 8 * NumInf(segs) + 12 * NumHops(segs)
      [] ptype = 2 -> 32
      [] OTHER -> 0

LenExceeds(layer, b) ==
    CASE layer = "scion" ->
           IF Len(b) < 12 THEN TRUE
           ELSE LET al == 16 + 4 * (((b[10] \div 16) % 4) + 1) + 4 * ((b[10] % 4) + 1)
                    hb == 4 * b[6] IN
                IF Len(b) < 12 + al THEN TRUE
                ELSE IF hb < 12 + al THEN FALSE          \* inconsistent, but nothing exceeds the data
                ELSE IF Len(b) < hb THEN TRUE
                ELSE ScionPathNeed(b, 12 + al, b[9], hb - 12 - al) > hb - 12 - al
      [] layer \in {"hbh", "e2e"} ->
           IF Len(b) < 2 THEN TRUE
           ELSE IF 4 * (b[2] + 1) > Len(b) THEN TRUE
           ELSE TlvExceeds(b, 3, 4 * (b[2] + 1))
      [] layer = "udp" -> Len(b) < 8 \/ (U16At(b, 5) > Len(b))
      [] layer = "scmp" -> Len(b) < 4 \/ Len(b) < 4 + ScmpBodyLen(b[1])

\* the number of bytes the header of this layer declares for itself
DeclaredLen(layer, v) ==
    CASE layer = "scion" -> 4 * v.hdrlen
      [] layer \in {"hbh", "e2e"} -> 4 * (v.extlen + 1)
      [] layer = "udp" -> 8
      [] layer = "scmp" -> 4 + ScmpBodyLen(v.type)
=============================================================================
