----------------------------- MODULE WireOps -----------------------------
(* Pure operators of the SCION wire format family (C18 layout, C20 checksums, C21 authenticated
   fields): the single source of truth shared by the exhaustive models (WireCsum.tla, WireAuth.tla,
   Wire.tla) and the trace specifications (Wire*Trace.tla).  Byte strings are sequences of 0..255. *)
EXTENDS Integers, Sequences, SequencesExt

BitOf(b, k) == (b \div (2 ^ k)) % 2
FlipBit(b, k) == IF BitOf(b, k) = 1 THEN b - 2 ^ k ELSE b + 2 ^ k
FlipAt(s, i, k) == [s EXCEPT ![i] = FlipBit(@, k)]             \* i: 1-based byte index, k: bit 0 (lsb) .. 7
U16Bytes(n) == <<(n \div 256) % 256, n % 256>>
U32Bytes(n) == <<(n \div 16777216) % 256, (n \div 65536) % 256, (n \div 256) % 256, n % 256>>
U16At(s, i) == s[i] * 256 + s[i + 1]                           \* big-endian 16-bit word at 1-based index i
Zeros(n) == [i \in 1..n |-> 0]

-----------------------------------------------------------------------------
(* C20 -- upper-layer checksum (doc/protocols/scion-header.rst, "Pseudo Header for Upper-Layer
   Checksum"; RFC 1071 arithmetic).                                                              *)

\* sum of the 16-bit big-endian words of a byte string; an odd tail is padded with a zero on the right
\* (a fold with TLC's Java override: a recursive operator is ~100x slower on 9000-byte strings)
WordSum(b) == FoldLeftDomain(LAMBDA acc, i : acc + (IF i % 2 = 1 THEN 256 * b[i] ELSE b[i]), 0, b)

RECURSIVE Fold16(_)
Fold16(x) == IF x > 65535 THEN Fold16((x \div 65536) + (x % 65536)) ELSE x

\* the pseudo header as laid out in the documentation (its length is always even)
PseudoHeader(dstIA, srcIA, dst, src, len, proto) ==
    dstIA \o srcIA \o dst \o src \o U32Bytes(len) \o <<0, 0, 0, proto>>

\* unfolded one's-complement sum over pseudo header and upper-layer data (checksum field included)
CsumTotal(dstIA, srcIA, dst, src, proto, upper) ==
    WordSum(PseudoHeader(dstIA, srcIA, dst, src, Len(upper), proto)) + WordSum(upper)

Verifies(dstIA, srcIA, dst, src, proto, upper) == Fold16(CsumTotal(dstIA, srcIA, dst, src, proto, upper)) = 65535

\* contribution of the 32-bit length field to the sum
LenWords(l) == (l \div 65536) + (l % 65536)

-----------------------------------------------------------------------------
(* C21 -- SPAO authenticated data (doc/protocols/authenticator-option.rst, "Authenticated Data").

   Path kinds: "empty", "scion", "onehop", "epic".  SPI kinds: "nodrkey", "ashost-sender",
   "ashost-receiver", "hosthost-sender", "hosthost-receiver".  A path is its raw byte string; the
   segment lengths of a SCION path are read from its meta header.                                *)

\* --- path layout (doc/protocols/scion-header.rst): which field does bit `bit` (0 = lsb) of the byte at
\* 0-based offset `off` of the raw path belong to
SegLensOf(raw) == <<(raw[2] % 4) * 16 + raw[3] \div 16, (raw[3] % 16) * 4 + raw[4] \div 64, raw[4] % 64>>
NumInf(segs) == IF segs[3] > 0 THEN 3 ELSE IF segs[2] > 0 THEN 2 ELSE IF segs[1] > 0 THEN 1 ELSE 0
NumHops(segs) == segs[1] + segs[2] + segs[3]

InfoFieldAt(o, bit) ==      \* o: offset inside an 8-byte info field:  r r r r r r P C | RSV | SegID | Timestamp
    IF o = 0 THEN (IF bit >= 2 THEN "info-rsv" ELSE "info-flags")
    ELSE IF o = 1 THEN "info-rsv" ELSE IF o \in {2, 3} THEN "segid" ELSE "info-ts"
HopFieldAt(o, bit) ==       \* o: offset inside a 12-byte hop field:  r r r r r r I E | ExpTime | ConsIngress | ConsEgress | MAC
    IF o = 0 THEN (IF bit >= 2 THEN "hop-rsv" ELSE "alert") ELSE "hop-immutable"

ScionFieldAt(segs, off, bit) ==
    LET m == 8 * off + (7 - bit)         \* bit index from the msb of the 32-bit meta header
        ni == NumInf(segs)
        nh == NumHops(segs) IN
    IF off < 4 THEN (IF m < 2 THEN "currinf" ELSE IF m < 8 THEN "currhf" ELSE IF m < 14 THEN "meta-rsv" ELSE "seglen")
    ELSE IF off < 4 + 8 * ni THEN InfoFieldAt((off - 4) % 8, bit)
    ELSE IF off < 4 + 8 * ni + 12 * nh THEN HopFieldAt((off - 4 - 8 * ni) % 12, bit)
    ELSE "beyond"

PathFieldAt(pk, segs, off, bit) ==
    CASE pk = "scion" -> ScionFieldAt(segs, off, bit)
      [] pk = "epic" -> IF off < 16 THEN "epic-meta" ELSE ScionFieldAt(segs, off - 16, bit)
      [] pk = "onehop" -> IF off < 8 THEN InfoFieldAt(off, bit)
                          ELSE IF off < 20 THEN HopFieldAt(off - 8, bit)
                          ELSE IF off < 32 THEN "ohp-second-hop" ELSE "beyond"
      [] OTHER -> "beyond"

\* --- the classification table: "covered" (the authenticator must change), "excluded" (it must not),
\* "unspecified" (reserved bits, fields the documents do not classify: never judged)
PathClass(f) ==
    IF f \in {"currinf", "currhf", "segid", "alert", "ohp-second-hop"} THEN "excluded"
    ELSE IF f \in {"seglen", "info-flags", "info-ts", "hop-immutable", "epic-meta"} THEN "covered"
    ELSE "unspecified"

AuthClass(pk, segs, spi, field, off, bit) ==
    CASE field \in {"version", "flowid", "pathtype", "dt", "dl", "st", "sl", "l4type", "payload", "payloadsize",
                    "alg", "ts"} -> "covered"
      [] field = "tc" -> IF bit \in {0, 1} THEN "excluded" ELSE "covered"        \* ECN = the two low bits
      [] field \in {"nexthdr", "payloadlen"} -> "excluded"
      [] field \in {"dstia", "srcia"} -> IF spi = "nodrkey" THEN "covered" ELSE "excluded"
      [] field = "dsthost" -> IF spi \in {"nodrkey", "ashost-receiver"} THEN "covered" ELSE "excluded"
      [] field = "srchost" -> IF spi \in {"nodrkey", "ashost-sender"} THEN "covered" ELSE "excluded"
      [] field = "path" -> PathClass(PathFieldAt(pk, segs, off, bit))
      [] OTHER -> "unspecified"

\* --- the MAC input as the document constructs it (items 1..5).  p is a packet record
\* [ver, tc, flow, nh, plen, ptype, dt, dl, st, sl, dstia, srcia, dst, src, pk, path, l4, pld, alg, ts];
\* tcCode = TRUE: the traffic class is masked with 0x3f as pkg/spao/mac.go does, FALSE: "TC w/o ECN".
ClearLow2(b) == b - (b % 4)
ZeroScion(raw) ==
    LET segs == SegLensOf(raw)
        ni == NumInf(segs)
        nh == NumHops(segs) IN
    [i \in 1..Len(raw) |->
        LET o == i - 1 IN
        IF o = 0 THEN 0                                                           \* CurrINF, CurrHF
        ELSE IF o >= 4 /\ o < 4 + 8 * ni /\ (o - 4) % 8 \in {2, 3} THEN 0           \* SegID
        ELSE IF o >= 4 + 8 * ni /\ o < 4 + 8 * ni + 12 * nh /\ (o - 4 - 8 * ni) % 12 = 0
          THEN ClearLow2(raw[i])                                                  \* router alert flags
        ELSE raw[i]]
ZeroPath(pk, raw) ==
    CASE pk = "scion" -> ZeroScion(raw)
      [] pk = "epic" -> SubSeq(raw, 1, 16) \o ZeroScion(SubSeq(raw, 17, Len(raw)))
      [] pk = "onehop" -> [i \in 1..Len(raw) |->
                             IF i \in {3, 4} THEN 0                               \* SegID
                             ELSE IF i = 9 THEN ClearLow2(raw[i])                  \* first hop: alert flags
                             ELSE IF i >= 21 THEN 0 ELSE raw[i]]                   \* second hop field
      [] OTHER -> raw

AuthInput(p, spi, tcCode) ==
    LET hdrLen == (12 + 16 + Len(p.dst) + Len(p.src) + Len(p.path)) \div 4
        tcm == IF tcCode THEN p.tc % 64 ELSE ClearLow2(p.tc)
        meta == <<hdrLen % 256, p.l4>> \o U16Bytes(Len(p.pld)) \o <<p.alg, 0>> \o p.ts
        cmn == <<p.ver * 16 + tcm \div 16, (tcm % 16) * 16 + p.flow \div 65536, (p.flow \div 256) % 256, p.flow % 256,
                 p.ptype, p.dt * 64 + p.dl * 16 + p.st * 4 + p.sl, 0, 0>>
        ias == IF spi = "nodrkey" THEN p.dstia \o p.srcia ELSE <<>>
        dh == IF spi \in {"nodrkey", "ashost-receiver"} THEN p.dst ELSE <<>>
        sh == IF spi \in {"nodrkey", "ashost-sender"} THEN p.src ELSE <<>> IN
    meta \o cmn \o ias \o dh \o sh \o ZeroPath(p.pk, p.path) \o p.pld
=============================================================================
