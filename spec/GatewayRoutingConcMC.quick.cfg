INIT Init
NEXT Next
CONSTANTS
  W = 6
  Tables <- ConcTables
  Readers = {1, 2}
  MaxOps = 2
  Pkts <- ConcPkts
INVARIANTS Linearizable NoStaleObject
CHECK_DEADLOCK FALSE
