SPECIFICATION Spec
CONSTANTS
  Kind = "b"
  MaxOps = 3
  Gen = TRUE
  Tx = FALSE
  Alphabet = "large"
INVARIANTS IsMap QuerySound CandidatesSound NQUnique
PROPERTIES StepProps
CHECK_DEADLOCK FALSE
