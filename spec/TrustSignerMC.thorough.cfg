SPECIFICATION Spec
CONSTANTS
  MaxChains = 3
  Expiries = {2, 3, 4}
  KeyRings = {{1, 2}, {1}}
  GraceBoundByLatest = TRUE
INVARIANTS Sound Emit
CHECK_DEADLOCK FALSE
