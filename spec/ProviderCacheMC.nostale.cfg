SPECIFICATION Spec
CONSTANTS
  MaxAge = 2
  Grace = 1
  MaxTime = 6
INVARIANTS NoStale
CHECK_DEADLOCK FALSE
