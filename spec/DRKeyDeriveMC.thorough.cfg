SPECIFICATION Spec
CONSTANTS
  AllowGenericL2 = FALSE
  Cells = {0, 1, 3}
  D = 12
  W = 30
  G = 2
INVARIANTS Separated HostHostSeparated SelectedIsValid SelectedIfAny
CHECK_DEADLOCK FALSE
