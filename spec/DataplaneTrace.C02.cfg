SPECIFICATION Spec
CONSTANT Prop = "C02"
CHECK_DEADLOCK FALSE
