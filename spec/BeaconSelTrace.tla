--------------------------- MODULE BeaconSelTrace ---------------------------
(* Table specification for C26: every line of trace.ndjson is one call of the real SelectBeacons
   recorded by harness/cmd/beaconsel: candidates c (sequence of link sequences, ordered by length,
   links are abstract integers), k, whether the call panicked, and the returned candidates as
   1-based indices into c (0 = not one of the candidates).  via = "direct", or the Store / CoreStore
   wrapper (BeaconsToPropagate, SegmentsToRegister) through which the algorithm was reached: then c is
   the candidate list the fake beacon DB holds for that wrapper's usage (and source) and k the
   BestSetSize of that wrapper's policy - every policy has a different one.

   Monitor: the returned sequence is one of BeaconSelOps!Select(c, k); a panic is a violation.  Which
   of several equally diverse, equally long remaining candidates is taken is VERIF-DRIFT only.  *)
EXTENDS BeaconSelOps, TLC, Json

Trace == ndJsonDeserialize("trace.ndjson")
VARIABLE l
vars == <<l>>
R == Trace[l]

\* cases reached through a store wrapper carry its name in the key
Chk(ok, key) == IF ok THEN TRUE
                ELSE PrintT(<<"VERIF-BAD", l, (IF R.ev = "sel" /\ R.via # "direct" THEN R.via \o ":" ELSE "") \o key>>)
Drift(ok, key) == IF ok THEN TRUE ELSE PrintT(<<"VERIF-DRIFT", l, key>>)

\* abstract class of a case for the key
Class(c, k) == IF Len(c) <= k THEN "n<=k"
               ELSE (IF k = 1 THEN "k=1<n" ELSE "1<k<n") \o
                    (IF MostDiverseRest(c, k).div > BestServed(c, k) THEN ",more-diverse-rest" ELSE ",no-more-diverse-rest")

Sel == LET c == R.c
           k == R.k
           allowed == Select(c, k)
       IN IF R.panic THEN Chk(FALSE, "panic:" \o Class(c, k))
          ELSE IF R.res \notin allowed
            THEN Chk(FALSE, (IF Len(R.res) # (IF Len(c) <= k THEN Len(c) ELSE k) THEN "size:"
                             ELSE IF \E i \in 1..Len(R.res) : R.res[i] = 0 THEN "not-a-candidate:"
                             ELSE IF \E i \in 1..(Len(R.res) - 1) : R.res[i] # i THEN "prefix:"
                             ELSE "last:") \o Class(c, k))
          ELSE Drift(R.res = SelectFirst(c, k), "tie-break:" \o Class(c, k))

Init == l = 1
Step == /\ l <= Len(Trace)
        /\ l' = l + 1
        /\ CASE R.ev = "sel" -> Sel
             [] OTHER -> Chk(FALSE, "no-spec-action:" \o R.ev)
Done == /\ l = Len(Trace) + 1
        /\ PrintT(<<"VERIF-DONE", Len(Trace)>>)
        /\ UNCHANGED vars
Next == Step \/ Done
Spec == Init /\ [][Next]_vars
=============================================================================
