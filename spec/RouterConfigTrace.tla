-------------------------- MODULE RouterConfigTrace --------------------------
(* Trace specification for C17.  A trace is one router built by the driver through the production
   constructor (router.NewConnector) and either the production configuration path
   (control.LoadConfig + ConfigDataplane) or the same Connector calls in another order:

     reset    rcv snd batch how order reuse other ok     the router configuration of this trace
     open     kind rcv snd        one ConnOpener.Open: link kind and the conn.Config it was given
     factory  batch rcv snd       one call of a provider factory registered with router.AddUnderlay
                                  (signature NewProviderFn(batchSize, receiveBufferSize, sendBufferSize))
     sock     kind rcv snd        (real-socket traces: the router was built WITHOUT a test opener, conn.New
                                  opened loopback UDP sockets) SO_RCVBUF / SO_SNDBUF read back from the kernel;
                                  the reset record carries the system maxima rmax / wmax
     builderr err                 configuration failed (drift: no property statement about it)

   Monitor: every open and every factory call carries (receive, send) exactly as configured.
   Each bad event prints its own key.                                                          *)
EXTENDS RouterConfigOps, TLC, Json

Trace == ndJsonDeserialize("trace.ndjson")

VARIABLES cfg, l, nopen
vars == <<cfg, l, nopen>>
R == Trace[l]

Init == cfg = [rcv |-> 0, snd |-> 0, batch |-> 0, rmax |-> 0, wmax |-> 0] /\ l = 1 /\ nopen = 0

Bad(key) == PrintT(<<"VERIF-BAD", l, key>>)
Drift(key) == PrintT(<<"VERIF-DRIFT", l, key>>)

Step == /\ l <= Len(Trace)
        /\ l' = l + 1
        /\ CASE R.ev = "reset" -> cfg' = [rcv |-> R.rcv, snd |-> R.snd, batch |-> R.batch, rmax |-> R.rmax, wmax |-> R.wmax]
                                   /\ UNCHANGED nopen
             [] R.ev = "open" ->
                  /\ UNCHANGED cfg /\ nopen' = nopen + 1
                  /\ IF ConnOK(cfg, [rcv |-> R.rcv, snd |-> R.snd]) THEN TRUE
                     ELSE Bad("open:" \o R.kind \o ":" \o ConnWhy(cfg, [rcv |-> R.rcv, snd |-> R.snd]))
             [] R.ev = "sock" ->
                  /\ UNCHANGED cfg /\ nopen' = nopen + 1
                  /\ IF R.kind = "unknown" THEN Bad("sock:unidentified-socket")
                     ELSE IF SockOK(cfg.rcv, R.rcv, cfg.rmax) /\ SockOK(cfg.snd, R.snd, cfg.wmax) THEN TRUE
                     ELSE Bad("sock:" \o R.kind \o ":" \o SockWhy(cfg, [rcv |-> R.rcv, snd |-> R.snd], cfg.rmax, cfg.wmax))
             [] R.ev = "factory" ->
                  /\ UNCHANGED <<cfg, nopen>>
                  /\ IF ~ConnOK(cfg, [rcv |-> R.rcv, snd |-> R.snd])
                       THEN Bad("factory:" \o ConnWhy(cfg, [rcv |-> R.rcv, snd |-> R.snd]))
                     ELSE IF R.batch # cfg.batch THEN Drift("factory:batch-size") ELSE TRUE
             [] R.ev = "builderr" -> UNCHANGED <<cfg, nopen>> /\ Drift("configuration-failed")
             [] OTHER -> UNCHANGED <<cfg, nopen>> /\ Bad("no-spec-action:" \o R.ev)

Done == /\ l = Len(Trace) + 1
        /\ PrintT(<<"VERIF-STAT", "opens", nopen>>)
        /\ PrintT(<<"VERIF-DONE", Len(Trace)>>)
        /\ UNCHANGED vars

Next == Step \/ Done
Spec == Init /\ [][Next]_vars
=============================================================================
