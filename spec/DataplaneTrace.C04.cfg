SPECIFICATION Spec
CONSTANT Prop = "C04"
CHECK_DEADLOCK FALSE
