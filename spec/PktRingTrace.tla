---------------------------- MODULE PktRingTrace ----------------------------
(* Trace specification for the gateway's pktRing (gateway/dataplane/pktring.go): a single reader that
   takes entries from a ring buffer in batches and hands them out one by one, many writers that write
   one packet per call.  Part of C48: the pktRing must still be the bounded FIFO of RingBufOps.

   Events: the inner ring's linearization points recorded by the ringbuf verif hook (rwrite, rread,
   rwaitw, rwaitr, close) merged with what the callers observed (`ret` of Write, and `pread` = what
   pktRing.Read returned to the reader).                                                        *)
EXTENDS RingBufOps, TLC, Json

Trace == ndJsonDeserialize("trace.ndjson")

VARIABLES q,        \* contents of the inner ring
          buf,      \* the reader's batch buffer (entries taken from the ring, not yet handed out)
          cap, batch, closed,
          lastRing, \* result of the reader's last ring read not yet consumed by a pread (99 = none)
          failed, l
vars == <<q, buf, cap, batch, closed, lastRing, failed, l>>
R == Trace[l]
None == 99

Init == q = <<>> /\ buf = <<>> /\ cap = 1 /\ batch = 1 /\ closed = FALSE /\ lastRing = None
        /\ failed = FALSE /\ l = 1

Bad(key) == /\ PrintT(<<"VERIF-BAD", l, "pktring:" \o key>>)
            /\ failed' = TRUE
            /\ UNCHANGED <<q, buf, cap, batch, closed, lastRing>>

Take(s, n) == SubSeq(s, 1, n)
Drop(s, n) == SubSeq(s, n + 1, Len(s))

Reset == /\ q' = <<>> /\ buf' = <<>> /\ cap' = R.cap /\ batch' = R.batch /\ closed' = FALSE
         /\ lastRing' = None /\ failed' = FALSE

RWrite ==
    LET o == WriteOutcome(Len(q), cap, closed, 1, R.block) IN
    IF o.kind = "wait" THEN Bad("write:returned-instead-of-blocking")
    ELSE IF R.hret # o.n THEN Bad("write:ret=" \o ToString(R.hret) \o ",want=" \o ToString(o.n))
    ELSE IF R.ret # R.hret THEN Bad("write:returned-value-differs-from-committed")
    ELSE /\ q' = IF o.n = 1 THEN Append(q, R.pkt) ELSE q
         /\ UNCHANGED <<buf, cap, batch, closed, lastRing, failed>>

RRead ==
    LET o == ReadOutcome(Len(q), cap, closed, R.len, R.block) IN
    IF buf # <<>> THEN Bad("read:ring-read-while-batch-not-empty")
    ELSE IF R.len # batch THEN Bad("read:batch-size")
    ELSE IF o.kind = "wait" THEN Bad("read:returned-instead-of-blocking")
    ELSE IF R.hret # o.n THEN Bad("read:ret=" \o ToString(R.hret) \o ",want=" \o ToString(o.n))
    ELSE IF o.n > 0 /\ R.vals # Take(q, o.n) THEN Bad("read:values-not-fifo")
    ELSE /\ buf' = IF o.n > 0 THEN Take(q, o.n) ELSE <<>>
         /\ q' = IF o.n > 0 THEN Drop(q, o.n) ELSE q
         /\ lastRing' = o.n
         /\ UNCHANGED <<cap, batch, closed, failed>>

Wait(kind) ==
    LET o == IF kind = "w" THEN WriteOutcome(Len(q), cap, closed, 1, TRUE)
                           ELSE ReadOutcome(Len(q), cap, closed, batch, TRUE) IN
    IF o.kind # "wait" THEN Bad("wait" \o kind \o ":caller-sleeps-although-runnable")
    ELSE UNCHANGED <<q, buf, cap, batch, closed, lastRing, failed>>

\* what pktRing.Read handed to the single reader
PRead ==
    IF R.ret = 1 THEN
        IF buf = <<>> THEN Bad("pread:packet-from-empty-batch")
        ELSE IF R.pkt # Head(buf) THEN Bad("pread:not-fifo")
        ELSE buf' = Tail(buf) /\ lastRing' = None /\ UNCHANGED <<q, cap, batch, closed, failed>>
    ELSE IF buf # <<>> THEN Bad("pread:ret=" \o ToString(R.ret) \o "-while-batch-holds-packets")
    ELSE IF lastRing # R.ret THEN Bad("pread:ret=" \o ToString(R.ret) \o "-but-ring-said-" \o ToString(lastRing))
    ELSE lastRing' = None /\ UNCHANGED <<q, buf, cap, batch, closed, failed>>

Close == closed' = TRUE /\ UNCHANGED <<q, buf, cap, batch, lastRing, failed>>

\* end of a trace: reader saw -1; nothing may be left anywhere (no packet lost)
End == IF q # <<>> \/ buf # <<>> THEN Bad("end:packets-left-behind")
       ELSE UNCHANGED <<q, buf, cap, batch, closed, lastRing, failed>>

Step == /\ l <= Len(Trace)
        /\ l' = l + 1
        /\ IF R.ev = "reset" THEN Reset
           ELSE IF failed THEN UNCHANGED <<q, buf, cap, batch, closed, lastRing, failed>>
           ELSE CASE R.ev = "rwrite" -> RWrite
                  [] R.ev = "rread" -> RRead
                  [] R.ev = "waitw" -> Wait("w")
                  [] R.ev = "waitr" -> Wait("r")
                  [] R.ev = "close" -> Close
                  [] R.ev = "pread" -> PRead
                  [] R.ev = "end" -> End
                  [] OTHER -> Bad("no-spec-action:" \o R.ev)

Done == /\ l = Len(Trace) + 1
        /\ PrintT(<<"VERIF-DONE", Len(Trace)>>)
        /\ UNCHANGED vars

Next == Step \/ Done
Spec == Init /\ [][Next]_vars
=============================================================================
