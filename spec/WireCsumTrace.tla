-------------------------- MODULE WireCsumTrace --------------------------
(* Trace specification for C20.  Every line is one independent case recorded from the real
   slayers.UDP / slayers.SCMP serialization with ComputeChecksums:

     csum  the address-header fields (dstIA, srcIA, dst, src as bytes), the protocol number and the
           upper-layer bytes the real code produced (checksum at byte offset `ckoff`), plus
           flips = <<region, offset, bit, newck>> : the checksum the real code writes when the same
                   packet is serialized again with that single bit of the covered data flipped
                   (region 0 dstIA, 1 srcIA, 2 dst, 3 src, 4 upper layer),
           lens  = <<newlen, newck>> : the checksum the real code writes when only the upper-layer
                   length changes (the data is extended with / truncated by zero bytes).

   Monitor: TLC recomputes the one's-complement sum over the documented pseudo header and the logged
   bytes -- it must fold to 0xFFFF; for every flip the re-written checksum must differ from the
   original one (the corruption changes the sum the receiver computes) and must again make the
   flipped packet sum to 0xFFFF.                                                                 *)
EXTENDS WireOps, TLC, Json

Trace == ndJsonDeserialize("trace.ndjson")
VARIABLE l
vars == <<l>>
R == Trace[l]

Bad(key) == PrintT(<<"VERIF-BAD", l, key>>)

RegionName(r) == CASE r = 0 -> "dstIA" [] r = 1 -> "srcIA" [] r = 2 -> "dstHost" [] r = 3 -> "srcHost" [] OTHER -> "upper"
RegionBytes(r) == CASE r = 0 -> R.dstIA [] r = 1 -> R.srcIA [] r = 2 -> R.dst [] r = 3 -> R.src [] OTHER -> R.upper

Shape == R.kind \o ":" \o (IF Len(R.upper) % 2 = 1 THEN "odd" ELSE "even") \o
         ":dst" \o ToString(Len(R.dst)) \o ":src" \o ToString(Len(R.src))

\* where in the upper layer: the odd last byte is the classic blind spot
UpperPos(off) == IF off = Len(R.upper) - 1 /\ Len(R.upper) % 2 = 1 THEN "odd-last-byte"
                 ELSE IF off < R.ckoff + 2 THEN "l4-header" ELSE "data"

CsumCheck ==
    LET S == CsumTotal(R.dstIA, R.srcIA, R.dst, R.src, R.proto, R.upper)
        ck == U16At(R.upper, R.ckoff + 1)
        S0 == S - ck
        L == Len(R.upper) IN
    IF Fold16(S) # 65535 THEN Bad("sum-not-ffff:" \o Shape)
    ELSE
      /\ \A j \in 1..Len(R.flips) :
           LET f == R.flips[j]
               bytes == RegionBytes(f[1])
               w == (IF f[2] % 2 = 0 THEN 256 ELSE 1) * (2 ^ f[3])
               delta == IF BitOf(bytes[f[2] + 1], f[3]) = 1 THEN 0 - w ELSE w
               where == RegionName(f[1]) \o (IF f[1] = 4 THEN ":" \o UpperPos(f[2]) ELSE "") IN
           IF f[1] = 4 /\ f[2] \in {R.ckoff, R.ckoff + 1} THEN TRUE
           ELSE IF f[4] = ck THEN Bad("flip-undetected:" \o R.kind \o ":" \o where)
           ELSE IF Fold16(S0 + delta + f[4]) # 65535 THEN Bad("flip-sum-not-ffff:" \o R.kind \o ":" \o where)
           ELSE TRUE
      /\ \A j \in 1..Len(R.lens) :
           LET nl == R.lens[j][1]
               nck == R.lens[j][2]
               delta == LenWords(nl) - LenWords(L) IN
           IF nl = L \/ nl < R.ckoff + 2 \/ (nl < L /\ \E i \in (nl + 1)..L : R.upper[i] # 0) THEN TRUE
           ELSE IF nck = ck THEN Bad("flip-undetected:" \o R.kind \o ":length")
           ELSE IF Fold16(S0 + delta + nck) # 65535 THEN Bad("flip-sum-not-ffff:" \o R.kind \o ":length")
           ELSE TRUE

Init == l = 1
Step == /\ l <= Len(Trace)
        /\ l' = l + 1
        /\ CASE R.ev = "csum" -> CsumCheck
             [] R.ev = "reset" -> TRUE
             [] R.ev = "panic" -> Bad("panic:" \o R.kind)
             [] R.ev = "error" -> Bad("serialize-error:" \o R.kind)
             [] OTHER -> Bad("no-spec-action:" \o R.ev)
Done == /\ l = Len(Trace) + 1
        /\ PrintT(<<"VERIF-DONE", Len(Trace)>>)
        /\ UNCHANGED vars
Next == Step \/ Done
Spec == Init /\ [][Next]_vars
=============================================================================
