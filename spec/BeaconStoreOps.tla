-------------------------- MODULE BeaconStoreOps --------------------------
(* C25: which received beacons are stored (and with which usages) and over which interfaces stored
   beacons are propagated.  Pure operators shared by BeaconStore.tla (exhaustive) and
   BeaconStoreTrace.tla (trace validation of control/beaconing.Handler + control/beacon.Store /
   CoreStore on the real sqlite beacon DB, and control/beaconing.Propagator).

   ISD-AS: n = isd * 10 + as.  A beacon is
     [hops : Seq(ia)      the Local ISD-AS of its AS entries,
      next : ia           Next of its last AS entry,
      bad  : SUBSET Nat   indices of AS entries whose signature does not verify]
   A policy filter is [max : Nat, asBlack : SUBSET as, isdBlack : SUBSET isd, isdLoop : BOOLEAN].
   Link types: 0 unset, 1 core, 2 parent, 3 child, 4 peer.  Usage bits: 1 up, 2 down, 4 core, 8 prop. *)
EXTENDS Integers, Sequences, FiniteSets

Isd(ia) == ia \div 10
As(ia) == ia % 10
Last(s) == s[Len(s)]

AsLoop(hops) == \E i, j \in 1..Len(hops) : i < j /\ hops[i] = hops[j]
\* an ISD is entered again after it has been left
IsdLoop(hops) == \E i, j, k \in 1..Len(hops) :
                    i < j /\ j < k /\ Isd(hops[i]) = Isd(hops[k]) /\ Isd(hops[j]) # Isd(hops[i])
Loop(hops, isdLoopAllowed) == AsLoop(hops) \/ (~isdLoopAllowed /\ IsdLoop(hops))

\* Filter.Apply = nil
FilterAccepts(f, hops) ==
    /\ Len(hops) <= f.max
    /\ ~Loop(hops, f.isdLoop)
    /\ \A i \in 1..Len(hops) : As(hops[i]) \notin f.asBlack /\ Isd(hops[i]) \notin f.isdBlack

\* policies : [usage bit -> filter] (non-core: bits 1, 2, 8; core: bits 4, 8)
AcceptingUsages(policies, hops) == {u \in DOMAIN policies : FilterAccepts(policies[u], hops)}

\* interfaces: set of [id, nbr, lt]
Intf(ifs, id) == {x \in ifs : x.id = id}

\* the beacon may be stored (every only-if clause of the statement)
MayStore(local, ifs, policies, b, inIf) ==
    /\ \E x \in Intf(ifs, inIf) : x.lt \in {1, 2} /\ Last(b.hops) = x.nbr
    /\ b.next = local
    /\ b.bad = {}
    /\ AcceptingUsages(policies, b.hops) # {}

\* the code's pipeline (order of checks in Handler.HandleBeacon / baseStore.InsertBeacon); the result is
\* "stored" or the name of the check that drops the beacon
Pipeline(local, ifs, policies, b, inIf) ==
    IF Intf(ifs, inIf) = {} THEN "no-interface"
    ELSE LET x == CHOOSE y \in Intf(ifs, inIf) : TRUE IN
         IF AcceptingUsages(policies, b.hops) = {} THEN "prefilter"
         ELSE IF x.lt \notin {1, 2} THEN "link-type"
         ELSE IF Last(b.hops) # x.nbr THEN "upstream"
         ELSE IF b.next # local THEN "next"
         ELSE IF b.bad # {} THEN "signature"
         ELSE "stored"

\* Propagating a stored beacon over an interface towards nbr yields the AS sequence
\* hops \o <<local>> \o <<nbr>> (the propagator's extender appends the local AS entry): the statement
\* forbids the propagation if that sequence contains an AS loop (or an ISD loop when disallowed).
MayPropagate(hops, local, nbr, isdLoopAllowed) ==
    ~Loop(Append(Append(hops, local), nbr), isdLoopAllowed)
\* the loop test of the code before the fix in /repo: the local AS was left out
MayPropagateNoLocal(hops, nbr, isdLoopAllowed) == ~Loop(Append(hops, nbr), isdLoopAllowed)
=============================================================================
