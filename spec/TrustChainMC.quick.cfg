SPECIFICATION Spec
CONSTANTS
  FullTimes = FALSE
  PairsOnly = FALSE
INVARIANTS SoundA SoundB Emit
CHECK_DEADLOCK FALSE
