SPECIFICATION Spec
CONSTANTS
  FullTimes = FALSE
  PairsOnly = FALSE
INVARIANTS SoundA SoundB SoundH Emit
CHECK_DEADLOCK FALSE
