SPECIFICATION Spec
CONSTANTS
  MaxSeg = 1
  AddrCodes = {0, 3}
INVARIANTS Agreement Exactness NeededInside
CHECK_DEADLOCK FALSE
