--------------------------- MODULE AddrTextOps ---------------------------
(* C46 -- text formats of pkg/addr: the *denotation* of a text (which value, if any, a text stands
   for) and the canonical formatting, as pure operators.  Single source of truth for the exhaustive
   model (AddrText.tla) and the trace specification (AddrTextTrace.tla).

   Texts are sequences of byte codes (TLC cannot index strings).  Values:
     ISD       <<n>>                       n in 0..65535
     AS        <<g1, g2, g3>>              three 16-bit groups, most significant first (TLC integers are
                                           32 bit, so 48-bit numbers are never built); BGP AS iff g1 = 0
     IA        <<isd, g1, g2, g3>>
     SVC       <<n>>
     Host      <<0>> (none) | <<1, svc>> | <<4, b1..b4>> | <<6, b1..b16>> \o zone-bytes
     Addr      IA \o Host
     AddrPort  <<port>> \o IA \o Host
   Undef (= <<>>) means "the text denotes nothing".

   The numerals are read numerically (leading zeros allowed, the value must fit): this is the weakest
   reading of "parsing rejects out-of-range numbers and malformed text instead of returning a
   different value" -- a parser may accept "007" or "00ff:0:1" only as 7 resp. ff:0:1.             *)
EXTENDS Integers, Sequences

CONSTANT Fallback      \* TRUE: an empty separator means ':' (as documented). FALSE: used as is (model variant only)

Undef == <<>>

Colon == <<58>>
Dash == <<45>>
Dot == <<46>>
Comma == <<44>>
Percent == <<37>>
PfxISD == <<73, 83, 68>>                             \* "ISD"
PfxAS == <<65, 83>>                                  \* "AS"
NameDS == <<68, 83>>                                 \* "DS"
NameCS == <<67, 83>>                                 \* "CS"
NameWildcard == <<87, 105, 108, 100, 99, 97, 114, 100>>   \* "Wildcard"
SufA == <<95, 65>>                                   \* "_A"
SufM == <<95, 77>>                                   \* "_M"
SvcDS == 1
SvcCS == 2
SvcWildcard == 16
SvcMcast == 32768

IsDigit(c) == c >= 48 /\ c <= 57
HexVal(c) == IF c >= 48 /\ c <= 57 THEN c - 48
             ELSE IF c >= 97 /\ c <= 102 THEN c - 87
             ELSE IF c >= 65 /\ c <= 70 THEN c - 55 ELSE -1
IsHex(c) == HexVal(c) >= 0

\* separators for which the AS / ISD-AS format is unambiguous by construction (DESIGN.md section 8)
SepAdmissible(sep) == \A i \in 1..Len(sep) : ~IsHex(sep[i]) /\ sep[i] # 45
EffSep(sep) == IF sep = <<>> /\ Fallback THEN Colon ELSE sep

-----------------------------------------------------------------------------
(* Generic text helpers. *)
IsAt(t, s, i) == i + Len(s) - 1 <= Len(t) /\ \A k \in 1..Len(s) : t[i + k - 1] = s[k]
RECURSIVE ScanFrom(_, _, _)
ScanFrom(t, s, i) == IF i + Len(s) - 1 > Len(t) THEN 0 ELSE IF IsAt(t, s, i) THEN i ELSE ScanFrom(t, s, i + 1)
FirstAt(t, s) == ScanFrom(t, s, 1)          \* index of the leftmost occurrence of s (non-empty) in t, or 0
HasPrefix(t, p) == Len(p) <= Len(t) /\ SubSeq(t, 1, Len(p)) = p
HasSuffix(t, p) == Len(p) <= Len(t) /\ SubSeq(t, Len(t) - Len(p) + 1, Len(t)) = p
Drop(t, n) == SubSeq(t, n + 1, Len(t))
Contains(t, c) == \E i \in 1..Len(t) : t[i] = c

\* t = p1 \o s \o p2 \o s ... (leftmost, non-overlapping); for an empty s: one part per byte
RECURSIVE Split(_, _)
Split(t, s) ==
    IF s = <<>> THEN [i \in 1..Len(t) |-> <<t[i]>>]
    ELSE LET i == FirstAt(t, s) IN
         IF i = 0 THEN <<t>> ELSE <<SubSeq(t, 1, i - 1)>> \o Split(Drop(t, i + Len(s) - 1), s)

RECURSIVE Join(_, _)
Join(parts, s) == IF Len(parts) = 0 THEN <<>>
                  ELSE IF Len(parts) = 1 THEN parts[1]
                  ELSE parts[1] \o s \o Join(Tail(parts), s)

-----------------------------------------------------------------------------
(* Numerals.  Decimal numerals are evaluated on two 16-bit limbs so that 2^32 - 1 is representable. *)
RECURSIVE DecLimbs(_, _, _, _)
DecLimbs(t, i, hi, lo) ==
    IF i > Len(t) THEN <<hi, lo>>
    ELSE IF ~IsDigit(t[i]) THEN Undef
    ELSE LET l == lo * 10 + (t[i] - 48)
             h == hi * 10 + (l \div 65536) IN
         IF h > 65535 THEN Undef ELSE DecLimbs(t, i + 1, h, l % 65536)

DenoteDec32(t) == IF Len(t) = 0 THEN Undef ELSE DecLimbs(t, 1, 0, 0)        \* <<hi, lo>> or Undef
DenoteDec16(t) == LET d == DenoteDec32(t) IN IF d = Undef \/ d[1] # 0 THEN -1 ELSE d[2]

RECURSIVE HexAcc(_, _, _)
HexAcc(t, i, acc) ==
    IF i > Len(t) THEN acc
    ELSE IF ~IsHex(t[i]) THEN -1
    ELSE LET a == acc * 16 + HexVal(t[i]) IN IF a > 65535 THEN -1 ELSE HexAcc(t, i + 1, a)
DenoteHex16(t) == IF Len(t) = 0 THEN -1 ELSE HexAcc(t, 1, 0)                \* 0..65535 or -1

RECURSIVE DecDigits(_, _)
DecDigits(hi, lo) ==
    IF hi = 0 /\ lo < 10 THEN <<48 + lo>>
    ELSE LET x == (hi % 10) * 65536 + lo IN DecDigits(hi \div 10, x \div 10) \o <<48 + (x % 10)>>

HexChar(d) == IF d < 10 THEN 48 + d ELSE 87 + d
RECURSIVE HexDigits(_)
HexDigits(n) == IF n < 16 THEN <<HexChar(n)>> ELSE HexDigits(n \div 16) \o <<HexChar(n % 16)>>

IsDecimalText(t) == Len(t) > 0 /\ \A i \in 1..Len(t) : IsDigit(t[i])

-----------------------------------------------------------------------------
(* ISD, AS, ISD-AS. *)
StripPrefix(t, prefix, p) == IF ~prefix THEN t ELSE IF HasPrefix(t, p) THEN Drop(t, Len(p)) ELSE <<0>>
   \* <<0>> (a NUL byte) denotes nothing in any of the grammars below

DenoteISD(t, prefix) ==
    LET n == DenoteDec16(StripPrefix(t, prefix, PfxISD)) IN IF n < 0 THEN Undef ELSE <<n>>

DenoteASBody(t, sep) ==
    LET parts == Split(t, EffSep(sep)) IN
    IF Len(parts) = 1
      THEN LET d == DenoteDec32(t) IN IF d = Undef THEN Undef ELSE <<0, d[1], d[2]>>
    ELSE IF Len(parts) # 3 THEN Undef
    ELSE LET g == [i \in 1..3 |-> DenoteHex16(parts[i])] IN
         IF \E i \in 1..3 : g[i] < 0 THEN Undef ELSE <<g[1], g[2], g[3]>>

DenoteAS(t, prefix, sep) == DenoteASBody(StripPrefix(t, prefix, PfxAS), sep)

DenoteIA(t, prefix, sep) ==
    LET parts == Split(t, Dash) IN
    IF Len(parts) # 2 THEN Undef
    ELSE LET i == DenoteISD(parts[1], prefix)
             a == DenoteAS(parts[2], prefix, sep) IN
         IF i = Undef \/ a = Undef THEN Undef ELSE i \o a

FormatISD(v, prefix) == (IF prefix THEN PfxISD ELSE <<>>) \o DecDigits(0, v[1])

FormatASBody(v, sep) ==
    IF v[1] = 0 THEN DecDigits(v[2], v[3])
    ELSE HexDigits(v[1]) \o EffSep(sep) \o HexDigits(v[2]) \o EffSep(sep) \o HexDigits(v[3])
FormatAS(v, prefix, sep) == (IF prefix THEN PfxAS ELSE <<>>) \o FormatASBody(v, sep)
FormatIA(v, prefix, sep) == FormatISD(<<v[1]>>, prefix) \o Dash \o FormatAS(<<v[2], v[3], v[4]>>, prefix, sep)

\* "decimal up to 2^32-1, separated hex above"
ASFormOK(v, t, prefix) == IsDecimalText(StripPrefix(t, prefix, PfxAS)) <=> v[1] = 0

-----------------------------------------------------------------------------
(* Service addresses. *)
SvcDefined(n) == (n % SvcMcast) \in {SvcDS, SvcCS, SvcWildcard}

DenoteSVC(t) ==
    LET mc == HasSuffix(t, SufM)
        base == IF HasSuffix(t, SufA) \/ mc THEN SubSeq(t, 1, Len(t) - 2) ELSE t
        m == IF mc THEN SvcMcast ELSE 0 IN
    IF base = NameDS THEN <<SvcDS + m>>
    ELSE IF base = NameCS THEN <<SvcCS + m>>
    ELSE IF base = NameWildcard THEN <<SvcWildcard + m>>
    ELSE Undef

FormatSVC(v) ==
    LET b == v[1] % SvcMcast IN
    (IF b = SvcDS THEN NameDS ELSE IF b = SvcCS THEN NameCS ELSE NameWildcard)
        \o (IF v[1] >= SvcMcast THEN SufM ELSE <<>>)

-----------------------------------------------------------------------------
(* IP addresses (RFC 4291 section 2.2 text forms, RFC 4007 zone suffix; dotted decimal without
   leading zeros for IPv4). *)
DecByte(g) ==
    IF Len(g) = 0 \/ Len(g) > 3 \/ (Len(g) > 1 /\ g[1] = 48) THEN -1
    ELSE LET n == DenoteDec16(g) IN IF n > 255 THEN -1 ELSE n

DenoteIPv4(t) ==
    LET p == Split(t, Dot) IN
    IF Len(p) # 4 THEN Undef
    ELSE LET b == [i \in 1..4 |-> DecByte(p[i])] IN
         IF \E i \in 1..4 : b[i] < 0 THEN Undef ELSE <<4, b[1], b[2], b[3], b[4]>>

FormatIPv4(v) == Join([i \in 1..4 |-> DecDigits(0, v[i + 1])], Dot)

Hex4(g) == IF Len(g) > 4 THEN -1 ELSE DenoteHex16(g)

\* the 16-bit groups of one side of an IPv6 text; a malformed side yields a sequence containing -1
GroupsOf(side, allowV4) ==
    IF side = <<>> THEN <<>>
    ELSE LET p == Split(side, Colon)
             n == Len(p)
             v4 == allowV4 /\ Contains(p[n], 46)
             d4 == DenoteIPv4(p[n])
             head == [i \in 1..(IF v4 THEN n - 1 ELSE n) |-> Hex4(p[i])]
             tail == IF ~v4 THEN <<>>
                     ELSE IF d4 = Undef THEN <<-1>>
                     ELSE <<d4[2] * 256 + d4[3], d4[4] * 256 + d4[5]>> IN
         head \o tail

RECURSIVE GroupBytes(_)
GroupBytes(gs) == IF Len(gs) = 0 THEN <<>> ELSE <<gs[1] \div 256, gs[1] % 256>> \o GroupBytes(Tail(gs))

DenoteIPv6(t) ==
    LET z == FirstAt(t, Percent)
        a == IF z = 0 THEN t ELSE SubSeq(t, 1, z - 1)
        zone == IF z = 0 THEN <<>> ELSE Drop(t, z)
        dc == Split(a, <<58, 58>>)
        gs == IF Len(dc) = 1 THEN GroupsOf(a, TRUE)
              ELSE IF Len(dc) = 2
                THEN LET L == GroupsOf(dc[1], FALSE)
                         R == GroupsOf(dc[2], TRUE) IN
                     IF Len(L) + Len(R) > 7 THEN <<-1>>
                     ELSE L \o [i \in 1..(8 - Len(L) - Len(R)) |-> 0] \o R
              ELSE <<-1>> IN
    IF (z # 0 /\ zone = <<>>) \/ Len(gs) # 8 \/ (\E i \in 1..Len(gs) : gs[i] < 0) THEN Undef
    ELSE <<6>> \o GroupBytes(gs) \o zone

DenoteIP(t) == IF Contains(t, 58) THEN DenoteIPv6(t) ELSE DenoteIPv4(t)

-----------------------------------------------------------------------------
(* Host, full address, address with port. *)
DenoteHost(t) == LET s == DenoteSVC(t) IN IF s # Undef THEN <<1>> \o s ELSE DenoteIP(t)

HostDefined(h) == h[1] \in {4, 6} \/ (h[1] = 1 /\ SvcDefined(h[2]))

\* [ia |-> IA or Undef, host |-> Host or Undef, shape |-> a comma is present]
AddrParts(t) ==
    LET c == FirstAt(t, Comma) IN
    IF c = 0 THEN [shape |-> FALSE, ia |-> Undef, host |-> Undef]
    ELSE [shape |-> TRUE, ia |-> DenoteIA(SubSeq(t, 1, c - 1), FALSE, Colon), host |-> DenoteHost(Drop(t, c))]

DenoteAddr(t) == LET p == AddrParts(t) IN IF p.ia = Undef \/ p.host = Undef THEN Undef ELSE p.ia \o p.host

\* "[" addr "]:" port ; the brackets may be omitted when addr contains no ':' (the text is then still
\* unambiguous -- this is what net.SplitHostPort accepts; the weaker reading of the documented format)
RECURSIVE LastIndexFrom(_, _, _)
LastIndexFrom(t, c, i) == IF i = 0 THEN 0 ELSE IF t[i] = c THEN i ELSE LastIndexFrom(t, c, i - 1)
NoPort == [shape |-> FALSE, port |-> -1, inner |-> <<>>]
PortParts(t) ==
    IF Len(t) > 0 /\ t[1] = 91
      THEN LET j == FirstAt(t, <<93>>) IN
           IF Len(t) < 4 \/ j = 0 \/ j + 1 > Len(t) THEN NoPort
           ELSE IF t[j + 1] # 58 \/ Contains(SubSeq(t, 2, j - 1), 91) THEN NoPort
           ELSE [shape |-> TRUE, port |-> DenoteDec16(Drop(t, j + 1)), inner |-> SubSeq(t, 2, j - 1)]
    ELSE LET j == LastIndexFrom(t, 58, Len(t))
             h == SubSeq(t, 1, j - 1) IN
         IF j = 0 \/ Contains(h, 58) \/ Contains(h, 91) \/ Contains(h, 93) THEN NoPort
         ELSE [shape |-> TRUE, port |-> DenoteDec16(Drop(t, j)), inner |-> h]

DenoteAddrPort(t) ==
    LET p == PortParts(t)
        a == DenoteAddr(p.inner) IN
    IF ~p.shape \/ p.port < 0 \/ a = Undef THEN Undef ELSE <<p.port>> \o a

-----------------------------------------------------------------------------
(* snet.UDPAddr: a full SCION address with an IP host and a port.  The canonical text is the AddrPort
   form; the legacy forms  IA,[ip]:port  IA,ipv4:port  IA,ip  IA,[ip]  (port 0 when absent) are read
   too.  The host of a UDPAddr is a net.IP, for which an IPv4-mapped IPv6 address IS the IPv4 address:
   values are normalised accordingly.  A service host has no UDP address: such a text denotes nothing. *)
Is4in6(h) == h[1] = 6 /\ Len(h) = 17 /\ (\A i \in 2..11 : h[i] = 0) /\ h[12] = 255 /\ h[13] = 255
NormIP(h) == IF Is4in6(h) THEN <<4, h[14], h[15], h[16], h[17]>> ELSE h
CountOf(t, c) == Len(SelectSeq(t, LAMBDA x : x = c))

DenoteUDPLegacy(t) ==
    LET c == FirstAt(t, Comma)
        ia == IF c = 0 THEN Undef ELSE DenoteIA(SubSeq(t, 1, c - 1), FALSE, Colon)
        r == IF c = 0 THEN <<>> ELSE Drop(t, c)
        hp ==      \* <<port, ip>> or Undef
          IF r = <<>> THEN Undef
          ELSE IF r[1] = 91
            THEN LET j == FirstAt(r, <<93>>)
                     ip == IF j = 0 THEN Undef ELSE DenoteIP(SubSeq(r, 2, j - 1))
                     after == IF j = 0 THEN <<>> ELSE Drop(r, j) IN
                 IF ip = Undef THEN Undef
                 ELSE IF after = <<>> THEN <<0, ip>>
                 ELSE IF after[1] = 58 /\ DenoteDec16(Drop(after, 1)) >= 0 THEN <<DenoteDec16(Drop(after, 1)), ip>>
                 ELSE Undef
          ELSE IF CountOf(r, 58) = 1
            THEN LET k == FirstAt(r, Colon)
                     ip == DenoteIPv4(SubSeq(r, 1, k - 1))
                     port == DenoteDec16(Drop(r, k)) IN
                 IF ip = Undef \/ port < 0 THEN Undef ELSE <<port, ip>>
          ELSE LET ip == DenoteIP(r) IN IF ip = Undef THEN Undef ELSE <<0, ip>> IN
    IF ia = Undef \/ hp = Undef THEN Undef ELSE <<hp[1]>> \o ia \o NormIP(hp[2])

DenoteUDPAddr(t) ==
    LET d == DenoteAddrPort(t) IN
    IF d # Undef THEN (IF d[6] \in {4, 6} THEN SubSeq(d, 1, 5) \o NormIP(Drop(d, 5)) ELSE Undef)
    ELSE DenoteUDPLegacy(t)

-----------------------------------------------------------------------------
(* Dispatch by kind (the kinds the driver logs). *)
Denote(kind, t, prefix, sep) ==
    CASE kind = "isd" -> DenoteISD(t, prefix)
      [] kind = "as" -> DenoteAS(t, prefix, sep)
      [] kind = "ia" -> DenoteIA(t, prefix, sep)
      [] kind = "svc" -> DenoteSVC(t)
      [] kind = "host" -> DenoteHost(t)
      [] kind = "addr" -> DenoteAddr(t)
      [] kind = "addrport" -> DenoteAddrPort(t)
      [] kind = "udpaddr" -> DenoteUDPAddr(t)

\* the values the property quantifies over ("every ISD, AS number, ISD-AS, service address, host
\* address and full SCION address"): undefined service numbers and the none-host are not addresses
InDomain(kind, v) ==
    CASE kind = "svc" -> SvcDefined(v[1])
      [] kind = "host" -> HostDefined(v)
      [] kind = "addr" -> HostDefined(Drop(v, 4))
      [] kind = "addrport" -> HostDefined(Drop(v, 5))
      [] OTHER -> TRUE
=============================================================================
