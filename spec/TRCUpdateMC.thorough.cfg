SPECIFICATION Spec
CONSTANTS
  Depth = 2
  DeepIds = {1, 2, 3, 4, 5, 6}
  BaseIds = {1, 2, 3, 4, 5, 6}
  KindIds = {1, 2, 3, 4, 5}
  FinalKindIds = {}
  SampleMod = 1
  SampleRes = 0
  QuorumLowerBound = TRUE
  EmitScenarios = TRUE
INVARIANTS CodeSound BasesAccepted Emit
VIEW View
CHECK_DEADLOCK FALSE
