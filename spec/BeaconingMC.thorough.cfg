SPECIFICATION Spec
CONSTANTS
  MaxLen = 3
  Windows <- TimelineWindows
  PeerLists <- QuickPeers
  MaxExps = {0, 2, 255}
  Nows = {0, 60000}
INVARIANTS Named Chained MacsVerify ExpBounded Positions SignerChoice PeersOnlyKnown
CHECK_DEADLOCK FALSE
