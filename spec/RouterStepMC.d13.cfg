SPECIFICATION Spec
CONSTANTS
  Cfg <- CfgAasfound
  Kinds = {"scion"}
  Shapes <- ShapesOne
  Vias = {0, 1, 2, 3}
  SrcDom = {"L", "F"}
  DstDom = {"L", "F"}
  Faults = {"none"}
  L4Dom = {"udp", "trreq"}
  InSideDom = {0, 1, 2, 3, 999}
  EgSideDom = {0, 1, 2, 3, 999}
  PeerDom = {FALSE}
  ExpDom = {FALSE}
  AuthDom <- AuthOK
  AlertDom <- AlertAll
  EpicDom <- EpicOK
INVARIANTS InvC06
\* no scenarios
CHECK_DEADLOCK FALSE
