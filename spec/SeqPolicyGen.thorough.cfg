INIT GenInit
NEXT Next
CONSTANTS
  MaxSize = 5
  MaxLen = 0
  Leaves <- GenLeavesThorough
  Hops <- McHops
  Directed <- DirectedThorough
CONSTRAINT Emit
CHECK_DEADLOCK FALSE
