-------------------------------- MODULE BFD --------------------------------
(* C16 - two BFD sessions A and B over a link that can lose, delay and reorder packets, and an
   adversary with a finite budget that may also inject arbitrary control packets (any state incl.
   AdminDown, any discriminators).  Round-based untimed abstraction: each session sends once per
   round; the detection timer of a session fires at the end of a round in which it accepted no
   packet.  A packet normally has to be delivered or lost within its round; "holding" it (delay /
   reordering across rounds) costs budget like a loss or an injection.

   The transition relation is selected by the constant Rel: "rfc" = RFC 5880 6.8.6 (the property),
   "code" = the relation router/bfd implements - open known finding D4 - (received AdminDown => AdminDown),
   kept to SHOW the liveness counterexample at design level (BFDMC.code.cfg, expected to fail).  *)
EXTENDS BFDOps, FiniteSets, TLC

CONSTANTS Rel,        \* "rfc" | "code"
          Budget,     \* number of adversarial actions (lose / hold / inject)
          Foreign,    \* BOOLEAN: injected packets may also carry a My Discriminator nobody owns
          Track,      \* "rfc": bfd.RemoteDiscr := My Discriminator of every accepted packet (RFC 5880 6.8.6)
                      \* "code": only while it is zero (router/bfd before repair 3412c17)
          Demux       \* "link": a session takes every packet of its link (as the router does)
                      \* "strict": RFC 5880 6.8.6 - a non-zero Your Discriminator selects the session;
                      \*           if it is not the receiver's the packet is discarded

S == {"A", "B"}
Peer(s) == IF s = "A" THEN "B" ELSE "A"
Disc(s) == IF s = "A" THEN 1 ELSE 2          \* 3 = a discriminator nobody owns
T(st, ev) == IF Rel = "rfc" THEN Rfc(st, ev) ELSE Code(st, ev)

VARIABLES st,      \* [S -> States]        local session state
          rst,     \* [S -> States]        last received remote state
          rd,      \* [S -> 0..3]          remote discriminator (0 = unknown)
          net,     \* set of packets in flight [to, state, my, your, held]
          sent,    \* [S -> BOOLEAN]       has sent in this round
          got,     \* [S -> BOOLEAN]       accepted a packet in this round
          budget
vars == <<st, rst, rd, net, sent, got, budget>>

Packets == [to : S, state : States, my : 0..3, your : 0..3, held : BOOLEAN]
\* what the adversary injects: any state; My Discriminator = the peer's, a foreign one or zero;
\* Your Discriminator = zero or the receiver's (the sessions do not look at other values)
InjPackets == {p \in Packets : /\ ~p.held /\ p.my \in ({0, Disc(Peer(p.to))} \cup (IF Foreign THEN {3} ELSE {}))
                                /\ p.your \in ({0, Disc(p.to)} \cup (IF Demux = "strict" THEN {3} ELSE {}))
                                /\ (p.my = 0 => p.state = "Up" /\ p.your # 0)}   \* one discarded kind

Init == /\ st = [s \in S |-> "Down"] /\ rst = [s \in S |-> "Down"] /\ rd = [s \in S |-> 0]
        /\ net = {} /\ sent = [s \in S |-> FALSE] /\ got = [s \in S |-> FALSE] /\ budget = Budget

\* Session.Run, send branch: state, my discriminator, your discriminator as currently known
Send(s) == /\ ~sent[s]
           /\ net' = net \cup {[to |-> Peer(s), state |-> st[s], my |-> Disc(s), your |-> rd[s], held |-> FALSE]}
           /\ sent' = [sent EXCEPT ![s] = TRUE]
           /\ UNCHANGED <<st, rst, rd, got, budget>>

\* ReceiveMessage (shouldDiscard) + Session.Run, receive branch
Discarded(p) == \/ p.my = 0 \/ (p.your = 0 /\ p.state \notin {"Down", "AdminDown"})
                \/ (Demux = "strict" /\ p.your # 0 /\ p.your # Disc(p.to))
Deliver(p) == /\ p \in net
              /\ net' = net \ {p}
              /\ LET s == p.to IN
                 IF Discarded(p) THEN UNCHANGED <<st, rst, rd, got>>
                 ELSE /\ st' = [st EXCEPT ![s] = T(st[s], p.state)]
                      /\ rst' = [rst EXCEPT ![s] = p.state]
                      /\ rd' = [rd EXCEPT ![s] = IF Track = "rfc" \/ rd[s] = 0 THEN p.my ELSE rd[s]]
                      /\ got' = [got EXCEPT ![s] = TRUE]         \* detection timer re-armed
              /\ UNCHANGED <<sent, budget>>

\* the adversary
Lose(p) == /\ p \in net /\ budget > 0 /\ net' = net \ {p} /\ budget' = budget - 1
           /\ UNCHANGED <<st, rst, rd, sent, got>>
Hold(p) == /\ p \in net /\ ~p.held /\ budget > 0
           /\ net' = (net \ {p}) \cup {[p EXCEPT !.held = TRUE]} /\ budget' = budget - 1
           /\ UNCHANGED <<st, rst, rd, sent, got>>
Inject(p) == /\ budget > 0 /\ p.held = FALSE /\ net' = net \cup {p} /\ budget' = budget - 1
             /\ UNCHANGED <<st, rst, rd, sent, got>>

\* end of a round: everybody has sent, every packet that was not held has been delivered or lost;
\* a session that accepted nothing in this round sees its detection time expire
EndRound == /\ \A s \in S : sent[s]
            /\ \A p \in net : p.held
            /\ st' = [s \in S |-> IF got[s] THEN st[s] ELSE T(st[s], "Timer")]
            /\ rd' = [s \in S |-> IF got[s] THEN rd[s] ELSE 0]
            /\ sent' = [s \in S |-> FALSE] /\ got' = [s \in S |-> FALSE]
            /\ UNCHANGED <<rst, net, budget>>

SendAny == \E s \in S : Send(s)
DeliverAny == \E p \in net : Deliver(p)
Adversary == \/ \E p \in net : Lose(p) \/ Hold(p)
             \/ \E p \in InjPackets : Inject(p)
Next == SendAny \/ DeliverAny \/ Adversary \/ EndRound

\* the sessions keep sending, the link keeps delivering, time passes; the adversary is not fair
Spec == Init /\ [][Next]_vars /\ WF_vars(SendAny) /\ WF_vars(DeliverAny) /\ WF_vars(EndRound)

-----------------------------------------------------------------------------
TypeOK == /\ st \in [S -> States] /\ rst \in [S -> States] /\ rd \in [S -> 0..3]
          /\ net \subseteq Packets /\ budget \in 0..Budget

BothUp == st["A"] = "Up" /\ st["B"] = "Up"

\* "never into a state it cannot leave"
NeverAdminDown == \A s \in S : st[s] # "AdminDown"
\* a session is Up only while the last packet it accepted said Init or Up
UpMeansPeerAlive == \A s \in S : st[s] = "Up" => rst[s] \in {"Init", "Up"}
\* Init / Up packets always carry a Your Discriminator (otherwise the peer must discard them)
KnowsPeer == \A s \in S : st[s] \in {"Init", "Up"} => rd[s] # 0

\* a session that stops receiving goes Down after its detection time
SilenceMeansDown == [][EndRound => \A s \in S : ~got[s] => st'[s] \in {"Down", "AdminDown"}]_vars
\* after any history of received packets and losses both sessions come Up again, and stay Up
Recovers == <>[]BothUp
\* on a link that keeps delivering, Up is never left (checked in the Budget = 0 configuration)
StaysUp == [][BothUp => BothUp']_vars
=============================================================================
