------------------------- MODULE BeaconStoreTrace -------------------------
(* Trace specification for C25.  Events recorded by harness/cmd/beaconstore from the real
   beaconing.Handler + beacon.Store/CoreStore on the real sqlite beacon DB and the real
   beaconing.Propagator (recording sender factory):
     reset   cfg = [local, core, ifs, pIsdLoop, pols]
     handle  one received beacon (abstract: hops, next, bad signature indices, ingress interface) and
             whether the database holds it before / after the call, with which usage and interface
     dump    the serial numbers of all beacons in the database
     prop    one Propagator.Run: the (egress interface, beacon) pairs handed to senders
     regrun  one WriteScheduler.Run (GroupWriter + LocalWriter) per segment type: the segments that reached
             the registrar's segment store
   C25 is an only-if statement: only its clauses are monitors (VERIF-BAD).  "Allowed but not stored /
   not sent" is VERIF-DRIFT.          *)
EXTENDS BeaconStoreOps, TLC, Json

Trace == ndJsonDeserialize("trace.ndjson")

VARIABLES held,     \* set of [k, hops, usage] the database holds according to the handle events
          rl, failed, l
vars == <<held, rl, failed, l>>
R == Trace[l]
Cfg == Trace[rl].cfg

Range(s) == {s[i] : i \in 1..Len(s)}
Ifs == Range(Cfg.ifs)
Pols == [u \in {Cfg.pols[i].u : i \in 1..Len(Cfg.pols)} |->
           LET p == CHOOSE q \in Range(Cfg.pols) : q.u = u IN
           [max |-> p.max, asBlack |-> Range(p.asBlack), isdBlack |-> Range(p.isdBlack), isdLoop |-> p.isdLoop]]

Init == held = {} /\ rl = 1 /\ failed = FALSE /\ l = 1

Bad(key) == /\ PrintT(<<"VERIF-BAD", l, key>>)
            /\ failed' = TRUE
            /\ UNCHANGED <<held, rl>>
Drift(key) == PrintT(<<"VERIF-DRIFT", l, key>>)
Keep == UNCHANGED <<held, rl, failed>>
S(n) == ToString(n)
SetStr(s) == S(s)

Reset == held' = {} /\ rl' = l /\ failed' = FALSE

Handle ==
    LET b == [hops |-> R.hops, next |-> R.next, bad |-> Range(R.bad)]
        x == Intf(Ifs, R.inIf)
        acc == AcceptingUsages(Pols, b.hops)
        pipe == Pipeline(Cfg.local, Ifs, Pols, b, R.inIf) IN
    IF R.before THEN Bad("handle:harness-beacon-stored-before-handled")
    ELSE IF ~R.after THEN
        /\ (MayStore(Cfg.local, Ifs, Pols, b, R.inIf) => Drift("handle:not-stored-although-allowed"))
        /\ ((R.err = 0) # (pipe = "stored") => Drift("handle:error-result-differs," \o pipe))
        /\ Keep
    \* stored: every only-if clause must hold
    ELSE IF x = {} THEN Bad("stored:unknown-interface")
    ELSE IF \A y \in x : y.lt \notin {1, 2} THEN
        Bad("stored:link-type=" \o S((CHOOSE y \in x : TRUE).lt))
    ELSE IF \A y \in x : Last(b.hops) # y.nbr THEN Bad("stored:last-entry-not-the-neighbour")
    ELSE IF b.next # Cfg.local THEN Bad("stored:next-not-local")
    ELSE IF b.bad # {} THEN Bad("stored:signature-does-not-verify")
    ELSE IF acc = {} THEN
        Bad("stored:no-policy-accepts" \o (IF AsLoop(b.hops) THEN ",as-loop" ELSE ""))
    ELSE IF Range(R.usage) # acc THEN
        Bad("stored:usage=" \o SetStr(Range(R.usage)) \o ",accepting=" \o SetStr(acc))
    ELSE IF R.sinIf # R.inIf THEN Bad("stored:ingress-interface")
    ELSE /\ held' = held \cup {[k |-> R.k, hops |-> R.hops, usage |-> acc]}
         /\ (R.err # 0 => Drift("handle:error-although-stored"))
         /\ UNCHANGED <<rl, failed>>

\* nothing is in the database that no handle event stored
Dump ==
    IF Range(R.ks) # {e.k : e \in held} THEN
        Bad(IF \E k \in Range(R.ks) : k \notin {e.k : e \in held} THEN "dump:holds-beacon-never-accepted"
            ELSE "dump:accepted-beacon-missing")
    ELSE Keep

Prop ==
    LET bad(i) ==
          LET s == R.sends[i]
              x == Intf(Ifs, s.eg) IN
          IF s.k = 0 THEN "prop:sends-unknown-beacon"
          ELSE IF x = {} THEN "prop:unknown-egress-interface"
          ELSE LET nbr == (CHOOSE y \in x : TRUE).nbr IN
               IF AsLoop(Append(s.hops, nbr)) THEN "prop:as-loop"
               ELSE IF ~Cfg.pIsdLoop /\ IsdLoop(Append(s.hops, nbr)) THEN "prop:isd-loop"
               \* the propagated beacon carries the local AS entry between the beacon's ASes and the neighbour
               ELSE IF AsLoop(Append(Append(s.hops, Cfg.local), nbr)) THEN "prop:as-loop-through-the-local-as"
               ELSE IF ~Cfg.pIsdLoop /\ IsdLoop(Append(Append(s.hops, Cfg.local), nbr))
                    THEN "prop:isd-loop-through-the-local-as"
               ELSE ""
        bads == {i \in 1..Len(R.sends) : bad(i) # ""} IN
    IF bads # {} THEN Bad(bad(CHOOSE i \in bads : TRUE))
    ELSE /\ \A i \in 1..Len(R.sends) :
              LET s == R.sends[i]
                  nbr == (CHOOSE y \in Intf(Ifs, s.eg) : TRUE).nbr IN
              /\ (~\E e \in held : e.k = s.k /\ 8 \in e.usage) => Drift("prop:sent-without-prop-usage")
         /\ \A e \in {h \in held : 8 \in h.usage} :
              \A y \in {z \in Ifs : z.lt = IF Cfg.core THEN 1 ELSE 3} :
                 (MayPropagate(e.hops, Cfg.local, y.nbr, Cfg.pIsdLoop) /\
                  ~\E i \in 1..Len(R.sends) : R.sends[i].k = e.k /\ R.sends[i].eg = y.id)
                    => Drift("prop:not-sent-although-allowed")
         /\ Keep

\* one WriteScheduler.Run for segment type R.type (1 up, 2 down, 3 core): what reached the registrar's store
Regrun ==
    LET u == CASE R.type = 1 -> 1 [] R.type = 2 -> 2 [] OTHER -> 4
        tn == CASE R.type = 1 -> "up" [] R.type = 2 -> "down" [] OTHER -> "core"
        bad(i) == LET s == R.segs[i] IN
                  IF s.k = 0 THEN "reg:registers-unknown-beacon"
                  ELSE IF s.type # R.type THEN "reg:registered-with-other-segment-type"
                  ELSE IF ~\E e \in held : e.k = s.k /\ u \in e.usage
                       THEN "reg:registered-as-" \o tn \o "-without-that-usage"
                  ELSE ""
        bads == {i \in 1..Len(R.segs) : bad(i) # ""} IN
    IF bads # {} THEN Bad(bad(CHOOSE i \in bads : TRUE))
    ELSE /\ (\E e \in held : u \in e.usage /\ ~\E i \in 1..Len(R.segs) : R.segs[i].k = e.k)
              => Drift("reg:" \o tn \o "-not-registered-although-usage")
         /\ Keep

Step == /\ l <= Len(Trace)
        /\ l' = l + 1
        /\ IF R.ev = "reset" THEN Reset
           ELSE IF failed THEN Keep
           ELSE CASE R.ev = "handle" -> Handle
                  [] R.ev = "dump" -> Dump
                  [] R.ev = "prop" -> Prop
                  [] R.ev = "regrun" -> Regrun
                  [] OTHER -> Bad("no-spec-action:" \o R.ev)

Done == /\ l = Len(Trace) + 1
        /\ PrintT(<<"VERIF-DONE", Len(Trace)>>)
        /\ UNCHANGED vars

Next == Step \/ Done
Spec == Init /\ [][Next]_vars
=============================================================================
