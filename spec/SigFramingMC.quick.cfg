INIT Init
NEXT Next
CONSTANTS
  Kinds <- McKindsQuick
  NP = 3
  Fs = {41, 60}
  MaxDeliver = 5
  Cap = 8
  Lossless = FALSE
INVARIANTS NoSplice NoGarbage FramesTile ListShape
VIEW McView
CHECK_DEADLOCK FALSE
