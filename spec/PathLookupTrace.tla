-------------------------- MODULE PathLookupTrace --------------------------
(* Trace specification for C30.  Every "lookup" line is one call of the REAL Pather.GetPaths with the
   REAL MultiSegmentSplitter, the REAL DefaultResolver over a real path DB and the REAL revocation
   cache.  Monitor = statement of C30:
     * split:*     the requests issued are exactly PathLookupOps!SplitRequests
     * path:*      every returned path starts at the local AS, ends at the destination (a core AS of
                   the ISD for a wildcard), has not expired, crosses no interface with a running
                   revocation
     * local:*     a lookup for the local AS yields exactly one empty path
   Completeness (every live, unrevoked combination of the segments the resolver delivered is
   returned) is conformance: VERIF-DRIFT.                                                       *)
EXTENDS PathLookupOps, CombinatorOps, TLC, Json

Trace == ndJsonDeserialize("trace.ndjson")
VARIABLES l, st, cur
vars == <<l, st, cur>>
R == Trace[l]

Init == l = 1 /\ cur = {} /\ st = [lookups |-> 0, paths |-> 0, expired |-> 0, revoked |-> 0, nonempty |-> 0, phase |-> 0,
                                    remote |-> 0, fetched |-> 0]

IA(x) == [isd |-> x.isd, as |-> x.as]
ReqSet(rs) == {Req(rs[i].t, IA(rs[i].src), IA(rs[i].dst)) : i \in DOMAIN rs}
Cores == {IA(R.cores[i]) : i \in DOMAIN R.cores}
RevSet == {R.revs[i] : i \in DOMAIN R.revs}
\* string form -> record, for the ends of returned paths
Rec(s) == IF \E i \in DOMAIN R.ases : R.ases[i].s = s
            THEN IA(R.ases[CHOOSE i \in DOMAIN R.ases : R.ases[i].s = s]) ELSE [isd |-> -1, as |-> s]
DstStrs == IF IsWild(IA(R.dst)) THEN {R.cores[i].s : i \in {j \in DOMAIN R.cores : R.cores[j].isd = R.dst.isd}} ELSE {R.dst.s}

\* step 1: all combinations of the delivered segments towards every admissible destination
Eval == /\ cur' = UNION {{PathOf(ch, R.ups, R.cores_, R.downs) : ch \in PathChoices(R.local.s, d, R.ups, R.cores_, R.downs)} : d \in DstStrs}
        /\ st' = [st EXCEPT !.phase = 1] /\ UNCHANGED l

Judge ==
    LET P == R.paths
        np == Len(P)
        isLocal == IA(R.dst) = IA(R.local)
        want == SplitRequests(IA(R.local), R.localcore, IA(R.dst), Cores)
        pathKeys(j) ==
            LET p == P[j]
                n == Len(p.intfs) IN
            (IF p.src # R.local.s \/ (n > 0 /\ p.intfs[1].ia # R.local.s) THEN {"path:does-not-start-at-local-as"} ELSE {})
       \cup (IF ~ValidEnd(Rec(p.dst), IA(R.dst), Cores) \/ (n > 0 /\ p.intfs[n].ia # p.dst)
               THEN {"path:does-not-end-at-destination" \o (IF IsWild(IA(R.dst)) THEN "(wildcard)" ELSE "")} ELSE {})
       \* tfetch: the instant the last segment reply came back (the start of the lookup if nothing was
       \* fetched). The expiry filter runs after the segments are there, so whatever is handed out must
       \* outlive that instant - no margin needed, the order is causal.
       \cup (IF p.exp <= R.tfetch THEN {"path:expired"} ELSE {})
       \cup (IF \E i \in 1..n : Revoked(RevSet, p.intfs[i].ia, p.intfs[i].id, R.now1) THEN {"path:revoked-interface"} ELSE {})
        keys == IF R.dst.isd = 0 THEN (IF np > 0 THEN {"path:returned-for-isd-0"} ELSE {})
                ELSE IF isLocal THEN (IF np # 1 \/ (np = 1 /\ (P[1].intfs # <<>> \/ P[1].src # R.local.s \/ P[1].dst # R.local.s))
                                        THEN {"local:not-exactly-one-empty-path"} ELSE {})
                ELSE (IF ReqSet(R.reqs) # want THEN {"split:" \o R.cls} ELSE {}) \cup UNION {pathKeys(j) : j \in 1..np}
        live == {q \in cur : q.exp > R.now1 /\ ~Loopy(q.intfs) /\ ~\E i \in 1..Len(q.intfs) : Revoked(RevSet, q.intfs[i].ia, q.intfs[i].id, R.now1)}
        \* remote mode: the first lookup fetches exactly the non-local (core, down) requests; the second one,
        \* made immediately afterwards, asks again only for requests whose reply was empty (no next-query entry)
        rpcset(rs) == {Req(rs[i].t, IA(rs[i].src), IA(rs[i].dst)) : i \in DOMAIN rs}
        drift == IF isLocal \/ R.dst.isd = 0 THEN {}
                 ELSE (IF {q.intfs : q \in live} # {P[j].intfs : j \in 1..np} THEN {"returned-set-differs-from-live-combinations"} ELSE {})
                 \cup (IF R.mode = "remote" /\ rpcset(R.rpc1) # {r \in want : r.t # "up"} THEN {"rpc:first-lookup-fetches-other-requests"} ELSE {})
                 \cup (IF R.mode = "remote" /\ R.revs = <<>> /\
                         rpcset(R.rpc2) # {Req(R.rpc1[i].t, IA(R.rpc1[i].src), IA(R.rpc1[i].dst)) : i \in {j \in DOMAIN R.rpc1 : R.rpc1[j].n = 0}}
                       THEN {"rpc:second-lookup-refetch-set"} ELSE {})
    IN  /\ \A k \in keys : PrintT(<<"VERIF-BAD", l, k>>)
        /\ \A k \in drift : PrintT(<<"VERIF-DRIFT", l, k>>)
        /\ st' = [lookups |-> st.lookups + 1, paths |-> st.paths + np,
                  expired |-> st.expired + Cardinality({q \in cur : q.exp <= R.now1}),
                  revoked |-> st.revoked + Cardinality({q \in cur : \E i \in 1..Len(q.intfs) : Revoked(RevSet, q.intfs[i].ia, q.intfs[i].id, R.now1)}),
                  nonempty |-> st.nonempty + (IF np > 0 THEN 1 ELSE 0), phase |-> 0,
                  remote |-> st.remote + (IF R.mode = "remote" THEN 1 ELSE 0),
                  fetched |-> st.fetched + (IF R.mode = "remote" /\ np > 0 /\ Len(R.rpc1) > 0 THEN 1 ELSE 0)]

Step == /\ l <= Len(Trace)
        /\ IF R.ev = "lookup" /\ st.phase = 0 THEN Eval
           ELSE /\ l' = l + 1 /\ cur' = {}
                /\ CASE R.ev = "reset" -> UNCHANGED st
                     [] R.ev = "lookup" -> Judge
                     [] R.ev = "panic" -> PrintT(<<"VERIF-BAD", l, "panic">>) /\ UNCHANGED st
                     [] OTHER -> PrintT(<<"VERIF-BAD", l, "no-spec-action:" \o R.ev>>) /\ UNCHANGED st

Done == /\ l = Len(Trace) + 1
        /\ PrintT(<<"VERIF-STAT", "lookups", st.lookups>>)
        /\ PrintT(<<"VERIF-STAT", "paths", st.paths>>)
        /\ PrintT(<<"VERIF-STAT", "expiredcombos", st.expired>>)
        /\ PrintT(<<"VERIF-STAT", "revokedcombos", st.revoked>>)
        /\ PrintT(<<"VERIF-STAT", "nonempty", st.nonempty>>)
        /\ PrintT(<<"VERIF-STAT", "remote", st.remote>>)
        /\ PrintT(<<"VERIF-STAT", "remotewithpaths", st.fetched>>)
        /\ PrintT(<<"VERIF-DONE", Len(Trace)>>)
        /\ UNCHANGED vars

Next == Step \/ Done
Spec == Init /\ [][Next]_vars
=============================================================================
