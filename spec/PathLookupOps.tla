--------------------------- MODULE PathLookupOps ---------------------------
(* Path lookup (private/segment/segfetcher Pather + MultiSegmentSplitter) as pure operators - C30.
   An ISD-AS is a record [isd, as] (as = "0": wildcard); `cores` is the set of core ISD-ASes known
   to the inspector.                                                                            *)
EXTENDS Integers, Sequences, FiniteSets

Wild(ia) == [isd |-> ia.isd, as |-> "0"]
IsWild(ia) == ia.as = "0"
Req(t, s, d) == [t |-> t, src |-> s, dst |-> d]

CoresOf(cores, isd) == {c \in cores : c.isd = isd}

(* The segment requests a lookup local -> dst needs (statement of C30):
     a non-core end needs an up (local side) / down (remote side) segment to a core AS of its ISD,
     two different core ASes are connected by a core segment; if the ISD of both ends has a single
     core AS, or a core destination is the wildcard of the own ISD, the core segment is not needed
     and the request names the core AS directly.                                                *)
SplitRequests(local, localCore, dst, cores) ==
    LET sameISD == local.isd = dst.isd
        dstCore == IF IsWild(dst) THEN TRUE ELSE dst \in cores
        single == IF sameISD /\ Cardinality(CoresOf(cores, local.isd)) = 1
                    THEN CHOOSE c \in CoresOf(cores, local.isd) : TRUE ELSE [isd |-> 0, as |-> "0"]
        hasSingle == single.isd # 0
    IN CASE ~localCore /\ ~dstCore ->
              IF hasSingle THEN {Req("up", local, single), Req("down", single, dst)}
              ELSE {Req("up", local, Wild(local)), Req("core", Wild(local), Wild(dst)), Req("down", Wild(dst), dst)}
         [] ~localCore /\ dstCore ->
              IF (sameISD /\ IsWild(dst)) \/ (hasSingle /\ single = dst) THEN {Req("up", local, dst)}
              ELSE {Req("up", local, Wild(local)), Req("core", Wild(local), dst)}
         [] localCore /\ ~dstCore ->
              IF hasSingle /\ single = local THEN {Req("down", local, dst)}
              ELSE {Req("core", local, Wild(dst)), Req("down", Wild(dst), dst)}
         [] OTHER -> {Req("core", local, dst)}

\* destinations a path may end at
ValidEnd(end, dst, cores) == IF IsWild(dst) THEN end.isd = dst.isd /\ end \in cores ELSE end = dst

\* an interface is revoked at time t iff some revocation for it is still running
Revoked(revs, ia, id, t) == \E r \in revs : r.ia = ia /\ r.id = id /\ r.ts + r.ttl > t
=============================================================================
