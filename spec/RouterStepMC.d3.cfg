SPECIFICATION Spec
CONSTANTS
  Cfg <- CfgTasfound
  Kinds = {"scion"}
  Shapes <- ShapesOne
  Vias = {0, 21, 1, 2, 3, 4, 5}
  SrcDom = {"L", "F"}
  DstDom = {"F"}
  Faults = {"none"}
  L4Dom = {"udp"}
  InSideDom = {0, 1, 2, 3, 4, 5, 21}
  EgSideDom = {0, 11, 12, 13, 14, 15, 21, 22, 23, 24, 25, 999}
  PeerDom = {FALSE, TRUE}
  ExpDom = {FALSE}
  AuthDom <- AuthOK
  AlertDom <- NoAlert
  EpicDom <- EpicOK
INVARIANTS InvC06
\* no scenarios
CHECK_DEADLOCK FALSE
