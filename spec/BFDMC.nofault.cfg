SPECIFICATION Spec
CONSTANTS
  Rel = "rfc"
  Budget = 0
  Foreign = TRUE
  Track = "rfc"
  Demux = "link"
INVARIANTS TypeOK NeverAdminDown UpMeansPeerAlive KnowsPeer
PROPERTIES SilenceMeansDown Recovers StaysUp
CHECK_DEADLOCK FALSE
