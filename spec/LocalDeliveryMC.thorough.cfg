SPECIFICATION Spec
CONSTANTS
  Variant = "ip-or"
  RangeSet = "large"
INVARIANTS DeliveredToAllowedPort ServiceToRegisteredInstance
CHECK_DEADLOCK FALSE
