SPECIFICATION Spec
CONSTANTS
  MaxChains = 1
  Expiries = {2, 3}
  KeyRings = {{1, 2}}
  GraceBoundByLatest = FALSE
INVARIANTS Sound
CHECK_DEADLOCK FALSE
