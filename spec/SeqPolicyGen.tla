---------------------------- MODULE SeqPolicyGen ----------------------------
(* C47 scenario generator: SeqPolicy's state machine + the generator alphabets; every complete
   scenario is printed as <<"SCN", family, json>> (state constraint Emit), the path sets once at
   start-up (GenInit).  Kept apart from SeqPolicy.tla because TLC evaluates constant definitions
   eagerly. *)
EXTENDS SeqPolicy

(* Gen: print every complete scenario (state constraint, always TRUE) *)
Emit == /\ (Complete /\ dir = NoDir) => PrintT(<<"SCN", "struct", ToJson(stack[1])>>)
        /\ (dir # NoDir) => PrintT(<<"SCN", dir.fam, ToJson(dir.scn)>>)

(* Gen alphabets.  Values outside the path alphabet (ISD 2 vs 12, interface 2 vs 12) probe numeric
   versus textual (prefix / suffix) comparison. *)
GenIAs == {<<1, ASa>>, <<12, ASb>>, <<1, ASc>>, <<12, ASa>>}
GenIfs == {1, 12}
GenProbePaths == ProbePaths(GenIAs, GenIfs)
GenProbePredsQuick == PredsOver({0, 1, 2}, {WildAS, ASa, ASb, ASc}, {0, 1, 2})
GenProbePredsThorough == PredsOver({0, 1, 2, 12}, {WildAS, ASa, ASb, ASc, ASd}, {0, 1, 2, 12})

StructIAs == {<<1, ASa>>, <<2, ASb>>}
StructIfs == {1, 2}
GenStructPaths == PathsOver(StructIAs, StructIfs, 3)
GenStructPathsThorough == PathsOver(StructIAs, StructIfs, 4)
GenLeavesQuick == {AnyHop, P(1, WildAS, "dec", 0, 0, 0), P(0, ASb, "hexl", 1, 0, 0),
                   P(1, ASa, "dec", 2, 1, 0), P(2, ASb, "hexl", 3, 1, 2)}
GenLeavesThorough == GenLeavesQuick \cup {P(0, WildAS, "dec", 3, 0, 2)}

\* policies: ACL (possibly absent = <<>>) + sequence (possibly absent) + up to two weighted options
PolSeqs == {[t |-> "none"], [t |-> "plus", a |-> Hop(AnyHop)],
            Cat(Cat(Hop(P(1, WildAS, "dec", 0, 0, 0)), [t |-> "star", a |-> Hop(AnyHop)]), Hop(P(2, WildAS, "dec", 0, 0, 0))),
            Cat(Hop(AnyHop), Cat([t |-> "opt", a |-> Hop(P(0, ASb, "hexl", 1, 0, 0))], Hop(AnyHop)))}
PolAcls == {<<>>} \cup AclsOver({P(2, ASb, "hexl", 2, 1, 0), P(1, WildAS, "dec", 0, 0, 0)}, 1)
PolOpts == LET o == {[w |-> w, acl |-> a, seq |-> s] : w \in {0, 1}, a \in {<<>>, <<[allow |-> FALSE, p |-> P(1, ASa, "dec", 1, 0, 0)], [allow |-> TRUE, p |-> AnyHop]>>,
                                                                          <<[allow |-> FALSE, p |-> AnyHop]>>},
                                                       s \in {[t |-> "none"], Cat(Hop(AnyHop), Hop(AnyHop))}}
           IN {<<>>} \cup {<<x>> : x \in o} \cup {<<x, y>> : x \in o, y \in o}
PolScns == {[fam |-> "pol", scn |-> [acl |-> a, seq |-> s, opts |-> o]] : a \in PolAcls, s \in PolSeqs, o \in PolOpts}

DirectedQuick == ProbeScns(GenProbePredsQuick) \cup AclScns(1) \cup {d \in PolScns : Len(d.scn.opts) <= 1}
DirectedThorough == ProbeScns(GenProbePredsThorough) \cup AclScns(2) \cup PolScns

\* path sets for the driver, printed once at start-up by the Gen configs
PathSets(u) == /\ PrintT(<<"PATHS", "pred", ToJson(SetToSeq(GenProbePaths))>>)
            /\ PrintT(<<"PATHS", "struct", ToJson(SetToSeq(GenStructPaths))>>)
            /\ PrintT(<<"PATHS", "struct4", ToJson(SetToSeq(GenStructPathsThorough))>>)
GenInit == Init /\ PathSets(0)
=============================================================================
