---------------------------- MODULE SeqPolicyGen ----------------------------
(* C47 scenario generator: SeqPolicy's state machine + the generator alphabets; every complete
   scenario is printed as <<"SCN", family, json>> (state constraint Emit), the path sets once at
   start-up (GenInit).  Kept apart from SeqPolicy.tla because TLC evaluates constant definitions
   eagerly. *)
EXTENDS SeqPolicy

(* Gen: print every complete scenario (state constraint, always TRUE) *)
Emit == /\ (Complete /\ dir = NoDir) => PrintT(<<"SCN", "struct", ToJson(stack[1])>>)
        /\ (dir # NoDir) => PrintT(<<"SCN", dir.fam, ToJson(dir.scn)>>)

(* Gen alphabets.  Values outside the path alphabet (ISD 2 vs 12, interface 2 vs 12) probe numeric
   versus textual (prefix / suffix) comparison. *)
GenIAs == {<<1, ASa>>, <<12, ASb>>, <<1, ASc>>, <<12, ASa>>}
GenIfs == {1, 12}
GenProbePaths == ProbePaths(GenIAs, GenIfs)
GenProbePredsQuick == PredsOver({0, 1, 2}, {WildAS, ASa, ASb, ASc}, {0, 1, 2})
GenProbePredsThorough == PredsOver({0, 1, 2, 12}, {WildAS, ASa, ASb, ASc, ASd}, {0, 1, 2, 12})

StructIAs == {<<1, ASa>>, <<2, ASb>>}
StructIfs == {1, 2}
GenStructPaths == PathsOver(StructIAs, StructIfs, 3)
GenStructPathsThorough == PathsOver(StructIAs, StructIfs, 4)
\* ACL paths: the same AS in two ISDs, the same ISD with two ASes
GenAclPaths == PathsOver({<<1, ASa>>, <<2, ASa>>, <<2, ASb>>}, StructIfs, 3)
GenLeavesQuick == {AnyHop, P(1, WildAS, "dec", 0, 0, 0), P(0, ASb, "hexl", 1, 0, 0),
                   P(1, ASa, "dec", 2, 1, 0), P(2, ASb, "hexl", 3, 1, 2)}
GenLeavesThorough == GenLeavesQuick \cup {P(0, WildAS, "dec", 3, 0, 2)}

\* policies: ACL (possibly absent = <<>>) + sequence (possibly absent) + up to two weighted options
PolSeqs == {[t |-> "none"], [t |-> "plus", a |-> Hop(AnyHop)],
            Cat(Cat(Hop(P(1, WildAS, "dec", 0, 0, 0)), [t |-> "star", a |-> Hop(AnyHop)]), Hop(P(2, WildAS, "dec", 0, 0, 0))),
            Cat(Hop(AnyHop), Cat([t |-> "opt", a |-> Hop(P(0, ASb, "hexl", 1, 0, 0))], Hop(AnyHop)))}
PolAcls == {<<>>} \cup AclsOver({P(2, ASb, "hexl", 2, 1, 0), P(1, WildAS, "dec", 0, 0, 0)}, 1)
NoSeq == [t |-> "none"]
DenyA == <<[allow |-> FALSE, p |-> P(1, ASa, "dec", 1, 0, 0)], [allow |-> TRUE, p |-> AnyHop]>>
DenyAll == <<[allow |-> FALSE, p |-> AnyHop]>>
OptSet == {[w |-> w, acl |-> a, seq |-> s] : w \in {0, 1}, a \in {<<>>, DenyA, DenyAll}, s \in {NoSeq, Cat(Hop(AnyHop), Hop(AnyHop))}}
PolOpts == {<<>>} \cup {<<x>> : x \in OptSet} \cup {<<x, y>> : x \in OptSet, y \in OptSet}
PolScns == {[fam |-> "pol", scn |-> [acl |-> a, seq |-> s, opts |-> o]] : a \in PolAcls, s \in PolSeqs, o \in PolOpts}

\* quick: fewer ACLs, but option pairs of equal and of different weight
OptSetQuick == {[w |-> 0, acl |-> <<>>, seq |-> Cat(Hop(AnyHop), Hop(AnyHop))], [w |-> 1, acl |-> DenyA, seq |-> NoSeq],
                [w |-> 1, acl |-> <<>>, seq |-> Cat(Hop(AnyHop), Hop(AnyHop))], [w |-> 0, acl |-> DenyAll, seq |-> NoSeq],
                [w |-> 0, acl |-> DenyA, seq |-> NoSeq]}
PolOptsQuick == {<<>>} \cup {<<x>> : x \in OptSetQuick} \cup {<<x, y>> : x \in OptSetQuick, y \in OptSetQuick}
PolAclsQuick == {<<>>, <<[allow |-> FALSE, p |-> P(2, ASb, "hexl", 2, 1, 0)], [allow |-> TRUE, p |-> AnyHop]>>,
                 <<[allow |-> TRUE, p |-> P(1, WildAS, "dec", 0, 0, 0)], [allow |-> FALSE, p |-> AnyHop]>>}
PolScnsQuick == {[fam |-> "pol", scn |-> [acl |-> a, seq |-> s, opts |-> o]] : a \in PolAclsQuick, s \in PolSeqs, o \in PolOptsQuick}

\* thorough: ACLs with three specific entries (over five predicates) and policies with three options
AclPreds3 == {P(1, WildAS, "dec", 0, 0, 0), P(0, ASb, "hexl", 1, 0, 0), P(1, ASa, "dec", 2, 1, 0),
              P(2, ASb, "hexl", 3, 1, 2), P(2, ASa, "dec", 3, 0, 2)}
AclScns3 == {[fam |-> "acl", scn |-> [acl |-> a]] : a \in {x \in AclsOver(AclPreds3, 3) : Len(x) = 4}}
PolOpts3 == {<<x, y, z>> : x \in OptSetQuick, y \in OptSetQuick, z \in OptSetQuick}
PolScns3 == {[fam |-> "pol", scn |-> [acl |-> a, seq |-> s, opts |-> o]] : a \in PolAclsQuick, s \in PolSeqs, o \in PolOpts3}

\* policy inheritance: a top definition extending one or two named definitions (the second may itself extend
\* the first), each with some attributes set; ISD-AS filters on source / destination
Def(acl, seq, opts, local, remote, ext) == [acl |-> acl, seq |-> seq, opts |-> opts, local |-> local, remote |-> remote, ext |-> ext]
AllowS == <<[allow |-> TRUE, p |-> P(1, WildAS, "dec", 0, 0, 0)], [allow |-> FALSE, p |-> AnyHop]>>
DenyB1 == <<[allow |-> FALSE, p |-> P(2, ASb, "hexl", 2, 1, 0)], [allow |-> TRUE, p |-> AnyHop]>>
SeqTwo == Cat(Hop(AnyHop), Hop(AnyHop))
SeqVia == Cat(Hop(AnyHop), Cat([t |-> "plus", a |-> Hop(P(0, ASb, "hexl", 1, 0, 0))], Hop(AnyHop)))
Loc1 == <<[isd |-> 1, as |-> ASa]>>
Rem1 == <<[isd |-> 2, as |-> WildAS, rej |-> 1], [isd |-> 0, as |-> ASa, rej |-> 0]>>
Rem2 == <<[isd |-> 0, as |-> ASb, rej |-> 0]>>
Opt1 == <<[w |-> 1, acl |-> DenyA, seq |-> NoSeq], [w |-> 1, acl |-> <<>>, seq |-> SeqTwo]>>
BaseDefs == {Def(a, s, <<>>, l, r, <<>>) : a \in {<<>>, AllowS, DenyB1}, s \in {NoSeq, SeqTwo, SeqVia},
                                           l \in {<<>>, Loc1}, r \in {<<>>, Rem1}}
PoolA == {d \in BaseDefs : (Len(d.acl) = 0 \/ d.seq.t = "none") /\ (Len(d.local) = 0 \/ Len(d.remote) = 0)}
ExtScn(top, p1, p2, nested, ext) ==
    [fam |-> "ext", scn |-> [top |-> [top EXCEPT !.ext = ext],
                             pool |-> <<p1, IF nested THEN [p2 EXCEPT !.ext = <<1>>] ELSE p2>>]]
ExtTops == {Def(<<>>, NoSeq, <<>>, <<>>, <<>>, <<>>), Def(DenyB1, NoSeq, <<>>, <<>>, <<>>, <<>>),
            Def(<<>>, SeqTwo, <<>>, <<>>, Rem2, <<>>), Def(<<>>, NoSeq, Opt1, <<>>, <<>>, <<>>)}
ExtP1 == {Def(AllowS, NoSeq, <<>>, <<>>, <<>>, <<>>), Def(<<>>, SeqVia, <<>>, Loc1, <<>>, <<>>),
          Def(DenyB1, SeqTwo, <<>>, <<>>, Rem1, <<>>)}
ExtP2 == {Def(DenyB1, NoSeq, Opt1, <<>>, <<>>, <<>>), Def(<<>>, SeqTwo, <<>>, <<>>, Rem1, <<>>),
          Def(AllowS, SeqVia, <<>>, Loc1, <<>>, <<>>), Def(<<>>, NoSeq, <<>>, <<>>, <<>>, <<>>)}
ExtScnsQuick == {ExtScn(t, p1, p2, n, e) : t \in ExtTops, p1 \in ExtP1, p2 \in ExtP2, n \in BOOLEAN,
                                          e \in {<<1>>, <<2>>, <<1, 2>>, <<2, 1>>}}
ExtScnsThorough == ExtScnsQuick \cup
                   {ExtScn(t, p1, p2, n, e) : t \in ExtTops, p1 \in PoolA, p2 \in ExtP2, n \in BOOLEAN, e \in {<<1, 2>>, <<2, 1>>}}

DirectedQuick == ProbeScns(GenProbePredsQuick) \cup AclScns(1) \cup PolScnsQuick \cup ExtScnsQuick
DirectedThorough == ProbeScns(GenProbePredsThorough) \cup AclScns(2) \cup PolScns \cup AclScns3 \cup PolScns3 \cup ExtScnsThorough

\* path sets for the driver, printed once at start-up by the Gen configs
PathSets(u) == /\ PrintT(<<"PATHS", "pred", ToJson(SetToSeq(GenProbePaths))>>)
            /\ PrintT(<<"PATHS", "struct", ToJson(SetToSeq(GenStructPaths))>>)
            /\ PrintT(<<"PATHS", "acl", ToJson(SetToSeq(GenAclPaths))>>)
            /\ PrintT(<<"PATHS", "struct4", ToJson(SetToSeq(GenStructPathsThorough))>>)
GenInit == Init /\ PathSets(0)
=============================================================================
