SPECIFICATION Spec
CONSTANTS
  Procs = {1, 2}
  MaxSerial = 3
  InitLatest = 1
  MaxNotify = 2
INVARIANTS TypeOK Succession VerifiedChain
PROPERTIES NoRegress
CHECK_DEADLOCK FALSE
