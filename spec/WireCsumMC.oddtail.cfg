SPECIFICATION Spec
CONSTANTS
  ByteVals <- BytesQuick
  MaxPayload = 1
  AddrVecs <- AddrQuick
  OddTail = FALSE
INVARIANTS FlipsDetected
CHECK_DEADLOCK FALSE
