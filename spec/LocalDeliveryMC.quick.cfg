SPECIFICATION Spec
CONSTANTS
  Variant = "ip-or"
  RangeSet = "small"
INVARIANTS DeliveredToAllowedPort ServiceToRegisteredInstance
CHECK_DEADLOCK FALSE
