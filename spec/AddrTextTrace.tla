--------------------------- MODULE AddrTextTrace ---------------------------
(* Trace specification for C46.  Every line of the ndjson file is one independent case recorded from
   the real pkg/addr functions:

     fmt    a value v (kind isd/as/ia/svc/host/addr/addrport) was formatted by `fapi` with the options
            (prefix, sep, sepgiven) to `text`; `p` lists what each parsing entry point (with the same
            options) returned for that text.
     parse  a text (grammar-aware mutant `mut` of a formatted text, or a random string) was handed to
            the parsing entry points; `p` lists the results.

   Monitor (the property as stated, evaluated by TLC with the operators of AddrTextOps):
     fmt:    the text denotes v; an AS is decimal iff below 2^32; every parser returns ok(v).
             Values outside the quantifier (undefined service numbers, the none-host) only need
             "no parser returns a different value".
     parse:  ok(v)  =>  the text denotes v   (rejecting instead of returning a different value).
   Model drift (never a verdict): the text differs from the canonical format; a parser rejects a
   text that has a denotation; Go's IP grammar accepts an IP text outside RFC 4291's forms.
   Separators containing '-' or hex digits are outside the quantifier (DESIGN.md section 8).     *)
EXTENDS AddrTextOps, TLC, Json

Trace == ndJsonDeserialize("trace.ndjson")

VARIABLE l
vars == <<l>>
R == Trace[l]

Bad(key) == PrintT(<<"VERIF-BAD", l, key>>)
Drift(key) == PrintT(<<"VERIF-DRIFT", l, key>>)

OptClass == (IF R.prefix THEN "prefix" ELSE "plain") \o "," \o
            (IF ~R.sepgiven THEN "sep-default" ELSE IF R.sep = <<>> THEN "sep-empty"
             ELSE IF R.sep = Colon THEN "sep-colon" ELSE "sep-custom")

Canonical(kind, v, prefix, sep) ==
    CASE kind = "isd" -> FormatISD(v, prefix)
      [] kind = "as" -> FormatAS(v, prefix, sep)
      [] kind = "ia" -> FormatIA(v, prefix, sep)
      [] kind = "svc" -> FormatSVC(v)
      [] OTHER -> <<>>

FormOK == CASE R.kind = "as" -> ASFormOK(R.v, R.text, R.prefix)
            [] R.kind = "ia" -> LET parts == Split(R.text, Dash) IN
                                Len(parts) = 2 /\ ASFormOK(Drop(R.v, 1), parts[2], R.prefix)
            [] OTHER -> TRUE

FmtCheck ==
    LET d == Denote(R.kind, R.text, R.prefix, R.sep)
        k == "fmt:" \o R.kind \o ":" \o R.fapi \o ":" \o OptClass
        n == Len(R.p) IN
    IF ~SepAdmissible(EffSep(R.sep)) THEN TRUE
    ELSE IF ~InDomain(R.kind, R.v)
      THEN \A i \in 1..n : (R.p[i].ok /\ R.p[i].v # R.v) =>
               Bad(k \o ":" \o R.p[i].api \o ":outside-domain-parses-to-other-value")
    ELSE IF d # R.v THEN Bad(k \o ":text-denotes-" \o (IF d = Undef THEN "nothing" ELSE "other-value"))
    ELSE IF ~FormOK THEN Bad(k \o ":decimal-iff-below-2^32")
    ELSE /\ \A i \in 1..n :
              IF ~R.p[i].ok THEN Bad(k \o ":" \o R.p[i].api \o ":parse-rejects")
              ELSE IF R.p[i].v # R.v THEN Bad(k \o ":" \o R.p[i].api \o ":parse-returns-other-value")
              ELSE TRUE
         /\ (R.kind \in {"isd", "as", "ia", "svc"} /\ R.text # Canonical(R.kind, R.v, R.prefix, R.sep))
               => Drift(k \o ":not-canonical")

\* the text was accepted as an IP address by Go's grammar only (everything else denotes as returned)
IPOnly(kind, t, v) ==
    CASE kind = "host" -> v[1] \in {4, 6} /\ DenoteHost(t) = Undef
      [] kind = "addr" -> LET p == AddrParts(t) IN
                          p.shape /\ p.ia = SubSeq(v, 1, 4) /\ v[5] \in {4, 6} /\ p.host = Undef
      [] kind = "addrport" -> LET pp == PortParts(t)
                                  p == AddrParts(pp.inner) IN
                              pp.shape /\ pp.port = v[1] /\ p.shape /\ p.ia = SubSeq(v, 2, 5)
                                  /\ v[6] \in {4, 6} /\ p.host = Undef
      [] OTHER -> FALSE

ParseCheck ==
    LET d == Denote(R.kind, R.text, R.prefix, R.sep)
        k == "parse:" \o R.kind \o ":" \o OptClass \o ":" \o R.mut IN
    IF ~SepAdmissible(EffSep(R.sep)) THEN TRUE
    ELSE \A i \in 1..Len(R.p) :
           LET q == R.p[i] IN
           IF q.ok /\ q.v # d
             THEN IF d = Undef /\ IPOnly(R.kind, R.text, q.v) THEN Drift(k \o ":" \o q.api \o ":ip-grammar-wider")
                  ELSE Bad(k \o ":" \o q.api \o (IF d = Undef THEN ":accepts-malformed" ELSE ":returns-other-value"))
           ELSE IF ~q.ok /\ d # Undef THEN Drift(k \o ":" \o q.api \o ":rejects-denotable")
           ELSE TRUE

Init == l = 1
Step == /\ l <= Len(Trace)
        /\ l' = l + 1
        /\ CASE R.ev = "fmt" -> FmtCheck
             [] R.ev = "parse" -> ParseCheck
             [] R.ev = "reset" -> TRUE
             [] R.ev = "panic" -> Bad("panic:" \o R.kind \o ":" \o R.api)
             [] OTHER -> Bad("no-spec-action:" \o R.ev)
Done == /\ l = Len(Trace) + 1
        /\ PrintT(<<"VERIF-DONE", Len(Trace)>>)
        /\ UNCHANGED vars
Next == Step \/ Done
Spec == Init /\ [][Next]_vars
=============================================================================
