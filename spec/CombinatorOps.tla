--------------------------- MODULE CombinatorOps ---------------------------
(* Path combination BY DEFINITION (C28, C29; reused by PathLookup for C30).

   A path segment (as registered by beaconing, always in construction order) is a record
       [ts, segid, ents]        ts: creation time (s), segid: initial SegID accumulator
   ents is a sequence of AS entries
       [ia, mtu, inmtu, in, eg, exp, mac, sig, peers]
            ia: ISD-AS; mtu: AS-internal MTU; inmtu: MTU of the link the beacon came in on;
            in/eg: construction ingress/egress interface; exp: relative expiry (units);
            mac: the hop field MAC; sig: the 16 bits of it that enter the SegID accumulator
   and peers a sequence of peer entries
       [ia, rif, mtu, in, eg, exp, mac]
            ia: the peer AS, rif: its interface, mtu: MTU of the peering link, in: local peering
            interface, eg = the entry's egress.

   A path uses at most one up, one core and one down segment, in that order.  Of every segment it
   uses a PIECE [k, i, c, p]: kind k, index i into the supplied list, the entries c..N of the
   segment (c = 1: whole segment; c > 1: shortcut / on-path), and p > 0 iff the piece is left
   (up) or entered (down) over peer entry p of entry c.  Pieces are joined at a common AS or at a
   peering link that both segments announce.  Nothing here searches a graph: the set of paths
   is written down as the set of admissible choices.                                            *)
EXTENDS Integers, Sequences, FiniteSets, Bitwise

N(s) == Len(s.ents)
FirstIA(s) == s.ents[1].ia
LastIA(s) == s.ents[N(s)].ia

MinOf(S) == CHOOSE x \in S : \A y \in S : x <= y
MaxOf(S) == CHOOSE x \in S : \A y \in S : x >= y

RECURSIVE Concat(_)
Concat(ss) == IF ss = <<>> THEN <<>> ELSE Head(ss) \o Concat(Tail(ss))

\* TLC evaluates [i \in S |-> e] lazily (the body is re-evaluated at every application); "\o <<>>"
\* turns such a function into an explicit tuple, so that every element is computed once.
Strict(f) == f \o <<>>
Rev(s) == Strict([i \in 1..Len(s) |-> s[Len(s) + 1 - i]])

(* SegID accumulator in front of entry k (1-based); Beta(s, N+1) is the value after the last. *)
RECURSIVE Beta(_, _)
Beta(s, k) == IF k = 1 THEN s.segid ELSE Beta(s, k - 1) ^^ s.ents[k - 1].sig

ExpUnitMs == 337500            \* 24 h / 256
HopTTLms(exp) == (exp + 1) * ExpUnitMs

-----------------------------------------------------------------------------
(* Pieces. *)
SegOf(pc, ups, cores, downs) == CASE pc.k = "up" -> ups[pc.i] [] pc.k = "core" -> cores[pc.i]
                                   [] pc.k = "down" -> downs[pc.i]

\* the hop field used for entry k of piece pc on segment s
HopAt(s, pc, k) ==
    LET e == s.ents[k] IN
    IF k = pc.c /\ pc.p # 0
      THEN LET pe == e.peers[pc.p] IN [in |-> pe.in, eg |-> pe.eg, exp |-> pe.exp, mac |-> pe.mac]
      ELSE [in |-> e.in, eg |-> e.eg, exp |-> e.exp, mac |-> e.mac]

\* entries c..N in construction order
ConsHops(s, pc) == Strict([j \in 1..(N(s) - pc.c + 1) |-> HopAt(s, pc, pc.c + j - 1)])

PieceHops(s, pc) == IF pc.k = "down" THEN ConsHops(s, pc) ELSE Rev(ConsHops(s, pc))

\* interfaces traversed, construction order: the ingress interface of the cut entry is traversed
\* only if it is the peering interface; interface 0 is "no interface"
ConsIntfs(s, pc) ==
    Concat([j \in 1..(N(s) - pc.c + 1) |->
        LET k == pc.c + j - 1
            h == HopAt(s, pc, k)
            ia == s.ents[k].ia IN
        (IF h.in # 0 /\ (k > pc.c \/ pc.p # 0) THEN <<[ia |-> ia, id |-> h.in]>> ELSE <<>>) \o
        (IF h.eg # 0 THEN <<[ia |-> ia, id |-> h.eg]>> ELSE <<>>)])

PieceIntfs(s, pc) == IF pc.k = "down" THEN ConsIntfs(s, pc) ELSE Rev(ConsIntfs(s, pc))

\* the info field the piece starts with: hops are verified against the accumulator of their own
\* entry; a peer hop is verified against the accumulator of the NEXT entry (it chains to its own
\* AS's regular hop like a child would)
PieceInfo(s, pc) ==
    [cd |-> pc.k = "down", peer |-> pc.p # 0, ts |-> s.ts,
     segid |-> IF pc.k = "down" THEN (IF pc.p # 0 THEN Beta(s, pc.c + 1) ELSE Beta(s, pc.c))
               ELSE (IF pc.c = N(s) /\ pc.p # 0 THEN Beta(s, N(s) + 1) ELSE Beta(s, N(s)))]

\* MTU: every AS on the piece, every link between consecutive entries of the piece, the peering link
PieceMtus(s, pc) ==
    {s.ents[k].mtu : k \in pc.c..N(s)} \cup {s.ents[k].inmtu : k \in (pc.c + 1)..N(s)} \cup
    (IF pc.p # 0 THEN {s.ents[pc.c].peers[pc.p].mtu} ELSE {})

\* expiry in ms: creation time + the smallest hop field lifetime among the hop fields used
PieceExpMs(s, pc) ==
    s.ts * 1000 + MinOf({HopTTLms(ConsHops(s, pc)[j].exp) : j \in 1..(N(s) - pc.c + 1)})

-----------------------------------------------------------------------------
(* Join points: an AS, or a peering link (as seen from the up side). *)
UpEnd(s, pc) ==
    IF pc.p = 0 THEN <<"as", s.ents[pc.c].ia>>
    ELSE LET pe == s.ents[pc.c].peers[pc.p] IN <<"peer", s.ents[pc.c].ia, pe.in, pe.ia, pe.rif>>

DownStart(s, pc) ==
    IF pc.p = 0 THEN <<"as", s.ents[pc.c].ia>>
    ELSE LET pe == s.ents[pc.c].peers[pc.p] IN <<"peer", pe.ia, pe.rif, s.ents[pc.c].ia, pe.in>>

\* all ways to cut segment i of a list: a non-peer cut uses at least one link (c < N)
Cuts(kind, segs, i) ==
    UNION {{[k |-> kind, i |-> i, c |-> c, p |-> p] :
               p \in {q \in 0..Len(segs[i].ents[c].peers) : q # 0 \/ c < N(segs[i])}} :
           c \in 1..N(segs[i])}

UpPieces(src, ups) == UNION {Cuts("up", ups, i) : i \in {j \in DOMAIN ups : LastIA(ups[j]) = src}}
DownPieces(dst, downs) == UNION {Cuts("down", downs, i) : i \in {j \in DOMAIN downs : LastIA(downs[j]) = dst}}
CorePieces(cores) == {[k |-> "core", i |-> i, c |-> 1, p |-> 0] : i \in {j \in DOMAIN cores : N(cores[j]) > 1}}

(* ALL admissible choices: sequences of 1..3 pieces.  A core segment is travelled from its last
   entry to its first (against construction direction), like an up segment.                    *)
PathChoices(src, dst, ups, cores, downs) ==
    LET U == UpPieces(src, ups)
        D == DownPieces(dst, downs)
        C == CorePieces(cores)
        ue(u) == UpEnd(ups[u.i], u)
        ds(d) == DownStart(downs[d.i], d)
        cs(c) == <<"as", LastIA(cores[c.i])>>      \* where a core piece starts
        ce(c) == <<"as", FirstIA(cores[c.i])>>     \* where it ends
        S == <<"as", src>>
        T == <<"as", dst>>
    IN  {<<u>> : u \in {x \in U : ue(x) = T}}
   \cup {<<c>> : c \in {x \in C : cs(x) = S /\ ce(x) = T}}
   \cup {<<d>> : d \in {x \in D : ds(x) = S}}
   \cup {<<uc[1], uc[2]>> : uc \in {x \in U \X C : ue(x[1]) = cs(x[2]) /\ ce(x[2]) = T}}
   \cup {<<ud[1], ud[2]>> : ud \in {x \in U \X D : ue(x[1]) = ds(x[2])}}
   \cup {<<cd[1], cd[2]>> : cd \in {x \in C \X D : cs(x[1]) = S /\ ce(x[1]) = ds(x[2])}}
   \cup UNION {{<<uc[1], uc[2], d>> : d \in {y \in D : ce(uc[2]) = ds(y)}} :
                  uc \in {x \in U \X C : ue(x[1]) = cs(x[2])}}

-----------------------------------------------------------------------------
(* The path a choice denotes. *)
\* everything a piece contributes (hop list evaluated once)
PieceRec(s, pc) ==
    LET ch == ConsHops(s, pc)
        ci == ConsIntfs(s, pc)
        down == pc.k = "down" IN
    [hops |-> IF down THEN ch ELSE Rev(ch),
     intfs |-> IF down THEN ci ELSE Rev(ci),
     info |-> PieceInfo(s, pc),
     mtus |-> PieceMtus(s, pc),
     exp |-> s.ts * 1000 + MinOf({HopTTLms(ch[j].exp) : j \in 1..Len(ch)}),
     n |-> Len(ch)]

PathOf(ch, ups, cores, downs) ==
    LET n == Len(ch)
        pr == Strict([j \in 1..n |-> PieceRec(SegOf(ch[j], ups, cores, downs), ch[j])])
        intfs == Concat([j \in 1..n |-> pr[j].intfs]) IN
    [seglen |-> Strict([j \in 1..3 |-> IF j <= n THEN pr[j].n ELSE 0]),
     infos |-> Strict([j \in 1..n |-> pr[j].info]),
     hops |-> Concat([j \in 1..n |-> pr[j].hops]),
     intfs |-> intfs,
     mtu |-> MinOf(UNION {pr[j].mtus : j \in 1..n}),
     exp |-> MinOf({pr[j].exp : j \in 1..n}),
     w |-> Len(intfs) \div 2]

\* A combination exists as a SCION path only if it fits the path header: at most hopLimit hop fields
\* in total (64) and at most segLimit per segment (63: the SegLen fields have 6 bits).
Representable(q, hopLimit, segLimit) ==
    Len(q.hops) <= hopLimit /\ \A j \in 1..3 : q.seglen[j] <= segLimit
MaxPathHops == 64
MaxSegHops == 63

\* number of interfaces of the busiest AS on an interface list: an AS that is passed through once
\* contributes 2; "passes no AS more than twice" is "no AS owns more than two of the interfaces"
MaxVisits(intfs) ==
    IF intfs = <<>> THEN 0
    ELSE MaxOf({Cardinality({j \in 1..Len(intfs) : intfs[j].ia = intfs[i].ia}) : i \in 1..Len(intfs)})

Loopy(intfs) == MaxVisits(intfs) > 2

\* describes a choice for failure keys: e.g. "up(shortcut)+down(shortcut)", "up(peer@leaf)+down(peer)"
PieceShape(pc, s) ==
    pc.k \o (IF pc.p # 0 THEN (IF pc.c = N(s) THEN "(peer@leaf)" ELSE IF pc.c = 1 THEN "(peer@first)" ELSE "(peer)")
             ELSE IF pc.c = 1 THEN "" ELSE IF pc.k = "core" THEN "" ELSE "(shortcut)")
ChoiceShape(ch, ups, cores, downs) ==
    LET sh(j) == PieceShape(ch[j], SegOf(ch[j], ups, cores, downs)) IN
    IF Len(ch) = 1 THEN sh(1) ELSE IF Len(ch) = 2 THEN sh(1) \o "+" \o sh(2)
    ELSE sh(1) \o "+" \o sh(2) \o "+" \o sh(3)
=============================================================================
