SPECIFICATION Spec
CONSTANTS
  D = 3
  MaxT = 8
  Lookup = "inclusive"
INVARIANTS AnswerInEpoch AnswerIsEpochKey StoresHoldWholeEpochs
CHECK_DEADLOCK FALSE
