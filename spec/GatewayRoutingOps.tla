------------------------- MODULE GatewayRoutingOps -------------------------
(* Pure operators for C42 (gateway/dataplane routing table + IP forwarder, gateway/routing policies).

   Addresses live in an abstract W-bit space per family (4 | 6); the driver embeds family 4 as
   10.0.0.0/(32-W) and family 6 as 2001:db8::/(128-W).
     prefix   [fam, v, len]    len in 0..W, v the (possibly unmasked) base value; len = -(32-W) / -(128-W)
                               is the default route of the family (real mask size 0)
     packet   [fam, dst, tos, frag]   frag: 0 none, 1 more-fragments flag, 2 fragment offset # 0 (IPv4);
                               IPv6: 3 = carries a fragment extension header, 4 = hop-by-hop + destination options
                               (the statement only drops IPv4 fragments: IPv6 packets are routed whatever
                               extension headers they carry)
     class    [m, sess]        m: "true" | "false" | "tos" (IPv4 TOS = 184); sess: 1 iff a session is set
     entry    [p |-> prefix, cls |-> <<class, ...>>]
     table    <<entry, ...>>   distinct prefixes; the session of class j of entry i has id 10*i + j
   Policy:
     iam      [isd, as, neg]   ISD-AS matcher, 0 = wildcard, as is an abstract AS id (0 wildcard)
     rule     [act: "accept"|"reject"|"advertise", from: iam, to: iam, nets: <<prefix..>>, neg: 0|1]
     policy   [rules: <<rule..>>, def: 0|1]   def = 1 iff the default action is accept            *)
EXTENDS Integers, Sequences, FiniteSets

Pow2(n) == CASE n = 0 -> 1 [] n = 1 -> 2 [] n = 2 -> 4 [] n = 3 -> 8 [] n = 4 -> 16
             [] n = 5 -> 32 [] n = 6 -> 64 [] n = 7 -> 128 [] OTHER -> 256

\* real mask size of a prefix; len = -(32-W) resp. -(128-W) is the default route 0.0.0.0/0 resp. ::/0
MaskBits(p, W) == p.len + (IF p.fam = 4 THEN 32 - W ELSE 128 - W)
IsDefault(p, W) == MaskBits(p, W) = 0

\* a < 0 stands for an address outside the embedded space: only a default route contains it
PContains(p, fam, a, W) ==
    /\ p.fam = fam
    /\ \/ IsDefault(p, W)
       \/ (a >= 0 /\ p.len >= 0 /\ (a \div Pow2(W - p.len)) = (p.v \div Pow2(W - p.len)))

-----------------------------------------------------------------------------
(* Routing table *)
ClassEval(m, pkt) == CASE m = "true" -> TRUE
                       [] m = "false" -> FALSE
                       [] m = "tos" -> pkt.fam = 4 /\ pkt.tos = 184

\* session id of the first matching class of entry i (0: none matches or the class has no session)
EntryRoute(table, i, pkt) ==
    LET cls == table[i].cls
        hit == {j \in 1..Len(cls) : ClassEval(cls[j].m, pkt)} IN
    IF hit = {} THEN 0
    ELSE LET j == CHOOSE x \in hit : \A y \in hit : x <= y IN
         IF cls[j].sess = 1 THEN 10 * i + j ELSE 0

\* the property: most specific prefix containing the destination, first matching class; 0 = dropped
Route(table, pkt, W) ==
    LET cands == {i \in 1..Len(table) : PContains(table[i].p, pkt.fam, pkt.dst, W)} IN
    IF pkt.fam = 4 /\ pkt.frag # 0 THEN 0
    ELSE IF cands = {} THEN 0
    ELSE LET best == CHOOSE i \in cands : \A k \in cands : table[k].p.len <= table[i].p.len IN
         EntryRoute(table, best, pkt)

DistinctPrefixes(table, W) ==
    \A i, k \in 1..Len(table) :
        i # k => ~(table[i].p.fam = table[k].p.fam /\ table[i].p.len = table[k].p.len
                   /\ PContains(table[i].p, table[k].p.fam, table[k].p.v, W))

-----------------------------------------------------------------------------
(* Routing policy *)
IAMatch(m, ia) ==
    LET pos == (m.isd = 0 \/ m.isd = ia.isd) /\ (m.as = 0 \/ m.as = ia.as) IN
    IF m.neg = 1 THEN ~pos ELSE pos

NetMatch(r, fam, a, W) ==
    LET in == \E k \in 1..Len(r.nets) : PContains(r.nets[k], fam, a, W) IN
    IF r.neg = 1 THEN ~in ELSE in

RuleApplies(r, from, to) == IAMatch(r.from, from) /\ IAMatch(r.to, to)

\* decision for one address: the first accept / reject rule matching the IA pair and the address
Accepts(pol, from, to, fam, a, W) ==
    LET hit == {i \in 1..Len(pol.rules) :
                  /\ pol.rules[i].act \in {"accept", "reject"}
                  /\ RuleApplies(pol.rules[i], from, to)
                  /\ NetMatch(pol.rules[i], fam, a, W)} IN
    IF hit = {} THEN pol.def = 1
    ELSE pol.rules[CHOOSE x \in hit : \A y \in hit : x <= y].act = "accept"

\* Match: the addresses of the query prefix that the policy accepts
MatchSet(pol, from, to, q, W) ==
    {a \in 0..(Pow2(W) - 1) : PContains(q, q.fam, a, W) /\ Accepts(pol, from, to, q.fam, a, W)}

\* advertised prefixes: the networks of the non-negated advertise rules matching the pair, in order
RECURSIVE AdvertiseFrom(_, _, _, _)
AdvertiseFrom(pol, from, to, i) ==
    IF i > Len(pol.rules) THEN <<>>
    ELSE LET r == pol.rules[i] IN
         (IF r.act = "advertise" /\ RuleApplies(r, from, to) /\ r.neg = 0 THEN r.nets ELSE <<>>)
         \o AdvertiseFrom(pol, from, to, i + 1)
Advertise(pol, from, to) == AdvertiseFrom(pol, from, to, 1)

\* the backward construction used by the code (policy.go: Match): start from the default, apply
\* the rules from last to first, adding / removing their networks
RECURSIVE BackwardSet(_, _, _, _, _, _, _)
BackwardSet(pol, from, to, fam, W, i, acc) ==
    IF i = 0 THEN acc
    ELSE LET r == pol.rules[i]
             net == {a \in 0..(Pow2(W) - 1) : NetMatch(r, fam, a, W)} IN
         BackwardSet(pol, from, to, fam, W, i - 1,
            IF ~RuleApplies(r, from, to) THEN acc
            ELSE IF r.act = "accept" THEN acc \cup net
            ELSE IF r.act = "reject" THEN acc \ net
            ELSE acc)
CodeShapedMatch(pol, from, to, q, W) ==
    LET all == 0..(Pow2(W) - 1)
        allowed == BackwardSet(pol, from, to, q.fam, W, Len(pol.rules), IF pol.def = 1 THEN all ELSE {}) IN
    {a \in allowed : PContains(q, q.fam, a, W)}
=============================================================================
