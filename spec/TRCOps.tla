------------------------------- MODULE TRCOps -------------------------------
(* Pure operators for TRC payloads and TRC updates (C33, C32): the single source of truth shared by
   the exhaustive models (TRCPayload.tla, TRCUpdate.tla) and the trace specifications.

   Written from the property statements and doc/cryptography/trc.rst, NOT from the code.

   Abstract payload:
     [ver, isd, base, serial, nb, na, grace, reset, votes, quorum, core, auth, desc, certs]
       ver     TRC format version as the API presents it (1 is the only supported one)
       isd     ISD number, 0 = wildcard;  base, serial: numbers;  nb, na: validity (abstract instants)
       grace   grace period (abstract duration);  reset: the noTrustReset flag
       votes   sequence of 0-based indices into the predecessor's certificate sequence
       core, auth   sequences of abstract AS numbers, 0 = wildcard
       certs   sequence of certificates
     certificate: [cls, subj, iss, sn, isd, nb, na, ver]
       cls   "sens" | "reg" | "root" are the three classifiable kinds, everything else (a CA or AS
             certificate, a certificate with both voting usages, ...) is not classifiable
       subj, iss   identifiers of the common names of subject and issuer; isd: ISD of the ISD-AS
             attribute in both names, 0 = no ISD-AS attribute
       sn    serial number;  nb, na: validity;  ver: distinguishes re-issued certificates (other key)
*)
EXTENDS Integers, Sequences, FiniteSets

Range(s) == {s[i] : i \in 1..Len(s)}
NoDup(s) == \A i, j \in 1..Len(s) : i # j => s[i] # s[j]
Idx(certs, cls) == {i \in 1..Len(certs) : certs[i].cls = cls}
TRCClasses == {"sens", "reg", "root"}
SubjDN(c) == <<c.subj, c.isd>>
IssDN(c) == <<c.iss, c.isd>>

-----------------------------------------------------------------------------
(* C33: payload validity.  Rule(p) names the first rule of the statement that p violates ("" if
   none); the order is only used to name monitor keys.                                        *)
ASListRule(l, name) ==
    IF Len(l) = 0 THEN name \o "-empty"
    ELSE IF 0 \in Range(l) THEN name \o "-wildcard"
    ELSE IF ~NoDup(l) THEN name \o "-duplicate"
    ELSE ""

CertRule(p) ==
    LET cs == p.certs
        n == Len(cs) IN
    IF \E i \in 1..n : cs[i].cls \notin TRCClasses THEN "cert-unclassifiable"
    ELSE IF \E i \in 1..n : cs[i].isd # 0 /\ cs[i].isd # p.isd THEN "cert-other-isd"
    ELSE IF \E i \in 1..n : ~(cs[i].nb <= p.nb /\ p.na <= cs[i].na) THEN "cert-validity-not-covering"
    \* (formulated with cardinalities: linear instead of quadratic for the 513-certificate payload)
    ELSE IF Cardinality({<<IssDN(cs[i]), cs[i].sn>> : i \in 1..n}) # n
        THEN "cert-duplicate-issuer-serial"
    ELSE IF \E cl \in TRCClasses : Cardinality({SubjDN(cs[i]) : i \in Idx(cs, cl)}) # Cardinality(Idx(cs, cl))
        THEN "cert-duplicate-subject-in-class"
    ELSE ""

Rule(p) ==
    IF p.ver # 1 THEN "version"
    ELSE IF p.isd = 0 THEN "isd-wildcard"
    ELSE IF p.base < 1 THEN "base<1"
    ELSE IF p.base > p.serial THEN "base>serial"
    ELSE IF ~(p.nb < p.na) THEN "validity-empty"
    ELSE IF p.base = p.serial /\ p.grace # 0 THEN "base-trc-grace"
    ELSE IF p.base = p.serial /\ Len(p.votes) # 0 THEN "base-trc-votes"
    ELSE IF p.quorum < 0 THEN "quorum-negative"
    ELSE IF p.quorum = 0 THEN "quorum-zero"
    ELSE IF p.quorum > 255 THEN "quorum>255"
    ELSE IF ASListRule(p.core, "core") # "" THEN ASListRule(p.core, "core")
    ELSE IF ASListRule(p.auth, "auth") # "" THEN ASListRule(p.auth, "auth")
    ELSE IF CertRule(p) # "" THEN CertRule(p)
    ELSE IF p.quorum > Cardinality(Idx(p.certs, "sens")) THEN "quorum>sensitive-voters"
    ELSE IF p.quorum > Cardinality(Idx(p.certs, "reg")) THEN "quorum>regular-voters"
    ELSE ""

PayloadValid(p) == Rule(p) = ""

(* The conjunction of the statement, rule by rule, for the in-model cross-check against Rule. *)
PayloadValidConj(p) ==
    /\ p.ver = 1
    /\ p.isd # 0 /\ 1 <= p.base /\ p.base <= p.serial
    /\ p.nb < p.na
    /\ (p.base = p.serial => p.grace = 0 /\ p.votes = <<>>)
    /\ 1 <= p.quorum /\ p.quorum <= 255
    /\ p.quorum <= Cardinality(Idx(p.certs, "sens")) /\ p.quorum <= Cardinality(Idx(p.certs, "reg"))
    /\ \A l \in {p.core, p.auth} : Len(l) > 0 /\ 0 \notin Range(l) /\ NoDup(l)
    /\ \A i \in 1..Len(p.certs) :
          LET c == p.certs[i] IN
          /\ c.cls \in TRCClasses
          /\ c.isd \in {0, p.isd}
          /\ c.nb <= p.nb /\ p.na <= c.na
          /\ \A j \in 1..Len(p.certs) : j # i =>
                /\ ~(IssDN(c) = IssDN(p.certs[j]) /\ c.sn = p.certs[j].sn)
                /\ ~(c.cls = p.certs[j].cls /\ SubjDN(c) = SubjDN(p.certs[j]))

(* Shape of TRC.Validate() in pkg/scrypto/cppki/trc.go (order of checks as in the code), used for
   the in-model check "what the code's decision procedure accepts is valid".  QuorumLowerBound
   selects the design (TRUE: quorum < 1 is refused) or the shape of the code as found
   (FALSE: only quorum = 0 is refused).                                                        *)
CodeValidate(p, QuorumLowerBound) ==
    LET cs == p.certs
        n == Len(cs) IN
    /\ p.ver = 1
    /\ p.isd # 0 /\ ~(p.base > p.serial) /\ p.base # 0
    /\ p.na > p.nb
    /\ ~(p.base = p.serial /\ p.grace # 0)
    /\ ~(p.base = p.serial /\ Len(p.votes) # 0)
    /\ ~((IF QuorumLowerBound THEN p.quorum <= 0 ELSE p.quorum = 0) \/ p.quorum > 255)
    /\ ASListRule(p.core, "c") = "" /\ ASListRule(p.auth, "a") = ""
    /\ \A i \in 1..n : cs[i].cls \in TRCClasses
    /\ ~(Cardinality(Idx(cs, "sens")) < p.quorum)
    /\ ~(Cardinality(Idx(cs, "reg")) < p.quorum)
    /\ \A i \in 1..n : ~(cs[i].isd # 0 /\ cs[i].isd # p.isd) /\ cs[i].nb <= p.nb /\ p.na <= cs[i].na
    /\ \A i \in 1..n : \A j \in (i+1)..n : ~(cs[i].sn = cs[j].sn /\ IssDN(cs[i]) = IssDN(cs[j]))
    /\ \A cl \in TRCClasses : \A i, j \in Idx(cs, cl) : i # j => SubjDN(cs[i]) # SubjDN(cs[j])

-----------------------------------------------------------------------------
(* C32: TRC updates.  A case is [hp, pred, next, sis]:
     hp    TRUE iff a predecessor is given (pred is then a trusted, valid payload)
     pred, next   payloads with certificates expanded (records)
     sis   the signer infos attached to next: a sequence of [c, kind] where c is a certificate
           record and kind = "good" for a signer info whose identifier names c and whose signature was
           made with c's key over next's payload; every other kind is some forged / broken signer info.
   Written from the statement; the weakest reading is used wherever the statement leaves room.  *)
CertSet(p, cls) == {p.certs[i] : i \in Idx(p.certs, cls)}
Subjects(p, cls) == {SubjDN(c) : c \in CertSet(p, cls)}
Signed(sis, c) == \E i \in 1..Len(sis) : sis[i].c = c /\ sis[i].kind = "good"
VoteCert(pred, v) == pred.certs[v + 1]
InRange(pred, v) == v >= 0 /\ v < Len(pred.certs)

\* distinct certificates of class cls of the predecessor that are listed in votes and signed
Voters(pred, next, sis, cls) ==
    {c \in CertSet(pred, cls) : /\ \E k \in 1..Len(next.votes) :
                                        InRange(pred, next.votes[k]) /\ VoteCert(pred, next.votes[k]) = c
                                 /\ Signed(sis, c)}

\* voting certificates of next that the predecessor does not contain in the same class
NewVoting(pred, next) == (CertSet(next, "sens") \ CertSet(pred, "sens")) \cup
                         (CertSet(next, "reg") \ CertSet(pred, "reg"))

\* certificates of class cls of pred whose subject carries a different certificate in next
Replaced(pred, next, cls) ==
    {c \in CertSet(pred, cls) : c \notin CertSet(next, cls) /\ SubjDN(c) \in Subjects(next, cls)}

SensitiveOK(pred, next, sis) == Cardinality(Voters(pred, next, sis, "sens")) >= pred.quorum

RegularOK(pred, next, sis) ==
    /\ Cardinality(Voters(pred, next, sis, "reg")) >= pred.quorum
    /\ next.quorum = pred.quorum /\ next.core = pred.core /\ next.auth = pred.auth
    /\ CertSet(next, "sens") = CertSet(pred, "sens")
    /\ Subjects(next, "root") = Subjects(pred, "root")
    /\ Subjects(next, "reg") = Subjects(pred, "reg")
    /\ Replaced(pred, next, "reg") \subseteq Voters(pred, next, sis, "reg")
    /\ \A c \in Replaced(pred, next, "root") : Signed(sis, c)

UpdateRule(pred, next, sis) ==
    IF next.isd # pred.isd THEN "other-isd"
    ELSE IF next.base # pred.base THEN "other-base"
    ELSE IF next.serial # pred.serial + 1 THEN "serial-not-next"
    ELSE IF next.reset # pred.reset THEN "trust-reset-flag-changed"
    ELSE IF ~PayloadValid(next) THEN "payload:" \o Rule(next)
    ELSE IF \E c \in NewVoting(pred, next) : ~Signed(sis, c) THEN "new-voter-unsigned"
    ELSE IF ~SensitiveOK(pred, next, sis) /\ ~RegularOK(pred, next, sis) THEN
        IF Cardinality(Voters(pred, next, sis, "reg")) >= pred.quorum
          THEN "regular-votes-on-sensitive-change"
          ELSE "no-quorum-of-signed-voters"
    ELSE ""

BaseRule(next, sis) ==
    IF next.base # next.serial THEN "not-a-base-trc"
    ELSE IF ~PayloadValid(next) THEN "payload:" \o Rule(next)
    ELSE IF \E c \in CertSet(next, "sens") \cup CertSet(next, "reg") : ~Signed(sis, c) THEN "base-voter-unsigned"
    ELSE ""

(* acceptance of next: as successor of pred (hp), or as a base TRC without predecessor *)
AcceptRule(hp, pred, next, sis) ==
    IF hp THEN (IF next.base = next.serial THEN "base-trc-as-update" ELSE UpdateRule(pred, next, sis))
    ELSE BaseRule(next, sis)
AcceptOK(hp, pred, next, sis) == AcceptRule(hp, pred, next, sis) = ""

(* ---- shape of SignedTRC.Verify / TRC.ValidateUpdate / verifyAll in the code (drift / in-model) ---- *)
SidMatch(a, b) == IssDN(a) = IssDN(b) /\ a.sn = b.sn       \* SignerInfo.FindCertificate: issuer + serial
\* verifyAll(certs): every signer info that names a certificate of the list must verify with that
\* certificate's key; afterwards every element of the list must have been seen (a list with
\* duplicates can never be seen completely)
CodeVerifyAllSet(S, sis) ==
    /\ \A i \in 1..Len(sis) : \A c \in S : SidMatch(sis[i].c, c) => sis[i].kind = "good" /\ sis[i].c = c
    /\ \A c \in S : \E i \in 1..Len(sis) : SidMatch(sis[i].c, c)
CodeVerifyAll(list, sis) == NoDup(list) /\ CodeVerifyAllSet(Range(list), sis)
FindBySubject(p, cls, c) == {d \in CertSet(p, cls) : SubjDN(d) = SubjDN(c)}

CodeNewVoters(pred, next) ==
    {c \in CertSet(next, "sens") : c \notin CertSet(pred, "sens")} \cup
    {c \in CertSet(next, "reg") : c \notin CertSet(pred, "reg")}

CodeAccept(hp, pred, next, sis, Q) ==
    IF next.base = next.serial THEN
        /\ ~hp
        /\ CodeValidate(next, Q)
        /\ CodeVerifyAllSet(CertSet(next, "sens") \cup CertSet(next, "reg"), sis)
    ELSE
        /\ CodeValidate(next, Q)
        /\ hp
        /\ pred.isd = next.isd /\ pred.base = next.base /\ pred.serial + 1 = next.serial
        /\ pred.reset = next.reset
        /\ Len(next.votes) >= pred.quorum
        /\ LET votesIn(cls) == \A k \in 1..Len(next.votes) :
                                  InRange(pred, next.votes[k]) /\ VoteCert(pred, next.votes[k]).cls = cls
               voteList == [k \in 1..Len(next.votes) |-> VoteCert(pred, next.votes[k])]
               regular == InRange(pred, next.votes[1]) /\ VoteCert(pred, next.votes[1]).cls = "reg"
               changed(cls) == {c \in CertSet(next, cls) : c \notin CertSet(pred, cls)}
           IN IF ~regular THEN
                  /\ votesIn("sens")
                  /\ CodeVerifyAllSet(CodeNewVoters(pred, next), sis)
                  /\ CodeVerifyAll(voteList, sis)
              ELSE
                  /\ pred.quorum = next.quorum /\ pred.core = next.core /\ pred.auth = next.auth
                  /\ Cardinality(CertSet(pred, "sens")) = Cardinality(CertSet(next, "sens"))
                  /\ changed("sens") = {}
                  /\ Cardinality(CertSet(pred, "root")) = Cardinality(CertSet(next, "root"))
                  /\ \A c \in CertSet(next, "root") : FindBySubject(pred, "root", c) # {}
                  /\ Cardinality(CertSet(pred, "reg")) = Cardinality(CertSet(next, "reg"))
                  /\ \A c \in CertSet(next, "reg") : FindBySubject(pred, "reg", c) # {}
                  /\ votesIn("reg")
                  /\ \A c \in changed("reg") : \A d \in FindBySubject(pred, "reg", c) :
                          \E k \in 1..Len(next.votes) : voteList[k] = d
                  /\ CodeVerifyAllSet(CodeNewVoters(pred, next), sis)
                  /\ CodeVerifyAllSet(UNION {FindBySubject(pred, "root", c) : c \in changed("root")}, sis)
                  /\ CodeVerifyAll(voteList, sis)

(* Field-wise comparison of two payloads for the round trip: name of the first differing field. *)
DiffField(p, q) ==
    IF p.ver # q.ver THEN "version"
    ELSE IF <<p.isd, p.base, p.serial>> # <<q.isd, q.base, q.serial>> THEN "id"
    ELSE IF <<p.nb, p.na>> # <<q.nb, q.na>> THEN "validity"
    ELSE IF p.grace # q.grace THEN "grace"
    ELSE IF p.reset # q.reset THEN "noTrustReset"
    ELSE IF p.votes # q.votes THEN "votes"
    ELSE IF p.quorum # q.quorum THEN "quorum"
    ELSE IF p.core # q.core THEN "coreASes"
    ELSE IF p.auth # q.auth THEN "authoritativeASes"
    ELSE IF p.desc # q.desc THEN "description"
    ELSE IF p.certs # q.certs THEN "certificates"
    ELSE ""
=============================================================================
