SPECIFICATION Spec
CONSTANTS
  Fallback = FALSE
  Limbs <- LimbsQuick
  ISDs <- ISDsQuick
  Seps <- SepsFew
  TextSeps <- SepsText
  Alphabet <- AlphaQuick
  MaxLen = 2
INVARIANTS RoundTrip
CHECK_DEADLOCK FALSE
