INIT GenInitThorough
NEXT Next
CONSTANTS
  Leaves <- GenLeavesSmall
  MaxNodes = 5
  WideLeaves <- GenLeaves
  WideNodes = 4
  MaxDepth = 4
  MaxKids = 3
  Pkts <- McPkts
CONSTRAINT Emit
CHECK_DEADLOCK FALSE
