--------------------------- MODULE TrustStoreTrace ---------------------------
(* Trace specification for C35: the real FetchingProvider.NotifyTRC / LoadTRCs over the real sqlite
   trust database, driven by a scripted remote, must behave like the abstract store of
   TrustStoreOps.  State-machine property: conformance of the stored set and of the fetch order is
   the monitor; whether an error value is returned is drift only (the statement does not speak
   about it).
     reset   {init, maxserial}: the store holds the genuine TRCs 1..init
     notify  {isd, base, serial, outc[serial], errnil, fetched[], stored[[serial, content]], foreign, latest}
     concurrent {calls[{serial, outc, errnil, fetched}], stored, foreign, latest}: simultaneous calls
     load    {files[{serial, content, future, isd, junk}], errnil, loaded, ignored, stored, foreign, latest}
             (foreign: TRCs of other ISDs / bases in the store, [isd, base, serial, future])       *)
EXTENDS TrustStoreOps, TLC, Json

Trace == ndJsonDeserialize("trace.ndjson")

VARIABLES l, db, failed, nadv, nstop,
          fg      \* TRCs of other ISDs legitimately in the store (loaded from disk)
vars == <<l, db, failed, nadv, nstop, fg>>
R == Trace[l]

Init == l = 1 /\ db = <<>> /\ failed = FALSE /\ nadv = 0 /\ nstop = 0 /\ fg = {}
FSet(f) == {f[i] : i \in 1..Len(f)}

Bad(key) == /\ PrintT(<<"VERIF-BAD", l, key>>)
            /\ failed' = TRUE /\ UNCHANGED <<db, nadv, nstop, fg>>

\* the observed store as a function serial -> content ("dup" if an ID is reported twice)
Obs(stored, S) == [s \in S |-> LET e == {i \in 1..Len(stored) : stored[i][1] = s} IN
                                 IF e = {} THEN "none"
                                 ELSE IF Cardinality(e) > 1 THEN "dup"
                                 ELSE stored[CHOOSE i \in e : TRUE][2]]
Outside(stored, S) == \E i \in 1..Len(stored) : stored[i][1] \notin S

Reset == /\ db' = [s \in 1..(R.maxserial + 2) |-> IF s <= R.init THEN "a" ELSE "none"]
         /\ failed' = FALSE /\ fg' = {} /\ UNCHANGED <<nadv, nstop>>

DiffKey(exp, obs) ==
    LET S == DOMAIN exp
        d == {s \in S : exp[s] # obs[s]}
        s == CHOOSE x \in d : \A y \in d : x <= y IN
    IF exp[s] = "none" THEN "stored-unexpected:" \o obs[s] \o "@latest+" \o ToString(s - Latest(exp))
    ELSE IF obs[s] = "none" THEN "missing:" \o exp[s]
    ELSE "replaced:" \o exp[s] \o "->" \o obs[s]

Notify ==
    LET S == DOMAIN db
        outc == [s \in S |-> IF s <= Len(R.outc) THEN R.outc[s] ELSE "fetcherr"]
        exp == NotifyResult(IF R.isd = 1 THEN db ELSE [s \in S |-> "none"], 1, R.base, R.serial, outc)
        expdb == IF R.isd = 1 THEN exp.db ELSE db
        obs == Obs(R.stored, S)
        fail == IF exp.err = "" THEN "" ELSE LET f == FirstFailure(Latest(db), R.serial, outc) IN ":" \o outc[f] IN
    IF ~(FSet(R.foreign) \subseteq fg) \/ Outside(R.stored, S) THEN Bad("notify:foreign-trc-stored" \o fail)
    ELSE IF obs # expdb THEN Bad("notify:" \o DiffKey(expdb, obs) \o fail)
    ELSE IF R.latest < Latest(db) THEN Bad("notify:latest-regressed")
    \* (the stores of other ISDs are not modelled: once a TRC of another ISD was loaded from disk, a
    \*  notification for that ISD is only required to leave this ISD's store and the foreign set alone)
    ELSE IF R.fetched # exp.fetched /\ ~(R.isd # 1 /\ fg # {}) THEN
         Bad("notify:fetch-order:" \o (IF Len(R.fetched) > Len(exp.fetched) THEN "more" ELSE
                                       IF Len(R.fetched) < Len(exp.fetched) THEN "fewer" ELSE "other") \o fail)
    ELSE /\ db' = obs
         /\ ((R.errnil = 1) # (exp.err = "")) => PrintT(<<"VERIF-DRIFT", l, "notify-error-value:" \o exp.err>>)
         /\ nadv' = nadv + (IF Latest(obs) > Latest(db) THEN 1 ELSE 0)
         /\ nstop' = nstop + (IF exp.err \in {"fetch", "verify", "insert"} THEN 1 ELSE 0)
         /\ UNCHANGED <<failed, fg>>

Load ==
    LET S == DOMAIN db
        obs == Obs(R.stored, S)
        exp == LoadResult(db, R.files)
        new == {s \in S : obs[s] # db[s]} IN
    \* TRCs of other ISDs / base numbers in the store: [isd, base, serial, future]; only listed, parsable,
    \* past files of that ISD may have got there
    IF Outside(R.stored, S) THEN Bad("load:stored-outside-range")
    ELSE IF \E i \in 1..Len(R.foreign) : R.foreign[i][4] = 1 THEN Bad("load:future-trc-loaded:other-isd")
    ELSE IF \E i \in 1..Len(R.foreign) : ~\E k \in 1..Len(R.files) :
                /\ R.files[k].isd = R.foreign[i][1] /\ R.files[k].serial = R.foreign[i][3]
                /\ ~R.files[k].future /\ ~R.files[k].junk /\ R.foreign[i][2] = 1
         THEN Bad("load:foreign-trc-stored")
    ELSE IF \E s \in new : obs[s] \in {"af", "bf"} THEN Bad("load:future-trc-loaded")
    ELSE IF \E s \in new : db[s] # "none" THEN Bad("load:stored-trc-replaced")
    ELSE IF \E s \in new : ~\E i \in 1..Len(R.files) :
                R.files[i].serial = s /\ R.files[i].content = obs[s] /\ ~R.files[i].future
                /\ ~R.files[i].junk /\ R.files[i].isd = 1
         THEN Bad("load:stored-something-else")
    ELSE /\ db' = obs
         /\ (obs # exp.db \/ ((R.errnil = 1) # (exp.err = ""))) => PrintT(<<"VERIF-DRIFT", l, "load-result">>)
         /\ fg' = FSet(R.foreign)
         /\ UNCHANGED <<failed, nadv, nstop>>

(* 2-3 simultaneous NotifyTRC calls on one database (real goroutines; no linearization points are
   recorded, so only what must hold for every interleaving is checked): the final store is an
   unbroken succession, every added TRC was served as a verifiable successor to a call that fetched
   it, every call fetched consecutive serials and never went on after a failure, a call that
   returned nil left the store at least at its serial.                                          *)
Concurrent ==
    LET S == DOMAIN db
        obs == Obs(R.stored, S)
        init == Latest(db)
        n == Len(R.calls)
        F(i) == R.calls[i].fetched
        O(i, s) == IF s >= 1 /\ s <= Len(R.calls[i].outc) THEN R.calls[i].outc[s] ELSE "fetcherr"
        served(s) == \E i \in 1..n : /\ \E k \in 1..Len(F(i)) : F(i)[k] = s
                                       /\ O(i, s) \in GoodOutcomes /\ ContentOf(O(i, s)) = obs[s]
        seqOK(i) == /\ \A k \in 1..(Len(F(i)) - 1) : F(i)[k + 1] = F(i)[k] + 1
                    /\ Len(F(i)) > 0 => (F(i)[1] > init /\ F(i)[Len(F(i))] <= R.calls[i].serial)
        stopOK(i) == \A k \in 1..(Len(F(i)) - 1) : O(i, F(i)[k]) \in GoodOutcomes
    IN
    IF ~(FSet(R.foreign) \subseteq fg) \/ Outside(R.stored, S) THEN Bad("concurrent:foreign-trc-stored")
    ELSE IF ~Contiguous(obs, 1) THEN Bad("concurrent:gap-in-succession")
    ELSE IF \E s \in S : s <= init /\ obs[s] # db[s] THEN Bad("concurrent:stored-trc-replaced")
    ELSE IF \E s \in S : s > init /\ obs[s] # "none" /\ ~served(s) THEN Bad("concurrent:stored-unverified-or-unserved")
    ELSE IF \E i \in 1..n : ~seqOK(i) THEN Bad("concurrent:fetch-order")
    ELSE IF \E i \in 1..n : ~stopOK(i) THEN Bad("concurrent:continued-after-failure")
    ELSE IF \E i \in 1..n : R.calls[i].errnil = 1 /\ Latest(obs) < R.calls[i].serial THEN Bad("concurrent:returned-nil-before-target")
    ELSE /\ db' = obs /\ UNCHANGED <<failed, nstop, fg>>
         /\ nadv' = nadv + (IF Latest(obs) > init THEN 1 ELSE 0)

Step == /\ l <= Len(Trace)
        /\ l' = l + 1
        /\ IF R.ev = "reset" THEN Reset
           ELSE IF failed THEN UNCHANGED <<db, failed, nadv, nstop, fg>>
           ELSE CASE R.ev = "notify" -> Notify
                  [] R.ev = "load" -> Load
                  [] R.ev = "concurrent" -> Concurrent
                  [] OTHER -> Bad("no-spec-action:" \o R.ev)

Done == /\ l = Len(Trace) + 1
        /\ PrintT(<<"VERIF-STAT", "advanced", nadv>>)
        /\ PrintT(<<"VERIF-STAT", "stopped", nstop>>)
        /\ PrintT(<<"VERIF-DONE", Len(Trace)>>)
        /\ UNCHANGED vars

Next == Step \/ Done
Spec == Init /\ [][Next]_vars
=============================================================================
