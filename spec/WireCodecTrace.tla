-------------------------- MODULE WireCodecTrace --------------------------
(* Trace specification for C18.  Every line is one independent observation of the real pkg/slayers
   codec:

     enc   one layer (scion | hbh | e2e | udp | scmp) of a generated packet: the field values `v` given to
           the real encoder (after FixLengths), the bytes it produced for this layer, and the values
           `redec` the real decoder read back from those bytes.
     pkt   the whole packet and its re-serialization (FixLengths off) from the decoded layers.
     dec   one layer of a mutated / truncated / random byte string handed to the real decoder: the
           input bytes `in`, whether the decoder accepted (no error), whether it flagged truncation,
           the decoded values `d`, and the bytes `reser` the real encoder produces from them.
     panic the real decoder panicked.

   Monitor (WireOps!Items is the documented layout):
     enc:  Pack(Items(v)) = bytes (reserved bits are generated as zero), the length fields written
           by FixLengths describe the bytes, redec = v.  Extensions: the options may be padded
           freely -- required are decodability, Pack(Items(redec)) = bytes and equal non-padding
           options (alignment of the options is reported as drift only).
     pkt:  reser = bytes.
     dec:  accepted => the decoded values are exactly what the bytes say on all non-reserved bits
           (Pack(Items(d)) = in masked) and re-serializing reproduces them on the non-reserved bits;
           declared lengths beyond the data => rejected (error, or the truncation flag).
           A header whose declared length (HdrLen) is not exactly common + address + path length is
           inconsistent: accepting it is a violation (the re-serialization drops the slack bytes and
           shifts the payload; all header parts are multiples of 4, so slack is never needed).
   Drift only: option alignment.                                                                  *)
EXTENDS WireOps, TLC, Json

Trace == ndJsonDeserialize("trace.ndjson")
VARIABLE l
vars == <<l>>
R == Trace[l]

Bad(key) == PrintT(<<"VERIF-BAD", l, key>>)
Drift(key) == PrintT(<<"VERIF-DRIFT", l, key>>)

ShapeOf(L, v) == IF L = "scion" THEN "scion:" \o v.path.kind
                 ELSE IF L = "scmp" THEN "scmp:type" \o ToString(v.type) ELSE L

\* indices of the non-padding options
NonPadIdx(opts) == SelectSeq([k \in 1..Len(opts) |-> k], LAMBDA k : opts[k].type \notin {0, 1})

ExtEncCheck ==
    LET L == R.layer
        v == R.v
        d == R.redec
        idx == NonPadIdx(d.opts)
        k == "enc:" \o L IN
    IF Pack(ExtItems(d)) # R.bytes THEN Bad(k \o ":bytes-differ-from-layout")
    ELSE IF Len(R.bytes) % 4 # 0 \/ 4 * (d.extlen + 1) # Len(R.bytes) THEN Bad(k \o ":extlen-wrong")
    ELSE IF d.nexthdr # v.nexthdr THEN Bad(k \o ":redecoded-differs:nexthdr")
    ELSE IF Len(idx) # Len(v.opts) \/ \E i \in 1..Len(idx) :
                 d.opts[idx[i]].type # v.opts[i].type \/ d.opts[idx[i]].data # v.opts[i].data
      THEN Bad(k \o ":redecoded-differs:options")
    ELSE IF \E i \in 1..Len(idx) : v.opts[i].ax # 0 /\ (OptOffset(d.opts, idx[i]) - v.opts[i].ay) % v.opts[i].ax # 0
      THEN Drift(k \o ":option-alignment")
    ELSE TRUE

EncCheck ==
    LET L == R.layer
        v == R.v
        k == "enc:" \o ShapeOf(L, v) IN
    IF L \in {"hbh", "e2e"} THEN ExtEncCheck
    ELSE LET items == Items(L, v) IN
         IF ~ItemsFit(items) THEN Bad(k \o ":value-out-of-range")
         ELSE IF L = "scion" /\ ~ScionConsistent(v) THEN Bad(k \o ":inconsistent-value")
         ELSE IF Pack(items) # R.bytes THEN Bad(k \o ":bytes-differ-from-layout")
         ELSE IF DeclaredLen(L, v) # Len(R.bytes) THEN Bad(k \o ":declared-length-wrong")
         ELSE IF L = "scion" /\ v.payloadlen # R.after THEN Bad(k \o ":payloadlen-wrong")
         ELSE IF L = "udp" /\ v.len # R.udplen THEN Bad(k \o ":length-wrong")
         ELSE IF R.redec # v THEN Bad(k \o ":redecoded-differs")
         ELSE TRUE

PktCheck == IF R.nlayers < R.want THEN Bad("pkt:layers-missing-after-decoding")
            ELSE IF R.reser # R.bytes THEN Bad("pkt:reserialization-differs") ELSE TRUE

DecCheck ==
    LET L == R.layer
        b == R.in
        k == "dec:" \o L IN
    IF R.origin = "own-serialization" /\ ~R.acc THEN Bad("enc:" \o L \o ":decoder-rejects-encoder-output")
    ELSE IF ~R.acc THEN TRUE
    ELSE IF LenExceeds(L, b) /\ ~R.trunc THEN Bad(k \o ":accepts-declared-length-beyond-data")
    ELSE IF R.trunc THEN TRUE
    ELSE LET items == Items(L, R.d)
             n == ItemsWidth(items) \div 8 IN
         IF ~ItemsFit(items) THEN Bad(k \o ":decoded-value-out-of-range")
         ELSE IF n > Len(b) THEN Bad(k \o ":decoded-fields-exceed-input")
         ELSE LET packed == Pack(items)
                  mask == MaskOf(items) IN
              IF Masked(SubSeq(b, 1, n), mask) # packed THEN Bad(k \o ":decoded-fields-differ-from-bytes")
              ELSE IF DeclaredLen(L, R.d) # n THEN Bad(k \o ":accepts-declared-header-length-with-slack")
              ELSE IF ~R.reserok THEN Bad(k \o ":accepted-but-cannot-reserialize")
              ELSE IF Len(R.reser) # n THEN Bad(k \o ":reserialization-length-differs")
              ELSE IF Masked(R.reser, mask) # packed THEN Bad(k \o ":reserialization-differs")
              ELSE TRUE

Init == l = 1
Step == /\ l <= Len(Trace)
        /\ l' = l + 1
        /\ CASE R.ev = "enc" -> EncCheck
             [] R.ev = "pkt" -> PktCheck
             [] R.ev = "dec" -> DecCheck
             [] R.ev = "reset" -> TRUE
             [] R.ev = "panic" -> Bad("panic:" \o R.layer)
             [] R.ev = "encerror" -> Bad("enc:serialize-error")
             [] OTHER -> Bad("no-spec-action:" \o R.ev)
Done == /\ l = Len(Trace) + 1
        /\ PrintT(<<"VERIF-DONE", Len(Trace)>>)
        /\ UNCHANGED vars
Next == Step \/ Done
Spec == Init /\ [][Next]_vars
=============================================================================
