SPECIFICATION Spec
CONSTANTS
  TopoId = "T2"
  Runs = {0}
  MaxSegs = 1
  MaxLen = 3
INVARIANTS TypeOK GraphEqualsDefinition WeightIsLinks PathsAreWalks HopFieldsVerify MtuIsTopologyMinimum ResultOK
CHECK_DEADLOCK FALSE
