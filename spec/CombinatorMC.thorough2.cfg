SPECIFICATION Spec
CONSTANTS
  TopoId = "T2"
  Runs = {0}
  MaxSegs = 1
  MaxLen = 3
  HopLimit = 6
  SegLimit = 2
INVARIANTS TypeOK GraphEqualsDefinition WeightIsLinks PathsAreWalks HopFieldsVerify MtuIsTopologyMinimum ResultOK
CHECK_DEADLOCK FALSE
