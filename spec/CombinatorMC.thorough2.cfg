SPECIFICATION Spec
CONSTANTS
  TopoId = "T2"
  Runs = {0, 1}
  MaxSegs = 2
  MaxLen = 3
INVARIANTS TypeOK GraphEqualsDefinition WeightIsLinks PathsAreWalks HopFieldsVerify MtuIsTopologyMinimum ResultOK
CHECK_DEADLOCK FALSE
