------------------------------ MODULE Beaconing ------------------------------
(* Exhaustive design model for C23: a beacon travels down a chain of ASes 1 -> 2 -> ... ; every AS
   extends it with DefaultExtender.Extend (BeaconingOps!ExtendOutcome), with symbolic MACs and
   signatures.  All signer validity windows of a small timeline, all configured maxima and all
   (ingress, egress) requests - consistent or not - are explored.

   Invariants = the statement of C23 on the design:
     Named        every entry names the local AS and the AS behind its egress interface
     Chained      the entry's signature covers the segment info and all earlier entries incl. their
                  signatures, made by a signer of that AS whose window covers the hop lifetime
                  (this is exactly what segverifier demands, C24)
     MacsVerify   hop MAC over the accumulated SegID, peer MACs over the accumulator incl. the own hop
     ExpBounded   exp <= configured maximum, ts + Dur(exp) <= expiry of the signer used, and maximal
     Positions    ingress 0 only in the first entry, egress 0 only in the last                  *)
EXTENDS BeaconingOps, TLC

CONSTANTS PeerLists,   \* peer interface lists handed to Extend
          MaxLen,      \* longest segment
          Windows,     \* set of signer windows [nb, na]
          MaxExps,     \* configured maxima to choose from
          Nows         \* possible current times (ts = 0)

W(nb, na) == [nb |-> nb, na |-> na]
\* timeline (ts = 0): expired before now; one unit minus 1 s; exactly one unit; three units + 5 s; four
\* units; not yet valid at ts = 0 boundary; starts after ts; 300 units
QuickWindows == {W(-3600000, 30000), W(-3600000, 336500), W(-3600000, 1017500), W(-3600000, 1350000),
                 W(60000, 86400000), W(-3600000, 101250000)}
QuickPeers == {<<>>, <<9, 3, 4>>}
AllPeers == {<<>>, <<3>>, <<3, 4>>, <<9, 3>>}
TimelineWindows == {W(-3600000, 30000), W(-3600000, 336500), W(-3600000, 337500), W(-3600000, 1017500),
                    W(-3600000, 1350000), W(0, 86400000), W(60000, 86400000), W(-3600000, 101250000)}

VARIABLES seg, signers, now
vars == <<seg, signers, now>>

Ts == 0
Info == <<"info", Ts>>
IfIn == 1      \* every AS: interface 1 leads to the previous AS, 2 to the next, 3 is a peering link, 4 a
IfEg == 2      \* peering link whose remote id is unknown, 9 is not configured
Ifs(a) == {[id |-> 1, ia |-> a - 1, rid |-> 2, mtu |-> 1400], [id |-> 2, ia |-> a + 1, rid |-> 1, mtu |-> 1450],
           [id |-> 3, ia |-> 10 + a, rid |-> 7, mtu |-> 1300], [id |-> 4, ia |-> 20 + a, rid |-> 0, mtu |-> 1300]}

Mac(a, beta, exp, in, eg) == <<"mac", a, beta, Ts, exp, in, eg>>
\* the accumulator is symbolic: the sequence of hop MACs folded in so far
Beta(s, i) == [j \in 1..(i - 1) |-> s[j].mac]

Init == /\ seg = <<>>
        /\ now \in Nows
        /\ signers = <<>>

\* the signer list of the run is chosen in the first step (all lists of one or two windows)
Setup == /\ signers = <<>> /\ seg = <<>>
         /\ \E w1 \in Windows : \E w2 \in Windows : \E two \in BOOLEAN :
              signers' = IF two THEN <<w1, w2>> ELSE <<w1>>
         /\ UNCHANGED <<seg, now>>

Terminated == seg # <<>> /\ seg[Len(seg)].eg = 0

Extend(in, eg, maxExp, peers) ==
    LET n == Len(seg)
        a == n + 1
        o == ExtendOutcome(n, in, eg, 1400, Ifs(a), signers, maxExp, Ts, now) IN
    /\ signers # <<>> /\ n < MaxLen /\ ~Terminated
    /\ IF o.err # "" THEN UNCHANGED seg          \* a failed Extend leaves the beacon as it was
       ELSE LET mac == Mac(a, Beta(seg, a), o.exp, in, eg)
                kept == PeersKept(Ifs(a), peers)
                e == [local |-> a, next |-> IF eg = 0 THEN 0 ELSE IfOf(Ifs(a), eg).ia, in |-> in, eg |-> eg,
                      exp |-> o.exp, max |-> maxExp, mac |-> mac,
                      peers |-> [j \in 1..Len(kept) |->
                                   [in |-> kept[j], eg |-> eg, exp |-> o.exp, ia |-> IfOf(Ifs(a), kept[j]).ia,
                                    mac |-> Mac(a, Append(Beta(seg, a), mac), o.exp, kept[j], eg)]],
                      sig |-> [as |-> a, signer |-> o.signer, over |-> <<Info, seg>>]]
            IN seg' = Append(seg, e)
    /\ UNCHANGED <<signers, now>>

Next == \/ Setup
        \/ \E in \in {0, 1, 9} : \E eg \in {0, 2, 9} : \E m \in MaxExps : \E peers \in PeerLists :
             Extend(in, eg, m, peers)

Spec == Init /\ [][Next]_vars

-----------------------------------------------------------------------------
Named == \A i \in 1..Len(seg) : /\ seg[i].local = i
                                /\ seg[i].next = (IF seg[i].eg = 0 THEN 0 ELSE i + 1)
                                /\ (i < Len(seg) => seg[i].next = seg[i + 1].local)

Chained == \A i \in 1..Len(seg) :
             /\ seg[i].sig.over = <<Info, SubSeq(seg, 1, i - 1)>>
             /\ seg[i].sig.as = seg[i].local
             /\ LET w == signers[seg[i].sig.signer] IN w.nb <= Ts /\ Ts + Dur(seg[i].exp) <= w.na

MacsVerify == \A i \in 1..Len(seg) :
                /\ seg[i].mac = Mac(seg[i].local, Beta(seg, i), seg[i].exp, seg[i].in, seg[i].eg)
                /\ \A j \in 1..Len(seg[i].peers) :
                     seg[i].peers[j].mac = Mac(seg[i].local, Beta(seg, i + 1), seg[i].peers[j].exp,
                                               seg[i].peers[j].in, seg[i].eg)

ExpBounded == \A i \in 1..Len(seg) :
                LET na == signers[seg[i].sig.signer].na IN
                /\ seg[i].exp >= 0 /\ seg[i].exp <= seg[i].max /\ seg[i].exp <= 255
                /\ Ts + Dur(seg[i].exp) <= na
                /\ (seg[i].exp = seg[i].max \/ Ts + Dur(seg[i].exp + 1) > na)
                /\ \A j \in 1..Len(seg[i].peers) : seg[i].peers[j].exp = seg[i].exp

Positions == \A i \in 1..Len(seg) : /\ (seg[i].in = 0) = (i = 1)
                                    /\ (seg[i].eg = 0 => i = Len(seg))
                                    /\ seg[i].in \in {0, 1} /\ seg[i].eg \in {0, 2}

\* the signer used is the last expiring one among those covering [ts, now]
SignerChoice == \A i \in 1..Len(seg) : seg[i].sig.signer = LastExpiring(signers, Ts, now)

PeersOnlyKnown == \A i \in 1..Len(seg) : \A j \in 1..Len(seg[i].peers) : seg[i].peers[j].in = 3
=============================================================================
