----------------------------- MODULE AddrText -----------------------------
(* C46 -- exhaustive consistency of the text denotation (AddrTextOps) on a boundary lattice.

   A "table" model shaped like the API: one first action per formatting entry point picks the
   arguments (value, prefix option, separator option) -- or a raw text for the parsing direction --
   and the invariants state the property on the picked case:

     RoundTrip    Denote(Format(v, opts), opts) = v for every ISD / AS / ISD-AS / SVC / IPv4 value of
                  the lattice and every option combination, the empty separator included;
     Form         an AS text is a decimal numeral iff the AS is below 2^32;
     Canonical    every short text over the alphabet that denotes an AS/ISD-AS denotes a value whose
                  canonical text denotes the same value (Denote and Format agree on ALL short texts,
                  not only on formatted ones);
     Rejects      the grammar-aware mutants of a formatted text (extra / missing / empty / too large
                  group, sign, blank, overflow by one, wrong or missing prefix) denote nothing.

   With Fallback = FALSE (AddrTextMC.nofallback.cfg) the operators use an empty separator as is --
   the shape pkg/addr/fmt.go had before the fix of DESIGN.md D7 -- and RoundTrip fails.          *)
EXTENDS AddrTextOps, TLC

CONSTANTS Limbs,      \* boundary values of one 16-bit group
          ISDs,       \* boundary ISD numbers
          Seps,       \* separator options (texts)
          TextSeps,   \* separator options used with the raw texts
          Alphabet,   \* bytes of the raw texts
          MaxLen      \* length bound of the raw texts

VARIABLE c            \* the picked case
vars == <<c>>

ASes == {<<a, b, d>> : a \in Limbs, b \in Limbs, d \in Limbs}
SVCs == {<<b + m>> : b \in {SvcDS, SvcCS, SvcWildcard}, m \in {0, SvcMcast}}
Bytes == {0, 1, 9, 10, 99, 100, 199, 200, 255}
Texts == UNION {[1..n -> Alphabet] : n \in 0..MaxLen}

\* Three levels (options, first half of the arguments, rest) so that TLC's workers share the work:
\* the successors of ONE state are always computed by one worker.
OptKinds == {"as", "ia", "text", "mut"}
Init == \/ \E kd \in OptKinds, p \in BOOLEAN, s \in Seps :
             /\ (kd = "text" => ~p /\ s \in TextSeps)
             /\ c = [k |-> "init", kind |-> kd, prefix |-> p, sep |-> s]
        \/ \E kd \in {"isd", "svc", "ipv4"}, p \in BOOLEAN :
             /\ (kd # "isd" => ~p)
             /\ c = [k |-> "init", kind |-> kd, prefix |-> p, sep |-> Colon]

Short(n) == UNION {[1..m -> Alphabet] : m \in 0..n}
First == CASE c.kind \in {"as", "mut"} -> {<<a>> : a \in Limbs}
           [] c.kind = "ia" -> {<<i, a>> : i \in ISDs, a \in Limbs}
           [] c.kind = "isd" -> {<<i>> : i \in ISDs}
           [] c.kind = "svc" -> SVCs
           [] c.kind = "ipv4" -> {<<4, b1, b2>> : b1 \in Bytes, b2 \in Bytes}
           [] c.kind = "text" -> Short(2)
Mid == c.k = "init" /\ \E x \in First : c' = [c EXCEPT !.k = "mid"] @@ [x |-> x]

Rest == CASE c.kind \in {"as", "ia", "mut"} -> {<<b, d>> : b \in Limbs, d \in Limbs}
          [] c.kind \in {"isd", "svc"} -> {<<>>}
          [] c.kind = "ipv4" -> {<<b3, b4>> : b3 \in Bytes, b4 \in Bytes}
          [] c.kind = "text" -> IF Len(c.x) < 2 THEN {<<>>} ELSE Short(MaxLen - 2)
Mutations == {"extra", "missing", "empty", "big", "sign", "blank", "overflow", "noprefix", "lowerprefix"}
Fin == c.k = "mid" /\ \E y \in Rest, m \in (IF c.kind = "mut" THEN Mutations ELSE {"-"}) :
          c' = [k |-> c.kind, v |-> c.x \o y, prefix |-> c.prefix, sep |-> c.sep, m |-> m]

Next == Mid \/ Fin
Spec == Init /\ [][Next]_vars

-----------------------------------------------------------------------------
Fmt == CASE c.k = "isd" -> FormatISD(c.v, c.prefix)
         [] c.k = "as" -> FormatAS(c.v, c.prefix, c.sep)
         [] c.k = "ia" -> FormatIA(c.v, c.prefix, c.sep)
         [] c.k = "svc" -> FormatSVC(c.v)
         [] c.k = "ipv4" -> FormatIPv4(c.v)

RoundTrip ==
    /\ c.k \in {"isd", "as", "ia", "svc"} => Denote(c.k, Fmt, c.prefix, c.sep) = c.v
    /\ c.k = "ipv4" => DenoteHost(Fmt) = c.v

Form == c.k = "as" => ASFormOK(c.v, Fmt, c.prefix)

Canonical ==
    c.k = "text" =>
      LET a == DenoteAS(c.v, FALSE, c.sep)
          i == DenoteIA(c.v, FALSE, c.sep) IN
      /\ a # Undef => DenoteAS(FormatAS(a, FALSE, c.sep), FALSE, c.sep) = a
      /\ i # Undef => DenoteIA(FormatIA(i, FALSE, c.sep), FALSE, c.sep) = i
      /\ a # Undef => i = Undef      \* no text is both an AS and an ISD-AS

\* the mutant of the formatted AS text
Mutant ==
    LET s == EffSep(c.sep)
        body == FormatASBody(c.v, c.sep)
        pfx == IF c.prefix THEN PfxAS ELSE <<>>
        parts == Split(body, s)
        hexform == c.v[1] # 0 IN
    CASE c.m = "extra" -> pfx \o body \o s \o <<48>>
      [] c.m = "missing" -> pfx \o (IF hexform THEN Join(SubSeq(parts, 1, 2), s) ELSE <<>>)
      [] c.m = "empty" -> pfx \o (IF hexform THEN Join(<<parts[1], <<>>, parts[3]>>, s) ELSE <<>>)
      [] c.m = "big" -> pfx \o (IF hexform THEN Join(<<parts[1], <<49, 48, 48, 48, 48>>, parts[3]>>, s)
                                           ELSE <<52, 50, 57, 52, 57, 54, 55, 50, 57, 54>>)   \* 4294967296
      [] c.m = "sign" -> pfx \o <<43>> \o body
      [] c.m = "blank" -> pfx \o body \o <<32>>
      [] c.m = "overflow" -> pfx \o (IF hexform THEN Join(<<<<49, 48, 48, 48, 48>>, parts[2], parts[3]>>, s)
                                                ELSE <<49>> \o DecDigits(65535, 65535))      \* 14294967295
      [] c.m = "noprefix" -> IF c.prefix THEN body ELSE PfxAS \o body
      [] c.m = "lowerprefix" -> <<97, 115>> \o body

Rejects == c.k = "mut" /\ SepAdmissible(EffSep(c.sep)) => DenoteAS(Mutant, c.prefix, c.sep) = Undef

TypeOK == c.k \in {"init", "mid", "isd", "as", "ia", "svc", "ipv4", "text", "mut"}
=============================================================================
