SPECIFICATION Spec
CONSTANTS
  Steps = {"key", "internal", "ext", "hop", "svc", "range"}
  OtherProv = {}
  SwapSites = {}
  Propagate = "full"
  Emit = TRUE
INVARIANTS BufferSizesReach RangeInForce AllOpened
CHECK_DEADLOCK FALSE
