SPECIFICATION Spec
CONSTANT Prop = "C03"
CHECK_DEADLOCK FALSE
