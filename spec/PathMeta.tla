------------------------------ MODULE PathMeta ------------------------------
(* C19 - exhaustive model of the path meta header arithmetic.

   One behaviour = pick any of the 2^18 segment-length triples, (if it is a well-formed shape) start
   at hop 0 and then advance (IncPath) and reverse (Reverse) in any order, using the CODE-SHAPED
   operators of PathMetaOps.  The invariants state that on every reachable state the code-shaped
   arithmetic coincides with the statement-level definitions (segment of a hop, cross-over = last hop
   of a non-last segment, first hop after a cross-over = first hop of a non-first segment, advance =
   next hop and its segment until the last hop, reverse = segments in opposite order with mirrored
   pointers, reverse twice = identity).  With Totals = 0..189 this is the complete space.        *)
EXTENDS PathMetaOps, FiniteSets, TLC

CONSTANT Totals      \* set of totals s1+s2+s3 that are explored (0..189 = everything)

VARIABLES ph,        \* "init" | "a" | "b" (choosing) | "walk" | "empty" | "rej"
          seg, ci, h,
          start      \* the triple chosen at the beginning (history; Reverse changes seg)
vars == <<ph, seg, ci, h, start>>

Init == ph = "init" /\ seg = <<0, 0, 0>> /\ ci = 0 /\ h = 0 /\ start = <<0, 0, 0>>

\* the triple is picked in three steps (TLC parallelises over states, not over the successors of one)
ChooseA == /\ ph = "init" /\ \E a \in Segs : seg' = <<a, 0, 0>>
           /\ ph' = "a" /\ UNCHANGED <<ci, h, start>>
ChooseB == /\ ph = "a" /\ \E b \in Segs : seg' = <<seg[1], b, 0>>
           /\ ph' = "b" /\ UNCHANGED <<ci, h, start>>
Choose == /\ ph = "b"
          /\ \E c \in Segs :
               LET a == seg[1]
                   b == seg[2]
                   s == <<a, b, c>> IN
               /\ Total(s) \in Totals
               /\ seg' = s /\ start' = s /\ ci' = 0 /\ h' = 0
               \* Base.DecodeFromBytes: loop from SegLen[2] down to SegLen[0], then NumHops > MaxHops
               /\ ph' = IF (a = 0 /\ (b > 0 \/ c > 0)) \/ (b = 0 /\ c > 0) \/ a + b + c > MaxHops
                          THEN "rej"
                        ELSE IF a = 0 THEN "empty" ELSE "walk"

Inc == /\ ph = "walk"
       /\ LET r == IncC(seg, ci, h) IN
          /\ ~r.err
          /\ h' = r.hf /\ ci' = r.inf
       /\ UNCHANGED <<ph, seg, start>>

Reverse == /\ ph = "walk"
           /\ LET r == RevC(seg, ci, h) IN seg' = r.seg /\ ci' = r.inf /\ h' = r.hf
           /\ UNCHANGED <<ph, start>>

Next == ChooseA \/ ChooseB \/ Choose \/ Inc \/ Reverse
Spec == Init /\ [][Next]_vars

-----------------------------------------------------------------------------
Walking == ph = "walk"

TypeOK == /\ ph \in {"init", "a", "b", "walk", "empty", "rej"}
          /\ seg \in Segs \X Segs \X Segs /\ ci \in 0..3 /\ h \in 0..63

\* decoding accepts exactly the well-formed shapes (the all-zero triple = empty path)
AcceptExact == /\ ph = "rej" => ~Accept(seg)
               /\ ph = "empty" => AllZero(seg)
               /\ ph = "walk" => Valid(seg)

\* the current info field is the segment containing the current hop - preserved by Inc and Reverse
Consistent == Walking => h < Total(seg) /\ ci < NumInf(seg) /\ ci = SegOf(seg, h)

\* code arithmetic = statement-level definitions (segment lookup, xover, first-after-xover,
\* first/last/penultimate, IncPath outcome), cell by cell
InfAgree == Walking => InfForC(seg, h) = SegOf(seg, h)
CellAgree == Walking => CellC(seg, ci, h) = CellS(seg, ci, h)

\* cross-over and first-hop-after-cross-over sit exactly at the segment boundaries
Boundaries == Walking =>
    /\ XoverS(seg, h) <=> (h + 1 < Total(seg) /\ SegOf(seg, h + 1) # SegOf(seg, h))
    /\ FirstAfterXoverS(seg, h) <=> (h > 0 /\ XoverS(seg, h - 1))
    /\ h = 0 => Cardinality({k \in 0..Total(seg) - 1 : XoverS(seg, k)}) = NumInf(seg) - 1

\* reversing
RevAgree == Walking => LET r == RevC(seg, ci, h) IN
    /\ r = RevS(seg, ci, h)
    /\ Valid(r.seg) /\ Total(r.seg) = Total(seg) /\ NumInf(r.seg) = NumInf(seg)
    /\ r.inf = SegOf(r.seg, r.hf)                                   \* stays consistent
    /\ RevC(r.seg, r.inf, r.hf) = [seg |-> seg, inf |-> ci, hf |-> h]          \* twice = identity
    /\ XoverS(seg, h) <=> FirstAfterXoverS(r.seg, r.hf)           \* boundaries map to boundaries
    /\ FirstAfterXoverS(seg, h) <=> XoverS(r.seg, r.hf)

\* advancing moves to the next hop (and its segment) and is refused exactly at the last hop
IncStep == [][Inc => h' = h + 1 /\ ci' = SegOf(seg, h') /\ ~IsLastS(seg, h)]_vars
IncUntilLast == Walking => (ENABLED Inc <=> ~IsLastS(seg, h))
=============================================================================
