SPECIFICATION Spec
CONSTANTS
  Kind = "p"
  MaxOps = 3
  Gen = FALSE
  Tx = TRUE
  Alphabet = "large"
VIEW AbstractView
INVARIANTS IsMap QuerySound CandidatesSound NQUnique
PROPERTIES StepProps
CHECK_DEADLOCK FALSE
