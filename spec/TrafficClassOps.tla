-------------------------- MODULE TrafficClassOps --------------------------
(* Pure operators for C43 (gateway/pktcls): the boolean value of a traffic-class expression on an
   IPv4 packet.  Shared by TrafficClass.tla (exhaustive model / generator) and TrafficClassTrace.tla.

   ast   [t |-> "all" | "any", ch |-> <<ast, ...>>]  (at least one child, as in the grammar)
         [t |-> "not", ch |-> <<ast>>]
         [t |-> "bool", v |-> 0 | 1]
         [t |-> "src" | "dst", a |-> <<o1,o2,o3,o4>>, len |-> 0..32]      CIDR network
         [t |-> "dscp" | "tos" | "proto", v |-> number]
         [t |-> "sport" | "dport", lo |-> port, hi |-> port]
   pkt   [src, dst : <<o1,o2,o3,o4>>, tos, proto, ports : 0 | 1, sport, dport]
         ports = 1 iff the packet carries a decodable TCP or UDP header                      *)
EXTENDS Integers, Sequences, FiniteSets

Pow2(n) == CASE n = 0 -> 1 [] n = 1 -> 2 [] n = 2 -> 4 [] n = 3 -> 8 [] n = 4 -> 16
             [] n = 5 -> 32 [] n = 6 -> 64 [] n = 7 -> 128 [] OTHER -> 256

\* number of prefix bits that fall into octet i (1..4) for a prefix of length len
OctetBits(len, i) == LET b == len - 8 * (i - 1) IN IF b < 0 THEN 0 ELSE IF b > 8 THEN 8 ELSE b

Contains(a, len, ip) ==
    \A i \in 1..4 : LET sh == Pow2(8 - OctetBits(len, i)) IN ip[i] \div sh = a[i] \div sh

RECURSIVE Eval(_, _)
Eval(c, p) ==
    CASE c.t = "all" -> \A i \in 1..Len(c.ch) : Eval(c.ch[i], p)
      [] c.t = "any" -> \E i \in 1..Len(c.ch) : Eval(c.ch[i], p)
      [] c.t = "not" -> ~Eval(c.ch[1], p)
      [] c.t = "bool" -> c.v = 1
      [] c.t = "src" -> Contains(c.a, c.len, p.src)
      [] c.t = "dst" -> Contains(c.a, c.len, p.dst)
      [] c.t = "dscp" -> c.v = p.tos \div 4
      [] c.t = "tos" -> c.v = p.tos
      [] c.t = "proto" -> c.v = p.proto
      [] c.t = "sport" -> p.ports = 1 /\ c.lo <= p.sport /\ p.sport <= c.hi
      [] c.t = "dport" -> p.ports = 1 /\ c.lo <= p.dport /\ p.dport <= c.hi

IsInner(c) == c.t \in {"all", "any", "not"}

RECURSIVE Kinds(_)
Kinds(c) == IF IsInner(c) THEN {c.t} \cup UNION {Kinds(c.ch[i]) : i \in 1..Len(c.ch)} ELSE {c.t}

RECURSIVE Depth(_)
Depth(c) == IF IsInner(c)
              THEN 1 + (CHOOSE m \in {Depth(c.ch[i]) : i \in 1..Len(c.ch)} :
                          \A i \in 1..Len(c.ch) : Depth(c.ch[i]) <= m)
              ELSE 1

KindsKey(c) == LET k == Kinds(c)
                   F(s) == IF s \in k THEN "," \o s ELSE "" IN
    F("all") \o F("any") \o F("not") \o F("bool") \o F("src") \o F("dst") \o F("dscp") \o F("tos")
    \o F("proto") \o F("sport") \o F("dport")

-----------------------------------------------------------------------------
(* Text as a token sequence (the model's own text form): printing and an independent recursive-descent
   parser.  tokens: [k |-> "all(" | "any(" | "not(" | "," | ")"] or [k |-> "leaf", leaf |-> ast]  *)
Tok(k) == [k |-> k]
LeafTok(c) == [k |-> "leaf", leaf |-> c]

RECURSIVE Print(_)
RECURSIVE PrintList(_, _)
Print(c) == IF IsInner(c) THEN <<Tok(c.t \o "(")>> \o PrintList(c.ch, 1) \o <<Tok(")")>>
            ELSE <<LeafTok(c)>>
PrintList(ch, i) == IF i = Len(ch) THEN Print(ch[i]) ELSE Print(ch[i]) \o <<Tok(",")>> \o PrintList(ch, i + 1)

\* returns [n |-> ast, i |-> index of the first unread token]
RECURSIVE ParseCond(_, _)
RECURSIVE ParseList(_, _)
ParseCond(toks, i) ==
    LET tk == toks[i] IN
    IF tk.k = "leaf" THEN [n |-> tk.leaf, i |-> i + 1]
    ELSE LET l == ParseList(toks, i + 1)
             op == CASE tk.k = "all(" -> "all" [] tk.k = "any(" -> "any" [] OTHER -> "not" IN
         [n |-> [t |-> op, ch |-> l.ch], i |-> l.i]
ParseList(toks, i) ==
    LET r == ParseCond(toks, i) IN
    IF toks[r.i].k = "," THEN LET rest == ParseList(toks, r.i + 1) IN [ch |-> <<r.n>> \o rest.ch, i |-> rest.i]
    ELSE [ch |-> <<r.n>>, i |-> r.i + 1]       \* toks[r.i] is ")"

Parse(toks) == ParseCond(toks, 1).n
=============================================================================
