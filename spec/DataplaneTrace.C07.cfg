SPECIFICATION Spec
CONSTANT Prop = "C07"
CHECK_DEADLOCK FALSE
