SPECIFICATION Spec
CONSTANTS
  Cfg <- CfgA
  Kinds = {"scion"}
  Shapes <- ShapesAlert
  Vias = {0, 1, 2, 3, 4}
  SrcDom = {"L", "F"}
  DstDom = {"L", "F"}
  Faults = {"none"}
  L4Dom = {"udp", "trreq"}
  InSideDom = {0, 1, 2, 3, 999}
  EgSideDom = {0, 1, 2, 3, 999}
  PeerDom = {FALSE}
  ExpDom = {FALSE}
  AuthDom <- AuthOK
  AlertDom <- AlertAll
  EpicDom <- EpicOK
INVARIANTS TypeOK InvC01 InvC05 InvC06 InvC12 InvC13 InvC15 InvC15Answer InvPtr
CONSTRAINT Emit
CHECK_DEADLOCK FALSE
