--------------------------- MODULE BeaconingTrace ---------------------------
(* Trace specification for C23.  Every "extend" line is one independent call of the REAL
   DefaultExtender.Extend with real signers; the monitor is the statement of C23:

     * accepted => (ingress, egress) consistent with the entry's position            [BAD position:*]
     * the entry names the local AS and the AS behind the egress interface           [BAD names:*]
     * hop and peer hop MACs verify under the AS key with the accumulated SegID      [BAD mac:*]
     * the whole segment passes the real segment verifier, and verification of the new entry
       fails as soon as the info, an earlier entry or an earlier signature is altered [BAD sig:*]
     * exp <= configured maximum, ts + Dur(exp) <= expiry of the signer that signed  [BAD exp:*]
   Everything else (which signer is chosen, maximality of exp, refusing what could be accepted,
   peer entry bookkeeping, MTU fields) is conformance to BeaconingOps!ExtendOutcome: VERIF-DRIFT. *)
EXTENDS BeaconingOps, TLC, Json

Trace == ndJsonDeserialize("trace.ndjson")
VARIABLES l, st
vars == <<l, st>>
R == Trace[l]

Init == l = 1 /\ st = [calls |-> 0, ok |-> 0, short |-> 0, inconsistent |-> 0, cover |-> 0]

IfSet(r) == {r.ifs[i] : i \in DOMAIN r.ifs}

Judge ==
    LET ifs == IfSet(R)
        E == R.entry
        o == ExtendOutcome(R.n, R.in, R.eg, R.mtu, ifs, R.signers, R.maxexp, R.ts, R.now1)
        pe == PositionError(R.n, R.in, R.eg)
        used == IF E.signer > 0 THEN R.signers[E.signer] ELSE [nb |-> 0, na |-> 0]
        np == Len(E.peers)
        okKeys ==
             (IF pe # "" THEN {"position:accepted-" \o pe} ELSE {})
        \cup (IF E.local # R.ia THEN {"names:local-as"} ELSE {})
        \cup (IF E.in # R.in \/ E.eg # R.eg THEN {"names:hop-field-interfaces"} ELSE {})
        \cup (IF R.eg # 0 /\ Known(ifs, R.eg) /\ E.next # IfOf(ifs, R.eg).ia THEN {"names:next-is-not-the-neighbour-behind-egress"} ELSE {})
        \cup (IF R.eg = 0 /\ E.next # "" THEN {"names:next-set-on-terminated-segment"} ELSE {})
        \cup (IF ~E.hopmac THEN {"mac:hop-field"} ELSE {})
        \cup (IF \E j \in 1..np : ~E.peers[j].macok THEN {"mac:peer-hop-field"} ELSE {})
        \cup (IF \E j \in 1..np : E.peers[j].eg # R.eg THEN {"mac:peer-hop-field-egress"} ELSE {})
        \cup (IF ~E.verified THEN {"sig:segment-does-not-verify"} ELSE {})
        \cup (IF E.signer = 0 THEN {"sig:signed-by-none-of-the-configured-signers"} ELSE {})
        \cup {"sig:not-covering:" \o E.cover[j].what : j \in {x \in DOMAIN E.cover : E.cover[x].what # "none" /\ ~E.cover[x].rejected}}
        \cup (IF \E j \in DOMAIN E.cover : E.cover[j].what = "none" /\ E.cover[j].rejected THEN {"sig:new-entry-does-not-verify"} ELSE {})
        \cup (IF E.exp > R.maxexp \/ \E j \in 1..np : E.peers[j].exp > R.maxexp THEN {"exp:above-configured-maximum"} ELSE {})
        \cup (IF E.signer > 0 /\ (R.ts + Dur(E.exp) > used.na \/ \E j \in 1..np : R.ts + Dur(E.peers[j].exp) > used.na)
                THEN {"exp:beyond-signer-expiry"} ELSE {})
        okDrift ==
             (IF o.err # "" /\ pe = "" THEN {"accepted-although-spec-refuses:" \o o.err} ELSE {})
        \cup (IF o.err = "" /\ E.signer # o.signer THEN {"signer-is-not-the-last-expiring"} ELSE {})
        \cup (IF o.err = "" /\ E.exp # o.exp THEN {"exp-not-maximal"} ELSE {})
        \cup (IF [j \in 1..np |-> E.peers[j].in] # PeersKept(ifs, R.peers) THEN {"peer-entries"} ELSE {})
        \cup (IF \E j \in 1..np : Known(ifs, E.peers[j].in) /\
                    (E.peers[j].ia # IfOf(ifs, E.peers[j].in).ia \/ E.peers[j].rif # IfOf(ifs, E.peers[j].in).rid
                     \/ E.peers[j].mtu # IfOf(ifs, E.peers[j].in).mtu) THEN {"peer-entry-remote"} ELSE {})
        \cup (IF E.mtu # R.mtu \/ (R.in # 0 /\ Known(ifs, R.in) /\ E.inmtu # IfOf(ifs, R.in).mtu) THEN {"mtu-fields"} ELSE {})
        errDrift == IF o.err = "" THEN {"refused-although-spec-accepts"} ELSE {}
        keys == IF R.err THEN {} ELSE okKeys
        drift == IF R.err THEN errDrift ELSE okDrift
    IN  /\ \A k \in keys : PrintT(<<"VERIF-BAD", l, k>>)
        /\ \A k \in drift : PrintT(<<"VERIF-DRIFT", l, k>>)
        /\ st' = [calls |-> st.calls + 1, ok |-> st.ok + (IF R.err THEN 0 ELSE 1),
                  short |-> st.short + (IF ~R.err /\ E.exp < R.maxexp THEN 1 ELSE 0),
                  inconsistent |-> st.inconsistent + (IF pe # "" THEN 1 ELSE 0),
                  cover |-> st.cover + (IF R.err THEN 0 ELSE Len(E.cover) - 1)]

Step == /\ l <= Len(Trace)
        /\ l' = l + 1
        /\ CASE R.ev = "reset" -> UNCHANGED st
             [] R.ev = "extend" -> Judge
             [] OTHER -> PrintT(<<"VERIF-BAD", l, "no-spec-action:" \o R.ev>>) /\ UNCHANGED st

Done == /\ l = Len(Trace) + 1
        /\ PrintT(<<"VERIF-STAT", "calls", st.calls>>)
        /\ PrintT(<<"VERIF-STAT", "ok", st.ok>>)
        /\ PrintT(<<"VERIF-STAT", "shortened", st.short>>)
        /\ PrintT(<<"VERIF-STAT", "inconsistent", st.inconsistent>>)
        /\ PrintT(<<"VERIF-STAT", "covermutations", st.cover>>)
        /\ PrintT(<<"VERIF-DONE", Len(Trace)>>)
        /\ UNCHANGED vars

Next == Step \/ Done
Spec == Init /\ [][Next]_vars
=============================================================================
