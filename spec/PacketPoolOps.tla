--------------------------- MODULE PacketPoolOps ---------------------------
(* Pure operators of the router's packet-buffer ownership discipline (C14): the single source of
   truth shared by the exhaustive model (PacketPool.tla) and the trace specification
   (PacketPoolTrace.tla).

   A buffer is, at every instant, either FREE (inside PacketPool.pool) or HELD by exactly one stage
   (a receiver's pre-fetch array, a channel, a processor, a sender's batch, a BFD sender).
   PacketPool.Get moves FREE -> HELD, PacketPool.Put moves HELD -> FREE; everything else moves a
   HELD buffer from one stage to the next without touching the pool.                            *)
EXTENDS Integers, Sequences

Max(a, b) == IF a > b THEN a ELSE b
Min(a, b) == IF a < b THEN a ELSE b

-----------------------------------------------------------------------------
(* Sizing, as in dataPlane.Run / initPacketPool. *)
ProcQSize(nConn, batch, nProc) == Max((nConn * batch) \div nProc, batch)

PoolSize(nIf, nConn, batch, nProc, nSlow) ==
    nIf * batch + (nProc + nSlow) * (ProcQSize(nConn, batch, nProc) + 1) + nIf * 2 * batch

-----------------------------------------------------------------------------
(* The pool as an abstract data type over buffer states.
   st is a function  buffer -> "free" | "held" | "none"   ("none": not yet added by initPacketPool). *)
GetVerdict(st, b) ==
    IF st[b] = "free" THEN "ok"
    ELSE IF st[b] = "held" THEN "get-of-owned-buffer"      \* the pool handed out a buffer in use
    ELSE "get-of-unknown-buffer"

PutVerdict(st, b, isInit) ==
    IF st[b] = "held" THEN "ok"
    ELSE IF st[b] = "none" THEN (IF isInit THEN "ok" ELSE "put-of-unknown-buffer")
    ELSE "double-put"                                      \* returned twice

AfterGet(st, b) == [st EXCEPT ![b] = "held"]
AfterPut(st, b) == [st EXCEPT ![b] = "free"]

-----------------------------------------------------------------------------
(* udpConnection.receive: after ReadBatch returned numPkts of batch messages, the slots
   numPkts+1 .. batch (1-based) still hold pre-fetched, unused buffers; the next round re-fills the
   slots 1 .. numPkts; at exit exactly the unused ones go back to the pool.                      *)
RecvRefill(numPkts) == 1 .. numPkts
RecvReusable(batch, numPkts) == (numPkts + 1) .. batch

(* readUpTo(queue, n, needsBlocking): number of packets taken from a queue of length qlen.
   With needsBlocking the caller sleeps while the queue is empty and open ("wait").              *)
ReadUpTo(qlen, n, blocking, closed) ==
    IF blocking /\ qlen = 0 /\ ~closed THEN -1 ELSE Min(qlen, n)

(* udpConnection.send after WriteBatch returned `written` (already clamped to >= 0) of toWrite:
   pkts[1..written] are returned to the pool; if written # toWrite, pkts[written+1] is dropped
   (returned to the pool) and the rest is shifted to the head of the batch.                      *)
SendReturned(written, toWrite) ==
    IF written # toWrite THEN 1 .. (written + 1) ELSE 1 .. written
SendLeft(written, toWrite) == IF written # toWrite THEN toWrite - (written + 1) ELSE 0
SendShift(pkts, written, toWrite, nil) ==       \* stale entries behind the new toWrite become nil
    IF written # toWrite
      THEN [i \in DOMAIN pkts |-> IF i <= toWrite - (written + 1) THEN pkts[i + written + 1] ELSE nil]
      ELSE [i \in DOMAIN pkts |-> nil]
=============================================================================
