SPECIFICATION Spec
CONSTANTS
  Inits = {1}
  MaxSerial = 4
  MaxSteps = 2
  Kinds1 = {"fetcherr", "badsig", "wrongpred", "wrongserial", "stale", "otherbase", "otherisd", "inserterr"}
  Kinds2 = {"badsig"}
  Variants1 = {"ok"}
  Variants2 = {"ok"}
  LoadSteps = {1}
  MaxFiles = 3
INVARIANTS Emit
VIEW View
CHECK_DEADLOCK FALSE
