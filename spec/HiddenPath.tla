----------------------------- MODULE HiddenPath -----------------------------
(* C45: a hidden-path registry + server of one AS (Local) over the C27 segment store.
   State: the store.  Actions: Register(peer, group, segments) as RegistryServer.Register decides;
   requests do not change the state, so they are checked as invariants over ALL requests in every
   reachable state.  A history is one set-up registration followed by one registration from the full
   alphabet (MaxOps = 2) or two from the full alphabet (thorough); the generator prints every history,
   the driver executes it on the real RegistryServer / AuthoritativeServer / Storer / sqlite path DB and
   then issues the whole request battery.                                                        *)
EXTENDS HiddenPathOps, TLC, Json

CONSTANTS NCfg, FullFirst, Gen

VARIABLES cfg, store, hist, regd   \* regd: (segment id, group) pairs of accepted registrations
vars == <<cfg, store, hist, regd>>

Local == 15
Peers == {11, 12, 14}
G(g, owner, w, r, regs) == [g |-> g, owner |-> owner, writers |-> w, readers |-> r, regs |-> regs]
\* JSON friendly (sequences)
Cfgs == <<
  [local |-> Local, groups |-> <<G(1, 11, <<12>>, <<14>>, <<15>>), G(2, 12, <<12, 14>>, <<>>, <<15, 16>>)>>],
  [local |-> Local, groups |-> <<G(1, 14, <<11, 12>>, <<11>>, <<16>>), G(2, 11, <<14>>, <<12>>, <<15>>)>>],
  [local |-> Local, groups |-> <<G(1, 15, <<12>>, <<>>, <<15, 12>>), G(2, 14, <<12, 11>>, <<11>>, <<15>>)>>]
>>
GroupsOf == [c \in 1..Len(Cfgs) |->
               {[g |-> x.g, owner |-> x.owner, writers |-> Range(x.writers), readers |-> Range(x.readers),
                 regs |-> Range(x.regs)] : x \in Range(Cfgs[c].groups)}]
Groups == GroupsOf[cfg]

H(ia, in, eg) == [ia |-> ia, in |-> in, eg |-> eg]
D(id, sv, hops, bad) == [id |-> id, ts |-> 0, sv |-> sv, exp |-> 1350, hops |-> hops, peers |-> <<>>,
                         next |-> 0, bad |-> bad]
S1 == <<H(11, 0, 1), H(13, 2, 0)>>
S2 == <<H(11, 0, 3), H(12, 4, 5), H(13, 6, 0)>>
S3 == <<H(11, 0, 7), H(12, 8, 0)>>
S4 == <<H(21, 0, 1), H(13, 9, 0)>>
Pool == << D(<<1>>, 3, S1, <<>>),      \* 1  ends at 13
           D(<<1>>, 5, S1, <<>>),      \* 2  newer version of 1
           D(<<2>>, 3, S2, <<>>),      \* 3  ends at 13
           D(<<3>>, 3, S3, <<>>),      \* 4  ends at 12
           D(<<4>>, 3, S4, <<2>>) >>   \* 5  ends at 13, second signature does not verify
Seg(p, t) == [p |-> p, type |-> t]
SegSets == {<<Seg(1, 2)>>, <<Seg(2, 2)>>, <<Seg(3, 2), Seg(4, 2)>>, <<Seg(1, 2), Seg(5, 2)>>,
            <<Seg(3, 1)>>, <<Seg(4, 2), Seg(3, 3)>>}
GroupNos == {1, 2, 3}                  \* 3 is not configured anywhere
Full == {[op |-> "reg", peer |-> p, g |-> g, segs |-> s] : p \in Peers, g \in GroupNos, s \in SegSets}
Setup == {[op |-> "reg", peer |-> 12, g |-> 1, segs |-> <<Seg(1, 2)>>],
          [op |-> "reg", peer |-> 12, g |-> 2, segs |-> <<Seg(1, 2)>>],
          [op |-> "reg", peer |-> 14, g |-> 2, segs |-> <<Seg(3, 2), Seg(4, 2)>>],
          [op |-> "reg", peer |-> 12, g |-> 1, segs |-> <<Seg(2, 2)>>],
          [op |-> "reg", peer |-> 11, g |-> 1, segs |-> <<Seg(3, 2), Seg(4, 2)>>]}
\* the request battery
ReqGroups == {<<1>>, <<2>>, <<1, 2>>, <<1, 3>>, <<>>}
Dsts == {13, 12}
Reqs == {[op |-> "req", peer |-> p, gs |-> gs, dst |-> d] : p \in Peers \cup {15}, gs \in ReqGroups, d \in Dsts}

Init == /\ cfg \in 1..NCfg /\ store = {} /\ hist = <<>> /\ regd = {}
        /\ (Gen /\ cfg = 1) => /\ PrintT(<<"CFGS", ToJson(SubSeq(Cfgs, 1, NCfg))>>)
                               /\ PrintT(<<"POOL", ToJson(Pool)>>)
                               /\ PrintT(<<"REQS", ToJson(Reqs)>>)

Register(r) ==
    /\ LET ok == RegisterVerdict(Groups, Local, r.peer, r.g, r.segs, Pool) = "ok" IN
       /\ store' = IF ok THEN PutAll(store, Pool, r.segs, r.g) ELSE store
       /\ regd' = IF ok THEN regd \cup {<<Pool[r.segs[i].p].id, r.g>> : i \in 1..Len(r.segs)} ELSE regd
    /\ hist' = Append(hist, r)
    /\ (Gen /\ Len(hist') = 2) => PrintT(<<"SCN", ToJson([cfg |-> cfg, steps |-> hist'])>>)
    /\ UNCHANGED cfg

Next == \/ Len(hist) = 0 /\ \E r \in (IF FullFirst THEN Full ELSE Setup) : Register(r)
        \/ Len(hist) = 1 /\ \E r \in Full : Register(r)
Spec == Init /\ [][Next]_vars

-----------------------------------------------------------------------------
(* The statement. *)
GroupSet(g) == {x \in Groups : x.g = g}

\* stored for a group only if the group exists, the registering AS is a writer, this AS is a registry,
\* all segments are down segments and verify  (checked on the step that changes the store)
RegistryOnlyIf ==
    [][store' # store =>
         LET r == hist'[Len(hist')] IN
         /\ \E x \in GroupSet(r.g) : r.peer \in x.writers /\ Local \in x.regs
         /\ \A i \in 1..Len(r.segs) : r.segs[i].type = 2 /\ Pool[r.segs[i].p].bad = <<>>
         \* and nothing but the registered segments/group changes
         /\ \A e \in store' \ store : r.g \in e.groups /\ \E i \in 1..Len(r.segs) : Pool[r.segs[i].p].id = Pool[e.p].id]_vars

\* every stored hidden segment is a verified down segment registered under each of its groups
StoredWereRegistered ==
    \A e \in store : /\ e.types = {2} /\ Pool[e.p].bad = <<>>
                     /\ \A g \in e.groups : <<Pool[e.p].id, g>> \in regd

\* the server answers only if every requested group exists, the requester is owner / writer / reader /
\* registry of it and this AS is a registry of it; the answer holds only segments registered under a
\* requested group that end at the destination
ServerOnlyIf ==
    \A q \in Reqs :
        RequestVerdict(Groups, Local, q.peer, Range(q.gs)) = "ok" =>
            /\ q.gs # <<>>
            /\ \A g \in Range(q.gs) : \E x \in GroupSet(g) :
                  /\ q.peer \in {x.owner} \cup x.writers \cup x.readers \cup x.regs
                  /\ Local \in x.regs
            /\ \A p \in Served(store, Pool, Range(q.gs), q.dst) :
                  /\ End(Pool[p]) = q.dst
                  /\ \E g \in Range(q.gs) : <<Pool[p].id, g>> \in regd

\* NOT an invariant of the C27 store (an equal-version re-registration under another group is ignored):
\* checked by HiddenPathDev.cfg to exhibit the counterexample; never a verdict about the code
ServesEveryRegistration ==
    \A pr \in regd : \A q \in Reqs :
        (RequestVerdict(Groups, Local, q.peer, Range(q.gs)) = "ok" /\ pr[2] \in Range(q.gs)
            /\ \E e \in store : Pool[e.p].id = pr[1] /\ End(Pool[e.p]) = q.dst)
        => \E p \in Served(store, Pool, Range(q.gs), q.dst) : Pool[p].id = pr[1]
=============================================================================
