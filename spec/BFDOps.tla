------------------------------ MODULE BFDOps ------------------------------
(* C16 - pure operators of a BFD session (RFC 5880, asynchronous mode, no echo / demand / auth):
   single source of truth for the exhaustive two-session model (BFD.tla) and the trace
   specification (BFDTrace.tla).                                                              *)
EXTENDS Integers, Sequences

States == {"AdminDown", "Down", "Init", "Up"}
Events == States \cup {"Timer"}            \* a received state, or the expiry of the detection timer

\* numeric values used on the wire and in the recorded traces (layers.BFDState; 4 = timer, 5 = admin up)
StateName(n) == CASE n = 0 -> "AdminDown" [] n = 1 -> "Down" [] n = 2 -> "Init" [] n = 3 -> "Up"
                  [] n = 4 -> "Timer" [] n = 5 -> "AdminUp" [] OTHER -> "Unknown"

-----------------------------------------------------------------------------
(* RFC 5880 section 6.8.6 (reception of a control packet that was not discarded) and 6.8.4
   (detection time expired), written from the text:
     If bfd.SessionState is AdminDown: discard the packet.
     If received state is AdminDown:  if bfd.SessionState is not Down -> Down.
     Else if bfd.SessionState is Down:  received Down -> Init; received Init -> Up.
     Else if bfd.SessionState is Init:  received Init or Up -> Up.
     Else (Up):                         received Down -> Down.
     Detection time expires in Init or Up -> Down.                                             *)
Rfc(st, ev) ==
    IF st = "AdminDown" THEN "AdminDown"
    ELSE CASE ev = "AdminDown" -> "Down"
           [] ev = "Down"  -> IF st = "Down" THEN "Init" ELSE IF st = "Up" THEN "Down" ELSE st
           [] ev = "Init"  -> IF st \in {"Down", "Init"} THEN "Up" ELSE st
           [] ev = "Up"    -> IF st = "Init" THEN "Up" ELSE st
           [] ev = "Timer" -> IF st \in {"Init", "Up"} THEN "Down" ELSE st

(* The relation as it is in router/bfd - open known finding D4 - (fsm.go `transition` driven by Session.Run with
   event(receivedState)): a received AdminDown moves every state to AdminDown, and nothing but the
   never generated eventAdminUp leaves AdminDown (DESIGN.md section 7, D4).                     *)
Code(st, ev) == IF st = "AdminDown" \/ ev = "AdminDown" THEN "AdminDown" ELSE Rfc(st, ev)

-----------------------------------------------------------------------------
(* Packet admission, RFC 5880 section 6.8.6 first part, on the abstract packet
   [ver, lenok, mult, multipoint, my, your, state (name)]; discriminators are abstract small
   integers, 0 = zero. *)
RfcDiscard(p) == \/ p.ver # 1
                 \/ ~p.lenok
                 \/ p.mult = 0
                 \/ p.multipoint
                 \/ p.my = 0
                 \/ (p.your = 0 /\ p.state \notin {"Down", "AdminDown"})
=============================================================================
