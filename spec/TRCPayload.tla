----------------------------- MODULE TRCPayload -----------------------------
(* C33: the space of TRC payloads explored by TLC.  A case is one of a few valid base payloads
   with up to Depth mutations applied (every mutation aims at one rule of the statement, or is a
   validity-preserving variation).  TLC
     * checks in-model that the decision procedure shaped like TRC.Validate() accepts only payloads
       that are valid according to the statement (PayloadValid) -- invariant CodeSound,
     * cross-checks the two formulations of the statement (RuleConsistent),
     * emits every distinct case as a scenario for the driver (invariant Emit, Gen configs).
   Certificates are indices into CertPool so that scenarios stay small.                        *)
EXTENDS TRCOps, TLC, Json

CONSTANTS Depth,             \* number of mutations applied to the base payloads in DeepIds (0..Depth)
          DeepIds,
          BaseIds,           \* which base payloads are used (those not in DeepIds get <= 1 mutation)
          BigQuorums,        \* quorum values tried on the 513-certificate payload (base 5)
          QuorumLowerBound,  \* see TRCOps!CodeValidate
          EmitScenarios      \* TRUE in generator configs

C(cls, subj, iss, sn, isd, nb, na, ver) ==
    [cls |-> cls, subj |-> subj, iss |-> iss, sn |-> sn, isd |-> isd, nb |-> nb, na |-> na, ver |-> ver]

ExplicitPool == <<
    C("sens", 1, 1, 1, 1, -10, 20, 1),     \*  1  base pool: two sensitive, two regular, one root
    C("sens", 2, 2, 2, 1, -10, 20, 1),     \*  2
    C("reg",  3, 3, 3, 1, -10, 20, 1),     \*  3
    C("reg",  4, 4, 4, 1, -10, 20, 1),     \*  4
    C("root", 5, 5, 5, 1, -10, 20, 1),     \*  5
    C("sens", 6, 6, 6, 1, 0, 10, 1),       \*  6  valid extra: validity exactly the TRC's
    C("reg",  7, 7, 1, 1, -10, 20, 1),     \*  7  valid extra: serial number of #1, other issuer
    C("reg",  1, 1, 9, 1, -10, 20, 1),     \*  8  valid extra: subject of #1 in another class
    C("reg",  8, 1, 77, 1, -10, 20, 1),    \*  9  valid extra: issued under the name of #1, other serial
    C("sens", 9, 9, 10, 0, -10, 20, 1),    \* 10  valid extra: voting certificate without ISD-AS
    C("ca",   10, 5, 11, 1, -10, 20, 1),   \* 11  unclassifiable: CA certificate
    C("as",   11, 10, 12, 1, -10, 20, 1),  \* 12  unclassifiable: AS certificate
    C("both", 12, 12, 13, 1, -10, 20, 1),  \* 13  unclassifiable: sensitive + regular usage
    C("sensds", 13, 13, 14, 1, -10, 20, 1),\* 14  unclassifiable: sensitive with digitalSignature
    C("rootnoca", 14, 14, 15, 1, -10, 20, 1), \* 15 unclassifiable: root usage without CA constraint
    C("regca", 15, 15, 16, 1, -10, 20, 1), \* 16  unclassifiable: regular voting with CA constraint
    C("sens", 16, 16, 17, 2, -10, 20, 1),  \* 17  other ISD
    C("root", 17, 17, 18, 2, -10, 20, 1),  \* 18  other ISD
    C("reg",  18, 18, 19, 1, 1, 20, 1),    \* 19  starts after the TRC
    C("reg",  19, 19, 20, 1, -10, 9, 1),   \* 20  ends before the TRC
    C("reg",  1, 1, 1, 1, -10, 20, 1),     \* 21  issuer/serial of #1 (other class)
    C("reg",  20, 1, 1, 1, -10, 20, 1),    \* 22  issuer/serial of #1 (issued under the name of #1)
    C("sens", 1, 1, 21, 1, -10, 20, 2),    \* 23  subject of #1 in the same class (re-issued)
    C("root", 5, 5, 22, 1, -10, 20, 2),    \* 24  subject of #5 in the same class
    C("sens", 21, 21, 23, 2, -10, 20, 1),  \* 25  ISD 2 pool for the base-number-2 payload
    C("reg",  22, 22, 24, 2, -10, 20, 1),  \* 26
    C("root", 23, 23, 25, 2, -10, 20, 1),  \* 27
    C("sens", 24, 24, 26, 0, -10, 20, 1),  \* 28  minimal payload: voting certificates without ISD-AS,
    C("reg",  24, 24, 27, 0, -10, 20, 1),  \* 29      same subject in both classes
    C("root", 25, 25, 28, 3, -10, 20, 1),  \* 30      ISD 65535
    \* every per-certificate rule also for certificates without ISD-AS attribute
    C("reg",  26, 26, 29, 0, 1, 20, 1),    \* 31  no ISD-AS, starts after the TRC
    C("sens", 27, 27, 30, 0, -10, 9, 1),   \* 32  no ISD-AS, ends before the TRC
    C("reg",  24, 24, 31, 0, -10, 20, 2)   \* 33  no ISD-AS, subject of #29 in the same class
>>

\* 31..286: 256 further sensitive, 287..542: 256 further regular voting certificates (for quorum 255 / 256)
NExplicit == Len(ExplicitPool)
CertPool == [i \in 1..(NExplicit + 512) |->
               IF i <= NExplicit THEN ExplicitPool[i]
               ELSE IF i <= NExplicit + 256 THEN C("sens", 100 + i, 100 + i, 100 + i, 1, -10, 20, 1)
               ELSE C("reg", 100 + i, 100 + i, 100 + i, 1, -10, 20, 1)]

BaseA == [ver |-> 1, isd |-> 1, base |-> 1, serial |-> 1, nb |-> 0, na |-> 10, grace |-> 0,
          reset |-> TRUE, votes |-> <<>>, quorum |-> 2, core |-> <<1, 2>>, auth |-> <<1>>,
          desc |-> 1, certs |-> <<1, 2, 3, 4, 5>>]
BaseB == [BaseA EXCEPT !.serial = 3, !.grace = 2, !.votes = <<0, 1>>, !.reset = FALSE, !.desc = 2]
BaseC == [BaseA EXCEPT !.isd = 2, !.base = 2, !.serial = 2, !.quorum = 1, !.core = <<3>>,
                       !.auth = <<3>>, !.certs = <<27, 26, 25>>]
BaseD == [BaseA EXCEPT !.isd = 3, !.serial = 2, !.quorum = 1, !.core = <<4, 5>>, !.auth = <<5, 4>>,
                       !.desc = 0, !.votes = <<2>>, !.certs = <<28, 29, 30>>]
\* 256 sensitive + 256 regular voters: the only way to see the upper quorum bound by itself
BaseE == [BaseA EXCEPT !.quorum = 255, !.certs = <<5>> \o [i \in 1..512 |-> NExplicit + i]]
Bases == <<BaseA, BaseB, BaseC, BaseD, BaseE>>

VoteLists == <<(<<>>), <<0>>, <<0, 0>>, <<-1, 7>>>>
ASLists == <<(<<>>), <<0>>, <<1, 1>>, <<1, 0>>, <<2, 1, 3, 4, 5>>, <<3>>>>

Muts ==
    [k : {"ver"}, a : {0, 2}, b : {0}] \cup
    [k : {"isd"}, a : {0, 2}, b : {0}] \cup
    [k : {"id"}, a : {0, 1, 2}, b : {0, 1, 2, 4}] \cup
    [k : {"validity"}, a : {0, 5, 6, -10, -11}, b : {5, 10, 20, 21}] \cup
    [k : {"grace"}, a : {0, 1}, b : {0}] \cup
    [k : {"votes"}, a : 1..Len(VoteLists), b : {0}] \cup
    [k : {"quorum"}, a : {-256, -1, 0, 1, 2, 3, 255, 256}, b : {0}] \cup
    [k : {"core", "auth"}, a : 1..Len(ASLists), b : {0}] \cup
    [k : {"reset"}, a : {0}, b : {0}] \cup
    [k : {"addcert"}, a : (1..24) \cup {31, 32, 33}, b : {0}] \cup
    [k : {"delcert"}, a : 1..5, b : {0}] \cup
    [k : {"swapcert"}, a : 1..3, b : {19, 20, 17, 23, 6}]

RemoveAt(s, i) == [j \in 1..(Len(s) - 1) |-> IF j < i THEN s[j] ELSE s[j + 1]]

Apply(p, m) ==
    CASE m.k = "ver" -> [p EXCEPT !.ver = m.a]
      [] m.k = "isd" -> [p EXCEPT !.isd = m.a]
      [] m.k = "id" -> [p EXCEPT !.base = m.a, !.serial = m.b]
      [] m.k = "validity" -> [p EXCEPT !.nb = m.a, !.na = m.b]
      [] m.k = "grace" -> [p EXCEPT !.grace = m.a]
      [] m.k = "votes" -> [p EXCEPT !.votes = VoteLists[m.a]]
      [] m.k = "quorum" -> [p EXCEPT !.quorum = m.a]
      [] m.k = "core" -> [p EXCEPT !.core = ASLists[m.a]]
      [] m.k = "auth" -> [p EXCEPT !.auth = ASLists[m.a]]
      [] m.k = "reset" -> [p EXCEPT !.reset = ~@]
      [] m.k = "addcert" -> [p EXCEPT !.certs = Append(@, m.a)]
      [] m.k = "delcert" -> IF m.a <= Len(p.certs) THEN [p EXCEPT !.certs = RemoveAt(@, m.a)] ELSE p
      [] m.k = "swapcert" -> IF m.a <= Len(p.certs) THEN [p EXCEPT !.certs[m.a] = m.b] ELSE p

Expand(p) == [p EXCEPT !.certs = [i \in 1..Len(p.certs) |-> CertPool[p.certs[i]]]]

VARIABLES p,      \* the case (certificates as pool indices)
          depth,  \* number of mutations applied so far
          maxd    \* number of mutations allowed for this base payload
vars == <<p, depth, maxd>>

Init == \E b \in BaseIds : p = Bases[b] /\ depth = 0 /\ maxd = IF b \in DeepIds THEN Depth ELSE 1
Mutate == /\ depth < maxd
          /\ \E m \in (IF Len(p.certs) > 100 THEN {x \in Muts : x.k = "quorum" /\ x.a \in BigQuorums} ELSE Muts) : p' = Apply(p, m) /\ p' # p
          /\ depth' = depth + 1
          /\ UNCHANGED maxd
Next == Mutate
Spec == Init /\ [][Next]_vars

\* depth is not part of the case: the same payload reached by different routes is one state
View == <<p, maxd>>

-----------------------------------------------------------------------------
\* (the quadratic formulations are skipped for the 513-certificate payload)
Small == Len(p.certs) < 100
CodeSound == Small => (CodeValidate(Expand(p), QuorumLowerBound) => PayloadValid(Expand(p)))
RuleConsistent == Small => (PayloadValid(Expand(p)) <=> PayloadValidConj(Expand(p)))
\* not an invariant of interest, only to see valid payloads rejected by the code shape (none expected)
CodeComplete == Small => (PayloadValid(Expand(p)) => CodeValidate(Expand(p), QuorumLowerBound))

Emit == EmitScenarios => PrintT(<<"SCN", ToJson(p)>>)
PoolJson == ToJson(CertPool)
ASSUME EmitScenarios => PrintT(<<"POOL", PoolJson>>)
=============================================================================
