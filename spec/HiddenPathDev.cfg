SPECIFICATION Spec
CONSTANTS
  NCfg = 1
  FullFirst = FALSE
  Gen = FALSE
INVARIANTS ServesEveryRegistration
CHECK_DEADLOCK FALSE
