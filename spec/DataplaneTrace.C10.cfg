SPECIFICATION Spec
CONSTANT Prop = "C10"
CHECK_DEADLOCK FALSE
