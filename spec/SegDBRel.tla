------------------------------ MODULE SegDBRel ------------------------------
(* C27, implementation-shaped layer: the path-segment DB as the sqlite backend keeps it - tables
   Segments / SegTypes / HPGroupIDs / IntfToSeg, row ids allocated as max+1, inserts and updates as in
   private/storage/path/sqlite (insertFull / updateExisting), queries as the SQL join + GROUP BY of
   buildQuery - explored in lockstep with the abstract store of SegDBOps.
   Refinement (checked as invariants): the tables always represent the abstract store, and the join
   returns exactly PGet for every filter of a filter family.
   Cascade = TRUE  : ON DELETE CASCADE fires (the schema's intent)            -> refinement holds.
   Cascade = FALSE : foreign keys are not enforced (the defect this check found in /repo: the pragma
                     never reached the driver)  -> TLC finds insert A, delete A, insert B: B inherits
                     A's types / groups / interfaces through the reused row id.  Used only to SHOW
                     the counterexample (SegDBRelNoFK.cfg); verdicts come from the real code.       *)
EXTENDS SegDBOps, TLC

CONSTANTS MaxOps, Cascade

VARIABLES segs,     \* Segments   : set of [row, p]
          typs,     \* SegTypes   : set of <<row, type>>        (PRIMARY KEY ... ON CONFLICT IGNORE)
          grps,     \* HPGroupIDs : set of <<row, group>>
          intf,     \* IntfToSeg  : set of <<row, ia, ifid>>
          abs,      \* the abstract store, updated by SegDBOps in lockstep
          n
vars == <<segs, typs, grps, intf, abs, n>>

U == 675
H(ia, in, eg) == [ia |-> ia, in |-> in, eg |-> eg]
D(id, ts, sv, exp, hops, peers) == [id |-> id, ts |-> ts, sv |-> sv, exp |-> exp, hops |-> hops, peers |-> peers]
P1 == <<H(11, 0, 1), H(12, 2, 0)>>
P2 == <<H(11, 0, 1), H(12, 2, 6), H(13, 41, 0)>>
P3 == <<H(21, 0, 3), H(13, 13, 0)>>
Pool == << D(<<0, 4, 6>>, 0, 3, 3 * U, P1, <<>>),
           D(<<0, 4, 6>>, U, 5, 2 * U, P1, << <<1, 42>> >>),
           D(<<0, 4, 1>>, 0, 3, U, P2, << <<2, 44>> >>),
           D(<<0, 4, 1>>, U, 4, 3 * U, P2, <<>>),
           D(<<0, 3, 6>>, 0, 3, 2 * U, P3, << <<2, 44>> >>) >>

InsArgs == {[type |-> 1, groups |-> {0}], [type |-> 2, groups |-> {1, 2}], [type |-> 3, groups |-> {}]}
Prefixes == {<<0, 4, 6>>, <<0, 4>>, <<0, 3, 6>>}
Nows == {U + 1, 2 * U + 1}

Init == segs = {} /\ typs = {} /\ grps = {} /\ intf = {} /\ abs = {} /\ n = 0

Rows == {s.row : s \in segs}
MaxRow == IF Rows = {} THEN 0 ELSE CHOOSE r \in Rows : \A q \in Rows : q <= r
IntfRows(r, p) == {<<r, x[1], x[2]>> : x \in Ifaces(Pool[p])}
SameFullID(p, q) == Pool[p].id = Pool[q].id /\ Pool[p].peers = Pool[q].peers

\* insert(): get() by SegID, then insertFull or (strictly newer) updateExisting
Insert(p, a) ==
    LET old == {s \in segs : Pool[s.p].id = Pool[p].id}
        gs == IF a.groups = {} THEN {0} ELSE a.groups IN
    /\ IF old = {} THEN
          LET r == MaxRow + 1 IN          \* sqlite: INTEGER PRIMARY KEY without AUTOINCREMENT
          /\ segs' = segs \cup {[row |-> r, p |-> p]}
          /\ typs' = typs \cup {<<r, a.type>>}
          /\ grps' = grps \cup {<<r, g>> : g \in gs}
          /\ intf' = intf \cup IntfRows(r, p)
       ELSE LET o == CHOOSE s \in old : TRUE IN
          IF Pool[p].sv <= Pool[o.p].sv THEN UNCHANGED <<segs, typs, grps, intf>>
          ELSE /\ segs' = (segs \ {o}) \cup {[row |-> o.row, p |-> p]}
               /\ typs' = typs \cup {<<o.row, a.type>>}
               /\ grps' = grps \cup {<<o.row, g>> : g \in a.groups}
               /\ intf' = IF SameFullID(p, o.p) THEN intf
                          ELSE {x \in intf : x[1] # o.row} \cup IntfRows(o.row, p)
    /\ abs' = PInsert(abs, Pool, p, a.type, a.groups)

\* DELETE FROM Segments WHERE ...; the other tables follow only through ON DELETE CASCADE
DeleteRows(del) ==
    /\ segs' = segs \ del
    /\ LET rs == {s.row : s \in del} IN
       IF Cascade THEN /\ typs' = {x \in typs : x[1] \notin rs}
                       /\ grps' = {x \in grps : x[1] \notin rs}
                       /\ intf' = {x \in intf : x[1] \notin rs}
       ELSE UNCHANGED <<typs, grps, intf>>

Delete(pre) == /\ DeleteRows({s \in segs : IsPrefix(pre, Pool[s.p].id)})
               /\ abs' = DeletePrefix(abs, Pool, pre)
Expire(now) == /\ DeleteRows({s \in segs : Pool[s.p].exp < now})
               /\ abs' = abs \ Expired(abs, Pool, now)

Next == /\ n < MaxOps /\ n' = n + 1
        /\ \/ \E p \in 1..Len(Pool), a \in InsArgs : Insert(p, a)
           \/ \E pre \in Prefixes : Delete(pre)
           \/ \E now \in Nows : Expire(now)
Spec == Init /\ [][Next]_vars

-----------------------------------------------------------------------------
\* the SQL query: Segments JOIN SegTypes JOIN HPGroupIDs [JOIN IntfToSeg] WHERE ... GROUP BY RowID,
\* group_concat(DISTINCT Type); one result per (row, type)
RelGet(f) ==
    LET joined == {<<s, t, g>> \in segs \X typs \X grps : t[1] = s.row /\ g[1] = s.row}
        where(j) == LET d == Pool[j[1].p] IN
            /\ f.ids = {} \/ d.id \in f.ids
            /\ f.types = {} \/ j[2][2] \in f.types
            /\ f.groups = {} \/ j[3][2] \in f.groups
            /\ f.intfs = {} \/ \E x \in intf : x[1] = j[1].row /\ <<x[2], x[3]>> \in f.intfs
            /\ f.starts = {} \/ \E x \in f.starts : PIAMatch(x, Start(d))
            /\ f.ends = {} \/ \E x \in f.ends : PIAMatch(x, End(d)) IN
    {<<j[1].p, j[2][2]>> : j \in {k \in joined : where(k)}}

Filters == {[NoFilter EXCEPT !.types = t, !.groups = g, !.intfs = i, !.ends = e] :
              t \in {{}, {1}, {2, 3}}, g \in {{}, {0}, {2}}, i \in {{}, {<<11, 1>>}, {<<11, 42>>, <<13, 44>>}},
              e \in {{}, {10}}}

\* the tables represent the abstract store
Represents ==
    /\ {[p |-> s.p, types |-> {t[2] : t \in {x \in typs : x[1] = s.row}},
         groups |-> {g[2] : g \in {x \in grps : x[1] = s.row}}, inIf |-> 0, usage |-> {}] : s \in segs} = abs
    /\ \A s \in segs : {<<x[2], x[3]>> : x \in {y \in intf : y[1] = s.row}} = Ifaces(Pool[s.p])
\* and queries agree
QueriesAgree == \A f \in Filters : RelGet(f) = PGet(abs, Pool, f)
=============================================================================
