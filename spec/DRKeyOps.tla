----------------------------- MODULE DRKeyOps -----------------------------
(* Pure operators of the DRKey subsystem: the single source of truth shared by the exhaustive
   models (DRKeyAdmit.tla, DRKeyDerive.tla) and the trace specifications (DRKeyAdmitTrace.tla,
   DRKeyDeriveTrace.tla).

   Part 1 (C40): who may be handed which key.  The operators are written from the *statement* of the
   property, not from the code:

     "The control service returns an AS-host key only to the host named as destination of a request
      whose destination is the local AS, a host-AS key only to the named source host of a request
      from the local AS, and a host-host key only to a named host on the local side, never for the
      generic protocol; a level-1 key is derived only for the AS authenticated by the client
      certificate.  Secret values and intra-AS level-1 keys go only to hosts configured for that
      protocol, the latter only when the local AS is an endpoint."

   An abstract request is a record
     [rpc, proto, src, dst, srcHost, dstHost, peer, allow, cert]
   rpc     : which of the six RPCs of the control service
   proto   : "generic" (id 0) | "scmp" (the predefined specific protocol) | "niche" (not predefined)
   src,dst : ISD-AS named in the request: "local" | "other"
   srcHost, dstHost : host named in the request: "peer" (the requester's own address) | "other"
             (another address) | "bad" (not an address at all)
   peer    : what the transport says about the requester: "tcp" (TCP address), "udp" (an address of
             another kind carrying the same IP), "none" (no peer information at all)
   allow   : the (host, protocol) allow-list of the service contains "hp" the pair (requester,
             requested protocol) | "hq" the requester but for another protocol | "op" another host
             with the requested protocol | "empty"
   cert    : the TLS client certificate: "noauth" | "nontls" | "nochain" | "invalid" (chain does not
             verify) | "local" | "other" (verifies, for that AS)                                   *)
EXTENDS Integers, Sequences, TLC

Rpcs    == {"lvl1", "intra", "ashost", "hostas", "hosthost", "sv"}
Protos  == {"generic", "scmp", "niche"}
IAs     == {"local", "other"}
Hosts   == {"peer", "other", "bad"}
Peers   == {"tcp", "udp", "none"}
Allows  == {"hp", "hq", "op", "empty"}
Certs   == {"noauth", "nontls", "nochain", "invalid", "local", "other"}

Requests == [rpc : Rpcs, proto : Protos, src : IAs, dst : IAs, srcHost : Hosts, dstHost : Hosts,
             peer : Peers, allow : Allows, cert : Certs]

\* The requester has an identity that a named host can be compared with.
HasIdentity(q) == q.peer # "none"
\* the requester is the host named as source / destination
IsSrcHost(q) == HasIdentity(q) /\ q.srcHost = "peer"
IsDstHost(q) == HasIdentity(q) /\ q.dstHost = "peer"
\* the requester is configured for the requested protocol
Configured(q) == HasIdentity(q) /\ q.allow = "hp"
\* the AS authenticated by the client certificate ("none" if there is no such AS)
CertIA(q) == IF q.cert \in {"local", "other"} THEN q.cert ELSE "none"

(* Admit(q): the statement permits serving q. *)
Admit(q) ==
    CASE q.rpc = "ashost"   -> q.proto # "generic" /\ q.dst = "local" /\ IsDstHost(q)
      [] q.rpc = "hostas"   -> q.proto # "generic" /\ q.src = "local" /\ IsSrcHost(q)
      [] q.rpc = "hosthost" -> q.proto # "generic" /\ \/ (q.src = "local" /\ IsSrcHost(q))
                                                      \/ (q.dst = "local" /\ IsDstHost(q))
      [] q.rpc = "lvl1"     -> CertIA(q) # "none"
      [] q.rpc = "sv"       -> Configured(q)
      [] q.rpc = "intra"    -> Configured(q) /\ (q.src = "local" \/ q.dst = "local")

(* The key that may be in the answer, as a symbolic term: which engine operation, for which
   protocol / ASes / hosts.  For the level-1 RPC the destination AS is the *authenticated* one and
   the source is the local AS, whatever else the request says.                                    *)
KeyTerm(q) ==
    CASE q.rpc = "lvl1"     -> [m |-> "DeriveLevel1", proto |-> q.proto, src |-> "local", dst |-> CertIA(q),
                                srcHost |-> "-", dstHost |-> "-"]
      [] q.rpc = "intra"    -> [m |-> "GetLevel1Key", proto |-> q.proto, src |-> q.src, dst |-> q.dst,
                                srcHost |-> "-", dstHost |-> "-"]
      [] q.rpc = "ashost"   -> [m |-> "DeriveASHost", proto |-> q.proto, src |-> q.src, dst |-> q.dst,
                                srcHost |-> "-", dstHost |-> q.dstHost]
      [] q.rpc = "hostas"   -> [m |-> "DeriveHostAS", proto |-> q.proto, src |-> q.src, dst |-> q.dst,
                                srcHost |-> q.srcHost, dstHost |-> "-"]
      [] q.rpc = "hosthost" -> [m |-> "DeriveHostHost", proto |-> q.proto, src |-> q.src, dst |-> q.dst,
                                srcHost |-> q.srcHost, dstHost |-> q.dstHost]
      [] q.rpc = "sv"       -> [m |-> "GetSecretValue", proto |-> q.proto, src |-> "-", dst |-> "-",
                                srcHost |-> "-", dstHost |-> "-"]
(* Why a request is not admitted (first failing clause of the statement), used for failure keys. *)
WhyNot(q) ==
    CASE q.rpc = "ashost"   -> IF q.proto = "generic" THEN "generic"
                               ELSE IF q.dst # "local" THEN "dst-as-not-local"
                               ELSE IF ~IsDstHost(q) THEN "not-dst-host" ELSE "-"
      [] q.rpc = "hostas"   -> IF q.proto = "generic" THEN "generic"
                               ELSE IF q.src # "local" THEN "src-as-not-local"
                               ELSE IF ~IsSrcHost(q) THEN "not-src-host" ELSE "-"
      [] q.rpc = "hosthost" -> IF q.proto = "generic" THEN "generic"
                               ELSE IF ~Admit(q) THEN "not-named-local-host" ELSE "-"
      [] q.rpc = "lvl1"     -> IF CertIA(q) = "none" THEN "no-auth-as:" \o q.cert ELSE "-"
      [] q.rpc = "sv"       -> IF ~Configured(q) THEN "not-configured:" \o q.allow ELSE "-"
      [] q.rpc = "intra"    -> IF ~Configured(q) THEN "not-configured:" \o q.allow
                               ELSE IF ~(q.src = "local" \/ q.dst = "local") THEN "local-not-endpoint"
                               ELSE "-"
-----------------------------------------------------------------------------
(* Part 2 (C39): the documented key hierarchy as symbolic terms (strings, so that any two terms can
   be compared).  doc/cryptography/drkey: a secret value belongs to (AS secret, protocol, epoch); a
   level-1 key to (secret value, destination AS); AS-host / host-AS keys to (level-1 key, key type,
   host) — and, for protocols that are not predefined, the protocol number, the level-1 key then
   being the one of the generic protocol 0; a host-host key to (host-AS key, destination host).
   Two derivations yield the same key iff their terms are equal.                                *)
Generic == 0
PredefinedProtos == {0, 1}          \* PROTOCOL_GENERIC_UNSPECIFIED, PROTOCOL_SCMP
Predefined(p) == p \in PredefinedProtos
L1Proto(p) == IF Predefined(p) THEN p ELSE Generic        \* protocol of the secret value / level-1 key
Mode(p) == IF Predefined(p) THEN "specific" ELSE "generic" \* level-2 derivation used for protocol p

SVTerm(secret, p, eb, ee) ==
    "sv(" \o secret \o "," \o ToString(p) \o "," \o ToString(eb) \o "-" \o ToString(ee) \o ")"
L1Term(sv, dstIA) == "l1(" \o sv \o "," \o dstIA \o ")"
\* kt: "ashost" | "hostas"; mode "generic" puts the protocol number into the derivation input
L2Term(kt, l1, mode, p, host) ==
    kt \o "(" \o l1 \o "," \o mode \o (IF mode = "generic" THEN ":" \o ToString(p) ELSE "") \o "," \o host \o ")"
HHTerm(hostas, dstHost) == "hosthost(" \o hostas \o "," \o dstHost \o ")"

(* The key a request for protocol p must yield, per key type, from the AS secret of the source AS. *)
DocSV(secret, p, eb, ee) == SVTerm(secret, p, eb, ee)
DocL1(secret, p, eb, ee, dst) == L1Term(SVTerm(secret, p, eb, ee), dst)
DocL2(kt, secret, p, eb, ee, dst, host) ==
    L2Term(kt, L1Term(SVTerm(secret, L1Proto(p), eb, ee), dst), Mode(p), p, host)
DocHH(secret, p, eb, ee, dst, srcHost, dstHost) ==
    HHTerm(DocL2("hostas", secret, p, eb, ee, dst, srcHost), dstHost)

(* Acceptance window (integers, one time unit).  A key of epoch [eb, ee] may be selected for the
   relative timestamp ts at local time now only if the absolute time eb + ts lies in the epoch
   extended by the grace period, and in the acceptance window [now - w/2, now + w/2].            *)
AbsTime(eb, ts) == eb + ts
InEpochWithGrace(eb, ee, grace, t) == eb <= t /\ t <= ee + grace
InWindow(now, w, t) == now - (w \div 2) <= t /\ t <= now + (w \div 2)
MaySelect(eb, ee, grace, now, w, ts) ==
    InEpochWithGrace(eb, ee, grace, AbsTime(eb, ts)) /\ InWindow(now, w, AbsTime(eb, ts))
=============================================================================
