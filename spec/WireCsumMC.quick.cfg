SPECIFICATION Spec
CONSTANTS
  ByteVals <- BytesQuick
  MaxPayload = 3
  AddrVecs <- AddrQuick
  OddTail = TRUE
INVARIANTS TypeOK SumIsFFFF FlipsDetected
CHECK_DEADLOCK FALSE
