SPECIFICATION Spec
CONSTANTS
  ByteVals <- BytesQuick
  MaxPayload = 2
  AddrVecs <- AddrQuick
  OddTail = TRUE
INVARIANTS TypeOK SumIsFFFF FlipsDetected
CHECK_DEADLOCK FALSE
