SPECIFICATION Spec
CONSTANTS
  ByteVals <- BytesQuick
  MaxPayload = 2
  AddrVecs <- AddrQuick
  OddTail = TRUE
INVARIANTS TypeOK SumIsFFFF FlipsDetected OnlyTwinVerifies
CHECK_DEADLOCK FALSE
