SPECIFICATION Spec
CONSTANTS
  Depth = 1
  DeepIds = {}
  BaseIds = {1}
  BigQuorums = {256}
  QuorumLowerBound = FALSE
  EmitScenarios = FALSE
INVARIANTS CodeSound
VIEW View
CHECK_DEADLOCK FALSE
