SPECIFICATION Spec
CONSTANTS
  Links = {1, 2, 3}
  MaxLen = 2
  MaxN = 4
  MaxK = 5
  Shape = "stmt"
INVARIANTS NoPanic WellFormed LastChoice
CHECK_DEADLOCK FALSE
