------------------------------- MODULE SegDB -------------------------------
(* C27: the abstract beacon store / path-segment store as a state machine over a small pool of
   overlapping segment versions.  Two uses:
     * exhaustive (SegDBMC.*.cfg): every reachable abstract store under all operation sequences of
       length <= MaxOps; the properties of the statement that are about *evolution* are checked as
       invariants / action properties (versions never go back, types and groups only accumulate
       while an id stays stored, next-query times never decrease, queries return stored entries
       only, candidate lists are shortest-first prefixes, clean-up removes exactly the expired);
     * generator (SegDBGen.*.cfg): the history is part of the state, so TLC enumerates ALL operation
       histories of length MaxOps over the alphabet and prints each one (SCN lines); the driver
       executes them on the real sqlite backends and SegDBTrace.tla replays them.
   The database implementation has hidden state the abstract store does not have (row ids, orphan
   rows, index tables), which is why histories - not just abstract states - are enumerated.   *)
EXTENDS SegDBOps, TLC, Json

CONSTANTS Kind,      \* "p" path-segment DB, "b" beacon DB
          MaxOps,    \* history length
          Gen,       \* TRUE: print every complete history
          Alphabet,  \* "small" | "large" | "nq" (next-query operations only, all keys of NQPairs)
          Tx         \* TRUE: transactions of the path DB (begin / commit / rollback) are part of the alphabet

VARIABLES store, nq, hist,
          snap       \* <<>> or <<store, nq>> at the begin of the open transaction
vars == <<store, nq, hist, snap>>

U == 675
H(ia, in, eg) == [ia |-> ia, in |-> in, eg |-> eg]
D(id, ts, sv, exp, hops, peers, next) ==
    [id |-> id, ts |-> ts, sv |-> sv, exp |-> exp, hops |-> hops, peers |-> peers, next |-> next]

(* Pools.  Every updatable attribute differs between the versions of an id in both directions (expiry
   earlier / later, peer entries gained / lost, ingress interface and usage through the operation
   arguments), so an update that leaves a column stale or merges it shows.  Interface numbers are those for which the REAL segment ids (sha256 over the hops) have the
   prefix relations of the short model ids: P1/P2 share two hex digits, P3 shares one with them. *)
P1 == <<H(11, 0, 1), H(12, 2, 0)>>
P2 == <<H(11, 0, 1), H(12, 2, 6), H(13, 41, 0)>>
P3 == <<H(21, 0, 3), H(13, 13, 0)>>
PathPool ==
    << D(<<0, 4, 6>>, 0, 3, 3 * U, P1, <<>>, 0),              \* 1
       D(<<0, 4, 6>>, U, 5, 2 * U, P1, << <<1, 42>> >>, 0),   \* 2  newer, expires EARLIER, gains a peer entry (FullID changes)
       D(<<0, 4, 1>>, 0, 3, U, P2, << <<2, 44>> >>, 0),       \* 3
       D(<<0, 4, 1>>, U, 4, 3 * U, P2, <<>>, 0),              \* 4  newer, expires later, loses its peer entry
       D(<<0, 4, 6>>, 2 * U, 5, 3 * U, P1, <<>>, 0),          \* 5  same version as 2, other payload
       D(<<0, 3, 6>>, 0, 3, 2 * U, P3, << <<2, 44>> >>, 0) >> \* 6

B1 == <<H(11, 0, 1), H(12, 2, 3)>>
B2 == <<H(11, 0, 1), H(12, 2, 3), H(14, 111, 7)>>
B3 == <<H(21, 0, 3), H(12, 17, 4)>>
B4 == <<H(12, 0, 9)>>
BeaconPool ==
    << D(<<14, 13, 14>>, 0, 0, 3 * U, B1, <<>>, 13),          \* 1
       D(<<14, 13, 14>>, U, 1, 2 * U, B1, <<>>, 13),          \* 2  newer, expires EARLIER
       D(<<14, 13, 5>>, 0, 0, U, B2, <<>>, 13),               \* 3  longer
       D(<<14, 13, 5>>, U, 2, 3 * U, B2, <<>>, 13),           \* 4  newer
       D(<<14, 13, 14>>, U, 3, 3 * U, B1, << <<1, 42>> >>, 13), \* 5  same version as 2, other payload
       D(<<14, 7, 8>>, 0, 0, 2 * U, B3, <<>>, 13),            \* 6
       D(<<3, 3, 3>>, 0, 0, U, B4, <<>>, 13) >>               \* 7  one hop
Pool == IF Kind = "p" THEN PathPool ELSE BeaconPool
NPool == IF Alphabet = "small" THEN 4 ELSE Len(Pool)

-----------------------------------------------------------------------------
(* Operation alphabet (records as handed to the driver; sets are sequences there). *)
InsArgs == IF Kind = "p"
             THEN IF Alphabet = "small"
                    THEN {[type |-> 1, groups |-> <<0>>], [type |-> 2, groups |-> <<1, 2>>]}
                    ELSE {[type |-> 1, groups |-> <<0>>], [type |-> 2, groups |-> <<1, 2>>],
                          [type |-> 3, groups |-> <<>>]}
             ELSE IF Alphabet = "small"
                    THEN {[inIf |-> 1, usage |-> <<1, 8>>], [inIf |-> 2, usage |-> <<2>>]}
                    ELSE {[inIf |-> 1, usage |-> <<1, 8>>], [inIf |-> 2, usage |-> <<2>>],
                          [inIf |-> 2, usage |-> <<1, 2, 8>>]}
\* deletions: (pool element, number of hex digits); 64 = the full id
DelArgs == IF Alphabet = "small" THEN {<<1, 64>>, <<1, 2>>, <<3, 64>>}
           ELSE {<<1, 64>>, <<1, 2>>, <<1, 1>>, <<3, 64>>}
Nows == IF Alphabet = "small" THEN {U, 2 * U + 1} ELSE {U, U + 1, 2 * U + 1}
\* next-query keys that differ from each other in exactly one component (destination AS, destination
\* ISD, source ISD): a partial key match in the implementation mixes them up
NQPairs == {<<11, 12>>, <<11, 13>>, <<11, 22>>, <<21, 12>>}
NQArgs == IF Alphabet = "nq" THEN {<<pr[1], pr[2], t>> : pr \in NQPairs, t \in {1, 2}}
          ELSE {<<11, 12, 1>>, <<11, 12, 2>>, <<11, 13, 1>>}

Prefix(a) == LET id == Pool[a[1]].id IN SubSeq(id, 1, MinI(a[2], Len(id)))

InsOp(p, a) == IF Kind = "p" THEN [op |-> "pins", p |-> p, type |-> a.type, groups |-> a.groups]
                             ELSE [op |-> "bins", p |-> p, inIf |-> a.inIf, usage |-> a.usage]
DelOp(a) == [op |-> Kind \o "del", of |-> a[1], len |-> a[2]]
ExpOp(now) == [op |-> Kind \o "exp", now |-> now]
NQOp(a) == [op |-> "nqins", src |-> a[1], dst |-> a[2], t |-> a[3]]

Apply(s, o) ==
    CASE o.op = "pins" -> PInsert(s, Pool, o.p, o.type, Range(o.groups))
      [] o.op = "bins" -> BInsert(s, Pool, o.p, o.inIf, Range(o.usage))
      [] o.op \in {"pdel", "bdel"} -> DeletePrefix(s, Pool, Prefix(<<o.of, o.len>>))
      [] o.op \in {"pexp", "bexp"} -> s \ Expired(s, Pool, o.now)
      [] OTHER -> s

Init == /\ store = {} /\ nq = {} /\ hist = <<>> /\ snap = <<>>
        /\ Gen => PrintT(<<"POOL", ToJson(Pool)>>)

Do(o) == /\ Len(hist) < MaxOps
         /\ store' = Apply(store, o)
         /\ nq' = IF o.op = "nqins" THEN NQInsert(nq, o.src, o.dst, o.t) ELSE nq
         /\ hist' = Append(hist, o)
         /\ UNCHANGED snap
         /\ (Gen /\ Len(hist') = MaxOps) => PrintT(<<"SCN", ToJson(hist')>>)

\* transactions: operations inside see their own writes; rollback restores store and next-query times
TxOp(name) ==
    /\ Tx /\ Len(hist) < MaxOps
    /\ CASE name = "txb" -> snap = <<>> /\ snap' = <<store, nq>> /\ UNCHANGED <<store, nq>>
         [] name = "txc" -> snap # <<>> /\ snap' = <<>> /\ UNCHANGED <<store, nq>>
         [] name = "txr" -> snap # <<>> /\ snap' = <<>> /\ store' = snap[1] /\ nq' = snap[2]
    /\ hist' = Append(hist, [op |-> name])
    /\ (Gen /\ Len(hist') = MaxOps) => PrintT(<<"SCN", ToJson(hist')>>)

Ins == Alphabet # "nq" /\ \E p \in 1..NPool, a \in InsArgs : Do(InsOp(p, a))
Del == Alphabet # "nq" /\ \E a \in DelArgs : Do(DelOp(a))
Exp == Alphabet # "nq" /\ \E now \in Nows : Do(ExpOp(now))
NQ == Kind = "p" /\ Alphabet # "small" /\ \E a \in NQArgs : Do(NQOp(a))

Next == Ins \/ Del \/ Exp \/ NQ \/ \E name \in {"txb", "txc", "txr"} : TxOp(name)
Spec == Init /\ [][Next]_vars

\* exhaustive configs identify states with equal abstract store (the history is bookkeeping)
AbstractView == <<store, nq, Len(hist), snap>>

-----------------------------------------------------------------------------
(* Properties. *)
Ids(s) == {Pool[e.p].id : e \in s}
Entry(s, id) == CHOOSE e \in s : Pool[e.p].id = id
K == Kind

\* a map: at most one stored version per segment id
IsMap == \A e1, e2 \in store : Pool[e1.p].id = Pool[e2.p].id => e1 = e2

\* The step properties below relate the store before and after one operation (LastOp' = the operation).
LastOp == hist[Len(hist)]

\* while an id stays stored its version never goes back; path DB: types and groups only grow,
\* and they change only together with a strictly newer version
EvolutionA ==
    LastOp'.op # "txr" =>
    \A id \in Ids(store) \cap Ids(store') :
        LET a == Entry(store, id)  b == Entry(store', id) IN
        /\ Ver(K, Pool[b.p]) >= Ver(K, Pool[a.p])
        /\ Ver(K, Pool[b.p]) = Ver(K, Pool[a.p]) => a = b
        /\ K = "p" => a.types \subseteq b.types /\ a.groups \subseteq b.groups

\* an insert leaves every other id untouched and stores the inserted version iff it is new(er)
InsertLocalA ==
    LastOp'.op \in {"pins", "bins"} =>
        LET id == Pool[LastOp'.p].id IN
        /\ {e \in store' : Pool[e.p].id # id} = {e \in store : Pool[e.p].id # id}
        /\ id \in Ids(store')
        /\ (id \notin Ids(store) => Entry(store', id).p = LastOp'.p)

\* clean-up removes exactly the expired entries; prefix deletion exactly the matching ones
CleanupExactA ==
    /\ LastOp'.op \in {"pexp", "bexp"} =>
          /\ store' \subseteq store
          /\ \A e \in store : (e \in store') <=> ~(Pool[e.p].exp < LastOp'.now)
    /\ LastOp'.op \in {"pdel", "bdel"} =>
          /\ store' \subseteq store
          /\ \A e \in store : (e \in store') <=> ~IsPrefix(Prefix(<<LastOp'.of, LastOp'.len>>), Pool[e.p].id)

NQMonotoneA == LastOp'.op # "txr" => \A x \in nq : \E y \in nq' : y.src = x.src /\ y.dst = x.dst /\ y.t >= x.t

\* a rolled-back transaction leaves no trace: afterwards the store is the one at its begin
RollbackA == LastOp'.op = "txr" => (store' = snap[1] /\ nq' = snap[2])

StepProps == [][EvolutionA /\ InsertLocalA /\ CleanupExactA /\ NQMonotoneA /\ RollbackA]_vars

\* queries: an unfiltered query returns everything, any filter returns a subset of stored entries
SomeFilters ==
    {[NoFilter EXCEPT !.types = t, !.groups = g, !.starts = s, !.intfs = i] :
        t \in {{}, {1}, {2, 3}}, g \in {{}, {1}, {0, 2}}, s \in {{}, {10}, {21}}, i \in {{}, {<<11, 1>>, <<13, 44>>}}}
QuerySound ==
    K = "p" =>
      /\ PGet(store, Pool, NoFilter) = UNION {{<<e.p, t>> : t \in e.types} : e \in store}
      /\ \A f \in SomeFilters : PGet(store, Pool, f) \subseteq PGet(store, Pool, NoFilter)

\* candidate beacons: the sorted-by-length prefix is admissible, and a list that skips a shorter
\* candidate is not
SortedSeq(S) == CHOOSE q \in [1..Cardinality(S) -> S] :
                   /\ \A i, j \in 1..Cardinality(S) : i # j => q[i] # q[j]
                   /\ \A i \in 1..Cardinality(S) - 1 : Length(Pool[q[i].p]) <= Length(Pool[q[i + 1].p])
CandidatesSound ==
    K = "b" =>
      \A u \in {{1}, {2}}, src \in {0, 11}, n \in {1, 2} :
        LET c == BCandidates(store, Pool, u, src)
            q == SortedSeq(c)
            res == SubSeq(q, 1, MinI(n, Len(q))) IN
        /\ CandidatesOK(res, store, Pool, n, u, src)
        /\ (Len(q) > n /\ n > 0 /\ Length(Pool[q[Len(q)].p]) > Length(Pool[q[1].p]))
              => ~CandidatesOK(<<q[Len(q)]>> \o SubSeq(q, 2, n), store, Pool, n, u, src)

NQUnique == \A x, y \in nq : (x.src = y.src /\ x.dst = y.dst) => x = y
=============================================================================
