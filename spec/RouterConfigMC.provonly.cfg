SPECIFICATION Spec
CONSTANTS
  Steps = {"key", "internal", "ext", "hop", "svc", "range"}
  OtherProv = {}
  SwapSites = {}
  Propagate = "provider"
  Emit = FALSE
INVARIANTS BufferSizesReach RangeInForce AllOpened
CHECK_DEADLOCK FALSE
