\* every slow-path cause of the SCION check sequence on a small space (C09 quick tier)
SPECIFICATION Spec
CONSTANTS
  Cfg <- CfgA
  Kinds = {"scion"}
  Shapes <- ShapesTableQ
  Vias = {0, 1}
  SrcDom = {"L", "F"}
  DstDom = {"L", "F"}
  Faults = {"none"}
  L4Dom = {"udp"}
  InSideDom = {0, 1, 999}
  EgSideDom = {0, 2, 3, 999}
  PeerDom = {FALSE}
  ExpDom = {FALSE, TRUE}
  AuthDom <- Auth3
  AlertDom <- NoAlert
  EpicDom <- EpicOK
INVARIANTS TypeOK InvC01 InvC05 InvC06 InvC12 InvC13 InvC15 InvC15Answer InvPtr
CONSTRAINT Emit
CHECK_DEADLOCK FALSE
