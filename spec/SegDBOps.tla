----------------------------- MODULE SegDBOps -----------------------------
(* C27: the abstract stores behind the beacon database (control/beacon.DB + storage/beacon.BeaconAPI,
   sqlite backend) and the path-segment database (private/pathdb.DB, sqlite backend).
   Pure operators only: the single source of truth shared by the exhaustive model (SegDB.tla) and the
   trace specification (SegDBTrace.tla).

   A *pool* is a sequence of segment descriptors; a descriptor describes one concrete version of a
   segment (the driver builds the real, signed segment from it):
     [ id    : sequence of hex digits (0..15) of the segment identifier (hash of the hops),
       ts    : info-field timestamp (seconds)           -- the version of a beacon,
       sv    : signing time of the last AS entry        -- the version of a path segment,
       exp   : maximum hop-field expiry (seconds),
       hops  : <<[ia, in, eg]>>  one per AS entry  (ia = isd*10 + as, 0 = wildcard part),
       peers : << <<asEntryIndex, ifid>> >>  ingress interfaces of peer entries ]
   Two descriptors describe versions of the same segment iff their id is equal.

   A store is a set of entries with pairwise different segment ids:
     [ p : pool index of the stored version, types, groups : sets (path DB),
       inIf : Int, usage : set of usage bits (beacon DB) ]                                       *)
EXTENDS Integers, Sequences, FiniteSets

Range(s) == {s[i] : i \in 1..Len(s)}
MinI(a, b) == IF a < b THEN a ELSE b

Isd(ia) == ia \div 10
As(ia) == ia % 10

Start(d) == d.hops[1].ia
End(d) == d.hops[Len(d.hops)].ia
Length(d) == Len(d.hops)
\* (ia, ifid) pairs the path DB indexes: non-zero hop ingress/egress and peer ingress interfaces
Ifaces(d) == {<<d.hops[i].ia, d.hops[i].in>> : i \in {j \in 1..Len(d.hops) : d.hops[j].in # 0}}
        \cup {<<d.hops[i].ia, d.hops[i].eg>> : i \in {j \in 1..Len(d.hops) : d.hops[j].eg # 0}}
        \cup {<<d.hops[d.peers[k][1]].ia, d.peers[k][2]>> : k \in {j \in 1..Len(d.peers) : d.peers[j][2] # 0}}

\* what the "full id" of the databases hashes: per AS entry its (ia, in, eg) followed by the
\* (peer ia, in, eg) of its peer entries, all concatenated without separators (d.pia = peer ISD-AS)
RECURSIVE FullSeq(_, _)
FullSeq(d, i) ==
    IF i > Len(d.hops) THEN <<>>
    ELSE LET ps == {k \in 1..Len(d.peers) : d.peers[k][1] = i}
             PeerTriples[k \in 0..Len(d.peers)] ==
                 IF k = 0 THEN <<>>
                 ELSE PeerTriples[k - 1] \o (IF k \in ps THEN << <<d.pia, d.peers[k][2], d.hops[i].eg>> >> ELSE <<>>)
         IN << <<d.hops[i].ia, d.hops[i].in, d.hops[i].eg>> >> \o PeerTriples[Len(d.peers)] \o FullSeq(d, i + 1)
FullIDCollision(a, b) == a.id # b.id /\ FullSeq(a, 1) = FullSeq(b, 1)

IsPrefix(pre, id) == Len(pre) <= Len(id) /\ \A i \in 1..Len(pre) : pre[i] = id[i]

Ver(kind, d) == IF kind = "b" THEN d.ts ELSE d.sv

Stored(store, pool, id) == {e \in store : pool[e.p].id = id}

-----------------------------------------------------------------------------
(* Inserts.  Outcome: "ins" (absent), "upd" (strictly newer version), "ign" (equal or older). *)
InsertOutcome(store, pool, kind, p) ==
    LET old == Stored(store, pool, pool[p].id) IN
    IF old = {} THEN "ins"
    ELSE LET o == CHOOSE e \in old : TRUE IN
         IF Ver(kind, pool[p]) > Ver(kind, pool[o.p]) THEN "upd" ELSE "ign"

\* path DB: a newer version replaces the payload and ADDS the type and the groups
PInsert(store, pool, p, type, groups) ==
    LET oc == InsertOutcome(store, pool, "p", p)
        old == Stored(store, pool, pool[p].id) IN
    CASE oc = "ins" -> store \cup {[p |-> p, types |-> {type},
                                    groups |-> IF groups = {} THEN {0} ELSE groups,
                                    inIf |-> 0, usage |-> {}]}
      [] oc = "upd" -> LET o == CHOOSE e \in old : TRUE IN
                       (store \ old) \cup {[o EXCEPT !.p = p, !.types = @ \cup {type},
                                                      !.groups = @ \cup groups]}
      [] OTHER -> store

\* beacon DB: a newer version replaces everything (ingress interface and usage included)
BInsert(store, pool, p, inIf, usage) ==
    LET oc == InsertOutcome(store, pool, "b", p)
        old == Stored(store, pool, pool[p].id) IN
    IF oc = "ign" THEN store
    ELSE (store \ old) \cup {[p |-> p, types |-> {}, groups |-> {}, inIf |-> inIf, usage |-> usage]}

-----------------------------------------------------------------------------
(* Deletions. *)
DeletePrefix(store, pool, pre) == {e \in store : ~IsPrefix(pre, pool[e.p].id)}
\* expired = expiry strictly before now
Expired(store, pool, now) == {e \in store : pool[e.p].exp < now}

-----------------------------------------------------------------------------
(* Path DB query.  f = [ids, types, groups, intfs, starts, ends : sets]; an empty set = no filter.
   ISD-AS filter of the path DB: AS part 0 = every AS of that ISD, otherwise exact. *)
PIAMatch(f, ia) == IF As(f) = 0 THEN Isd(f) = Isd(ia) ELSE f = ia

PMatch(e, pool, f) ==
    LET d == pool[e.p] IN
    /\ f.ids = {} \/ d.id \in f.ids
    /\ f.types = {} \/ e.types \cap f.types # {}
    /\ f.groups = {} \/ e.groups \cap f.groups # {}
    /\ f.intfs = {} \/ Ifaces(d) \cap f.intfs # {}
    /\ f.starts = {} \/ \E x \in f.starts : PIAMatch(x, Start(d))
    /\ f.ends = {} \/ \E x \in f.ends : PIAMatch(x, End(d))

\* one result per (entry, matching type)
PGet(store, pool, f) ==
    UNION {{<<e.p, t>> : t \in (IF f.types = {} THEN e.types ELSE e.types \cap f.types)}
           : e \in {x \in store : PMatch(x, pool, f)}}

NoFilter == [ids |-> {}, types |-> {}, groups |-> {}, intfs |-> {}, starts |-> {}, ends |-> {}]

-----------------------------------------------------------------------------
(* Beacon DB queries. *)
\* ISD-AS filter of GetBeacons: zero parts are wildcards; the all-zero filter entry is skipped
BIAMatch(f, ia) == /\ Isd(f) = 0 \/ Isd(f) = Isd(ia)
                   /\ As(f) = 0 \/ As(f) = As(ia)

\* f = [ids (prefixes), starts, inIfs, usages (set of usage sets) : sets, hasValid : BOOLEAN, valid : Int]
BMatch(e, pool, f) ==
    LET d == pool[e.p]
        starts == {x \in f.starts : x # 0}
        usages == {u \in f.usages : u # {}} IN
    /\ f.ids = {} \/ \E pre \in f.ids : IsPrefix(pre, d.id)
    /\ starts = {} \/ \E x \in starts : BIAMatch(x, Start(d))
    /\ f.inIfs = {} \/ e.inIf \in f.inIfs
    /\ usages = {} \/ \E u \in usages : u \subseteq e.usage
    /\ f.hasValid => (d.ts <= f.valid /\ f.valid <= d.exp)

BGet(store, pool, f) == {e \in store : BMatch(e, pool, f)}

\* candidates for a usage (all its bits set) and an optional exact origin (0 = any)
BCandidates(store, pool, usage, src) ==
    {e \in store : usage \subseteq e.usage /\ (src = 0 \/ Start(pool[e.p]) = src)}

\* res (a sequence of entries) is an admissible answer of CandidateBeacons(n, usage, src):
\* exactly min(n, #candidates) distinct candidates, shortest first
CandidatesOK(res, store, pool, n, usage, src) ==
    LET c == BCandidates(store, pool, usage, src) IN
    /\ Len(res) = MinI(n, Cardinality(c))
    /\ Range(res) \subseteq c
    /\ Cardinality(Range(res)) = Len(res)
    /\ \A i \in 1..Len(res) - 1 : Length(pool[res[i].p]) <= Length(pool[res[i + 1].p])
    /\ \A e \in c \ Range(res) : \A i \in 1..Len(res) : Length(pool[res[i].p]) <= Length(pool[e.p])

Sources(store, pool) == {Start(pool[e.p]) : e \in store}

-----------------------------------------------------------------------------
(* Next-query times: nq is a set of [src, dst, t] with unique (src, dst). *)
NQStored(nq, src, dst) == {x \in nq : x.src = src /\ x.dst = dst}
NQAccepts(nq, src, dst, t) == \A x \in NQStored(nq, src, dst) : t > x.t
NQInsert(nq, src, dst, t) ==
    IF NQAccepts(nq, src, dst, t)
      THEN (nq \ NQStored(nq, src, dst)) \cup {[src |-> src, dst |-> dst, t |-> t]}
      ELSE nq
=============================================================================
