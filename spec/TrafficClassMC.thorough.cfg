INIT Init
NEXT Next
CONSTANTS
  Leaves <- McLeaves
  MaxNodes = 7
  WideLeaves <- McLeaves
  WideNodes = 0
  MaxDepth = 4
  MaxKids = 3
  Pkts <- McPkts
INVARIANTS TypeOK ListenerBuildsTree PrintParse RoundTripValue BoolLaws
CHECK_DEADLOCK FALSE
