SPECIFICATION Spec
CONSTANTS
  MaxSeg = 2
  AddrCodes = {0, 1, 2, 3}
INVARIANTS Agreement Exactness NeededInside
CHECK_DEADLOCK FALSE
