------------------------------ MODULE SeqPolicy ------------------------------
(* C47: exhaustive model and scenario generator for path-policy sequences / ACLs / policies.

   The state machine builds sequence expressions bottom-up in postfix order (a stack of ASTs, exactly
   as the ANTLR listener in private/path/pathpol/sequence.go builds its stack of regexp strings):
   PushLeaf / Unary / Binary.  Every state whose stack holds a single AST is a complete expression;
   all expressions up to MaxSize nodes over the leaf alphabet are reached exactly once.

   Two uses (selected by the cfg):
     * MC   (SeqPolicyMC.*.cfg): for every complete expression and every word over a small hop
       alphabet, the derivative-based oracle Matches agrees with the textbook denotational
       definition InLang, and the code-shaped textual variant never accepts more than the numeric
       one (SemanticsAgree, TextualNeverWider).  CodeShapeAgrees is the statement "textual AS
       comparison = numeric comparison": it holds only over canonically spelled alphabets
       (SeqPolicyMC.codeshape.cfg shows the D8 counterexample; never a verdict).
     * Gen  (SeqPolicyGen.*.cfg): the same Next plus the directed families (every hop predicate of
       the full alphabet in first / middle / last position; ACLs; policies with options); every
       complete scenario is printed as <<"SCN", family, json>> for the driver.                   *)
EXTENDS SeqPolicyOps, TLC, Json, SequencesExt

CONSTANTS MaxSize,     \* max number of AST nodes of the enumerated expressions
          MaxLen,      \* MC: max word length
          Leaves,      \* leaf alphabet of the enumerated expressions (set of preds)
          Hops,        \* MC: hop alphabet of the words
          Directed     \* Gen: set of directed scenario records [fam, scn], emitted from Init

VARIABLES stack, size, dir
vars == <<stack, size, dir>>

NoDir == [fam |-> "none"]

-----------------------------------------------------------------------------
P(isd, as, sp, form, i1, i2) == [isd |-> isd, as |-> as, sp |-> sp, form |-> form, i1 |-> i1, i2 |-> i2]
H(isd, as, i, o) == [isd |-> isd, as |-> as, in |-> i, out |-> o]
Hop(p) == [t |-> "hop", p |-> p]
Cat(a, b) == [t |-> "cat", a |-> a, b |-> b]
AnyHop == P(0, WildAS, "dec", 0, 0, 0)

ASa == <<0, 0, 64512>>        \* 64512            (BGP range: canonical text is decimal)
ASb == <<65280, 0, 272>>      \* ff00:0:110       (canonical text is lower-case hex)
ASc == <<1, 0, 0>>            \* 1:0:0 = 2^32     (hex without letters)
ASd == <<0, 65535, 65535>>    \* 4294967295       (largest decimal one)

-----------------------------------------------------------------------------
(* Alphabets *)
McLeaves == {AnyHop, P(1, ASa, "dec", 1, 0, 0), P(0, ASb, "hexl", 2, 1, 0)}
McLeavesD8 == McLeaves \cup {P(1, ASa, "hexl", 1, 0, 0), P(0, ASb, "hexu", 1, 0, 0)}
McHops == {H(1, ASa, 0, 1), H(1, ASb, 1, 2), H(2, ASa, 2, 0)}

\* spellings of each AS that are syntactically valid in a sequence expression
Spellings(as) == IF as = WildAS THEN {"dec"}
                 ELSE IF HasLetters(as) THEN {"dec", "hexl", "hexu", "hexm"} ELSE {"dec", "hexl"}

PredsOver(isds, ases, ifs) ==
    {P(i, WildAS, "dec", 0, 0, 0) : i \in isds} \cup
    UNION {UNION {{P(i, a, sp, 1, 0, 0) : sp \in Spellings(a)} \cup
                  {P(i, a, sp, 2, x, 0) : sp \in Spellings(a), x \in ifs} \cup
                  {P(i, a, sp, 3, x, y) : sp \in Spellings(a), x \in ifs, y \in ifs}
                  : a \in ases} : i \in isds}

\* paths (sequences of hops) as snet produces them: empty, or >= 2 hops, first ingress = 0 = last egress
PathsOver(ias, ifs, maxhops) ==
    LET src == {H(ia[1], ia[2], 0, o) : ia \in ias, o \in ifs}
        mid == {H(ia[1], ia[2], i, o) : ia \in ias, i \in ifs, o \in ifs}
        dst == {H(ia[1], ia[2], i, 0) : ia \in ias, i \in ifs}
    IN {<<>>} \cup {<<s, d>> : s \in src, d \in dst}
       \cup (IF maxhops >= 3 THEN {<<s, m, d>> : s \in src, m \in mid, d \in dst} ELSE {})
       \cup (IF maxhops >= 4 THEN {<<s, m, n, d>> : s \in src, m \in mid, n \in mid, d \in dst} ELSE {})

\* every hop once in first, middle and last position, between fixed neighbours
ProbePaths(ias, ifs) ==
    LET s0 == H(1, ASa, 0, 1)
        d0 == H(1, ASa, 1, 0)
    IN {<<>>} \cup {<<H(ia[1], ia[2], 0, o), d0>> : ia \in ias, o \in ifs}
       \cup {<<s0, H(ia[1], ia[2], i, 0)>> : ia \in ias, i \in ifs}
       \cup {<<s0, H(ia[1], ia[2], i, o), d0>> : ia \in ias, i \in ifs, o \in ifs}

\* a predicate in first, last and middle position
ProbeScns(preds) ==
    UNION {{[fam |-> "pred", scn |-> Cat(Hop(p), Hop(AnyHop))],
            [fam |-> "pred", scn |-> Cat(Hop(AnyHop), Hop(p))],
            [fam |-> "pred", scn |-> Cat(Cat(Hop(AnyHop), Hop(p)), Hop(AnyHop))]} : p \in preds}

(* ACLs: up to n (<= 3) specific entries followed by a catch-all entry *)
AclEntries(preds) == {[allow |-> a, p |-> p] : a \in BOOLEAN, p \in preds}
AclsOver(preds, n) ==
    LET last == {<<[allow |-> a, p |-> AnyHop]>> : a \in BOOLEAN}
        e == AclEntries(preds)
    IN last \cup {<<x>> \o l : x \in e, l \in last}
       \cup (IF n >= 2 THEN {<<x, y>> \o l : x \in e, y \in e, l \in last} ELSE {})
       \cup (IF n >= 3 THEN {<<x, y, z>> \o l : x \in e, y \in e, z \in e, l \in last} ELSE {})

\* ACL scenarios (also explored by the MC configs: AclReadingsAgree)
AclPreds == {P(1, WildAS, "dec", 0, 0, 0), P(0, ASb, "hexl", 1, 0, 0), P(2, ASb, "hexu", 1, 0, 0),
             P(1, ASa, "dec", 2, 1, 0), P(1, ASa, "hexl", 2, 2, 0),
             P(2, ASb, "hexl", 3, 1, 2), P(1, ASa, "dec", 3, 0, 2), P(0, ASa, "dec", 3, 1, 0)}
AclScns(n) == {[fam |-> "acl", scn |-> [acl |-> a]] : a \in AclsOver(AclPreds, n)}
DirectedMC == AclScns(1)

-----------------------------------------------------------------------------
Init == stack = <<>> /\ size = 0 /\ dir = NoDir

\* nodes still needed to join the trees on the stack into one expression
Joins(n) == IF n = 0 THEN 0 ELSE n - 1

PushLeaf == /\ dir = NoDir
            /\ size + 1 + Joins(Len(stack) + 1) <= MaxSize
            /\ \E p \in Leaves : stack' = Append(stack, Hop(p))
            /\ size' = size + 1 /\ UNCHANGED dir

Unary == /\ dir = NoDir /\ Len(stack) >= 1
         /\ size + 1 + Joins(Len(stack)) <= MaxSize
         /\ \E op \in {"opt", "plus", "star"} :
              stack' = [stack EXCEPT ![Len(stack)] = [t |-> op, a |-> @]]
         /\ size' = size + 1 /\ UNCHANGED dir

Binary == /\ dir = NoDir /\ Len(stack) >= 2
          /\ \E op \in {"cat", "or"} :
               LET n == Len(stack) IN
               stack' = Append(SubSeq(stack, 1, n - 2), [t |-> op, a |-> stack[n - 1], b |-> stack[n]])
          /\ size' = size + 1 /\ UNCHANGED dir

EmitDirected == /\ dir = NoDir /\ size = 0
                /\ \E d \in Directed : dir' = d
                /\ UNCHANGED <<stack, size>>

Next == PushLeaf \/ Unary \/ Binary \/ EmitDirected
Spec == Init /\ [][Next]_vars

-----------------------------------------------------------------------------
(* MC: properties of the oracle *)
Words == UNION {[1..n -> Hops] : n \in 0..MaxLen}
Complete == Len(stack) = 1

SemanticsAgree == Complete => \A w \in Words : Matches(stack[1], w, "num") = InLang(stack[1], w, "num")
TextualNeverWider == Complete => \A w \in Words : Matches(stack[1], w, "txt") => Matches(stack[1], w, "num")
CodeShapeAgrees == Complete => \A w \in Words : Matches(stack[1], w, "txt") = Matches(stack[1], w, "num")
SizeBound == size <= MaxSize /\ size + Joins(Len(stack)) <= MaxSize

\* interface-level and hop-level reading of an ACL coincide when no entry names an interface
AclReadingsAgree ==
    dir.fam = "acl" =>
      ((\A i \in 1..Len(dir.scn.acl) : dir.scn.acl[i].p.form <= 1) =>
         \A w \in PathsOver({<<1, ASa>>, <<2, ASb>>}, {1, 2}, 3) :
            AclAcceptIface(dir.scn.acl, w) = AclAcceptHop(dir.scn.acl, w))

=============================================================================
