INIT GenInitQuick
NEXT Next
CONSTANTS
  Leaves <- GenLeavesSmall
  MaxNodes = 4
  WideLeaves <- GenLeaves
  WideNodes = 3
  MaxDepth = 4
  MaxKids = 3
  Pkts <- McPkts
CONSTRAINT Emit
CHECK_DEADLOCK FALSE
