----------------------------- MODULE TrustSigner -----------------------------
(* C36: the case space for SignerGen.Generate: a TRC history S1 -> S2 (root rotated, grace period)
   placed on the time line around now = 0, a key ring of two keys, and up to MaxChains certificate
   chains in the store (per key: issued under the old root, the new root or an unknown root, with
   different expiry times, expired, beyond the TRC's validity).
   In-model: the procedure shaped like SignerGen.bestForKey produces only signers the statement
   allows.  Every case is a scenario.                                                          *)
EXTENDS TrustStoreOps, TLC, Json

CONSTANTS MaxChains, Expiries, KeyRings,
          GraceBoundByLatest   \* TRUE: the grace expiry is also bounded by the latest TRC's validity (the code after
                               \* the fix); FALSE: shape of the code as found

Cert(id, kind, signer, nb, na, ia, key) ==
    [id |-> id, kind |-> kind, signer |-> signer, nb |-> nb, na |-> na, ia |-> ia, key |-> key]
ExpSeq == <<5, 20, 300, -3>>        \* AS certificate expiry: soon, later, beyond the TRC, already expired
\* ids: 1..3 roots (3 = unknown), 4..6 their CAs, 7.. AS certificates: key k, via CA c, expiry index e
ASId(k, c, e) == 6 + (k - 1) * 12 + (c - 4) * 4 + e
Pool == [i \in 1..30 |->
           IF i <= 3 THEN Cert(i, "root", i, -400, 400, 1, 0)
           ELSE IF i <= 6 THEN Cert(i, "ca", i - 3, -300, 350, 1, 0)
           ELSE LET j == i - 7
                    k == (j \div 12) + 1
                    c == ((j % 12) \div 4) + 4
                    e == (j % 4) + 1 IN
                Cert(i, "as", c, -20, ExpSeq[e], 2, k)]
ASIds == {ASId(k, c, e) : k \in 1..2, c \in 4..6, e \in Expiries}
ChainOf(a) == <<a, Pool[a].signer>>

Timelines == <<
    [nb1 |-> -100, na1 |-> 100, nb2 |-> -5, na2 |-> 200, grace |-> 10, two |-> TRUE, keep |-> FALSE],    \* in grace
    [nb1 |-> -100, na1 |-> -2, nb2 |-> -5, na2 |-> 200, grace |-> 10, two |-> TRUE, keep |-> FALSE],     \* in grace, predecessor expired
    [nb1 |-> -100, na1 |-> 100, nb2 |-> -5, na2 |-> 200, grace |-> 7, two |-> TRUE, keep |-> FALSE],     \* in grace, ends before the chains
    [nb1 |-> -100, na1 |-> 100, nb2 |-> -5, na2 |-> 3, grace |-> 12, two |-> TRUE, keep |-> FALSE],      \* grace outlasts the latest TRC
    [nb1 |-> -100, na1 |-> 100, nb2 |-> -5, na2 |-> 200, grace |-> 3, two |-> TRUE, keep |-> FALSE],     \* grace over
    [nb1 |-> -100, na1 |-> 100, nb2 |-> -5, na2 |-> 10, grace |-> 0, two |-> TRUE, keep |-> FALSE],      \* no grace, TRC ends before the chains
    [nb1 |-> -100, na1 |-> 100, nb2 |-> 5, na2 |-> 200, grace |-> 10, two |-> TRUE, keep |-> FALSE],     \* latest not yet valid
    [nb1 |-> -100, na1 |-> 100, nb2 |-> -50, na2 |-> -3, grace |-> 100, two |-> TRUE, keep |-> FALSE],   \* latest expired
    [nb1 |-> -100, na1 |-> 12, nb2 |-> 0, na2 |-> 0, grace |-> 0, two |-> FALSE, keep |-> FALSE],        \* base TRC only
    \* TRC updates that keep the root certificate: a chain verifies against the latest TRC AND its predecessor
    [nb1 |-> -100, na1 |-> 100, nb2 |-> -5, na2 |-> 200, grace |-> 10, two |-> TRUE, keep |-> TRUE],    \* in grace
    [nb1 |-> -100, na1 |-> 100, nb2 |-> -5, na2 |-> 200, grace |-> 3, two |-> TRUE, keep |-> TRUE]      \* grace over
>>
LatestT(tl) == IF tl.two THEN [serial |-> 2, base |-> 1, nb |-> tl.nb2, na |-> tl.na2, grace |-> tl.grace,
                               roots |-> IF tl.keep THEN {1} ELSE {2}]
               ELSE [serial |-> 1, base |-> 1, nb |-> tl.nb1, na |-> tl.na1, grace |-> 0, roots |-> {1}]
PredT(tl) == [serial |-> 1, base |-> 1, nb |-> tl.nb1, na |-> tl.na1, grace |-> 0, roots |-> {1}]

VARIABLES cs
vars == <<cs>>
Init == cs = [kind |-> "init"]
Next == /\ cs.kind = "init"
        /\ \E i \in 1..Len(Timelines), ring \in KeyRings, a \in ASIds \cup {0}, b \in ASIds \cup {0}, c \in ASIds \cup {0} :
              /\ (a = 0 => b = 0) /\ (b = 0 => c = 0) /\ (b # 0 => a < b) /\ (c # 0 => b < c)
              /\ Cardinality({a, b, c} \ {0}) <= MaxChains
              /\ cs' = [kind |-> "signer", tl |-> i, keys |-> ring, as |-> {a, b, c} \ {0}]
Spec == Init /\ [][Next]_vars

-----------------------------------------------------------------------------
\* shape of SignerGen.Generate / bestForKey / bestChain at now = 0
CodeSigners(tl, ring, chains) ==
    LET L == LatestT(tl)
        P == PredT(tl)
        active == L.nb <= 0 /\ 0 <= L.na
        grace == InGrace(L, 0)
        \* DB.Chains(IA, key id, validity now..now), then VerifyChain against one TRC
        cand(k, T) == {ch \in chains : /\ Pool[ch[1]].key = k /\ ValidAt(Pool[ch[1]], 0)
                                       /\ Pool[ch[2]].signer \in T.roots
                                       /\ ValidAt(Pool[ch[2]], 0) /\ ValidAt(Pool[Pool[ch[2]].signer], 0)}
        best(S) == {ch \in S : \A d \in S : ChainExp(Pool, d) <= ChainExp(Pool, ch)}
    IN IF ~active THEN {}
       ELSE UNION {
              IF cand(k, L) # {}
                THEN {[key |-> k, chain |-> ch, ingrace |-> FALSE, exp |-> Min2(ChainExp(Pool, ch), L.na)] : ch \in best(cand(k, L))}
              ELSE IF grace /\ tl.two
                THEN {[key |-> k, chain |-> ch, ingrace |-> TRUE,
                       exp |-> IF GraceBoundByLatest
                                 THEN Min2(Min2(Min2(ChainExp(Pool, ch), L.nb + L.grace), P.na), L.na)
                                 ELSE Min2(Min2(ChainExp(Pool, ch), L.nb + L.grace), P.na)] : ch \in best(cand(k, P))}
              ELSE {} : k \in ring}

Sound == cs.kind = "signer" =>
           LET tl == Timelines[cs.tl]
               chains == {ChainOf(a) : a \in cs.as} IN
           \A s \in CodeSigners(tl, cs.keys, chains) :
               SignerRule(Pool, chains, cs.keys, LatestT(tl), PredT(tl), tl.two, 0, s) = ""

SetSeq(S) == LET RECURSIVE f(_)
                 f(T) == IF T = {} THEN <<>> ELSE LET x == CHOOSE y \in T : TRUE IN <<x>> \o f(T \ {x})
             IN f(S)
Emit == cs.kind = "signer" =>
          PrintT(<<"SCN", ToJson([tl |-> Timelines[cs.tl], keys |-> SetSeq(cs.keys),
                                  chains |-> SetSeq({ChainOf(a) : a \in cs.as})])>>)
ASSUME PrintT(<<"POOL", ToJson(Pool)>>)
=============================================================================
