-------------------------- MODULE SigFramingTrace --------------------------
(* Trace specification for C41.  A trace (reset .. end) is one scenario executed by the real encoder(s)
   and one real ingress worker:
     write(s,id,len,ver,valid)    packet id handed to encoder s
     frame(s,seq,index,n,pos,hdrok)   Read returned a frame: n payload bytes found at stream offset pos
     eof / stuck / panic
     deliver(s,k)   frame k of stream s handed to worker.processFrame
     emit(s,id,len) the worker wrote a packet to the tunnel device: byte-identical to sent packet id of
                    stream s (id = 0: identical to no sent packet)
     st(s,list)     reassembly list metadata after the delivery
     end
   Monitors (VERIF-BAD, the rest of the trace is skipped):
     sender:payload-is-not-the-next-stream-bytes   a frame carries something else than the next bytes of the
                 stream of *valid* packets (an invalid packet was encapsulated, bytes were lost or reordered);
                 sender:closed-with-data-left / not-everything-framed / read-blocks / read-returned-nil;
     recv:emitted-packet-is-not-a-sent-packet   (any mode: the no-splice property)
     recv:invalid-packet-emitted
     lossless:*  in-order, loss-free delivery: the emitted sequence is exactly the sent sequence;
                 ":reassembly-capacity" when the deviation is the one the transcribed algorithm makes
                 because a packet spans more frames than the reassembly list holds.
   VERIF-DRIFT: the sender cuts frames differently from FrameOk (index field, header room, flushing, sequence
   numbers); the receiver deviates from the transcription (SigFramingOps) without violating the
   statement (which frames are buffered, what is dropped under faults).                         *)
EXTENDS SigFramingOps, TLC, Json

Trace == ndJsonDeserialize("trace.ndjson")

NS == 4
Str == 1..NS
Inf == 1000000

VARIABLES l, failed, mode, cap, F, devOf,
          lens, vers, starts, ids, wr,        \* per stream: the valid packets, their ids, bytes written
          c, frames,                          \* per stream: bytes framed, abstract frames
          rl, rli,                            \* per stream: model reassembly list with the real / no capacity bound
          pending,                            \* emissions the model expects for the current delivery: <<[s, k]>>
          nemit, capflush, nmodel, nmodeli    \* per stream counters
vars == <<l, failed, mode, cap, F, devOf, lens, vers, starts, ids, wr, c, frames, rl, rli, pending, nemit, capflush,
          nmodel, nmodeli>>
state == <<mode, cap, F, devOf, lens, vers, starts, ids, wr, c, frames, rl, rli, pending, nemit, capflush, nmodel, nmodeli>>

R == Trace[l]
E == [s \in Str |-> <<>>]
Z == [s \in Str |-> 0]

Init == /\ l = 1 /\ failed = FALSE /\ mode = "faulty" /\ cap = 100 /\ F = <<>> /\ devOf = <<>>
        /\ lens = E /\ vers = E /\ starts = E /\ ids = E /\ wr = Z /\ c = Z /\ frames = E
        /\ rl = E /\ rli = E /\ pending = <<>> /\ nemit = Z /\ capflush = [s \in Str |-> FALSE]
        /\ nmodel = Z /\ nmodeli = Z

Bad(key) == PrintT(<<"VERIF-BAD", l, key>>) /\ failed' = TRUE /\ UNCHANGED state
Drift(key) == PrintT(<<"VERIF-DRIFT", l, key>>)

Reset == /\ failed' = FALSE /\ mode' = R.mode /\ cap' = R.cap /\ F' = R.F /\ devOf' = R.dev
         /\ lens' = E /\ vers' = E /\ starts' = E /\ ids' = E /\ wr' = Z /\ c' = Z /\ frames' = E
         /\ rl' = E /\ rli' = E /\ pending' = <<>> /\ nemit' = Z /\ capflush' = [s \in Str |-> FALSE]
         /\ nmodel' = Z /\ nmodeli' = Z

Write ==
    LET s == R.s IN
    IF R.valid = 1
      THEN /\ lens' = [lens EXCEPT ![s] = Append(@, R.len)]
           /\ vers' = [vers EXCEPT ![s] = Append(@, R.ver)]
           /\ starts' = [starts EXCEPT ![s] = Append(@, wr[s])]
           /\ ids' = [ids EXCEPT ![s] = Append(@, R.id)]
           /\ wr' = [wr EXCEPT ![s] = @ + R.len]
           /\ UNCHANGED <<failed, mode, cap, F, devOf, c, frames, rl, rli, pending, nemit, capflush, nmodel, nmodeli>>
      ELSE UNCHANGED <<failed, state>>

ExpectedIdx(s, n) ==
    LET inF == {k \in 1..Len(starts[s]) : c[s] <= starts[s][k] /\ starts[s][k] < c[s] + n} IN
    IF inF = {} THEN NoIdx ELSE MinOf({starts[s][k] : k \in inF}) - c[s]

\* Only the stream property of a frame is a monitor: its payload is the next n bytes of the stream of valid
\* packets (nothing lost, nothing reordered, no invalid packet encapsulated).  How the sender cuts the stream
\* into frames (FrameOk: index field, room for a header, flushing) is conformance to this encoder: a deviation
\* is drift here and becomes a violation only through its end-to-end effect (lossless / no-splice monitors).
FrameDrift(s) ==
    IF R.hdrok # 1 THEN "sender:frame-header"
    ELSE IF R.seq # Len(frames[s]) THEN "sender:sequence-number"
    ELSE IF R.n < 1 \/ R.n > F[s] THEN "sender:frame-size"
    ELSE IF R.index # ExpectedIdx(s, R.n) THEN "sender:index-field"
    ELSE IF ~FrameOk(c[s], R.n, R.index, wr[s], F[s], starts[s]) THEN "sender:frame-boundary"
    ELSE ""

Frame ==
    LET s == R.s IN
    IF R.pos # c[s] \/ c[s] + R.n > wr[s] THEN Bad("sender:payload-is-not-the-next-stream-bytes")
    ELSE /\ (FrameDrift(s) # "" => Drift(FrameDrift(s)))
         /\ frames' = [frames EXCEPT ![s] = Append(@, [seq |-> R.seq, index |-> R.index, n |-> R.n, c |-> c[s]])]
         /\ c' = [c EXCEPT ![s] = @ + R.n]
         /\ UNCHANGED <<failed, mode, cap, F, devOf, lens, vers, starts, ids, wr, rl, rli, pending, nemit, capflush,
                        nmodel, nmodeli>>

Eof == IF R.early = 1 THEN Bad("sender:read-returned-nil-with-data-pending")
       ELSE IF c[R.s] # wr[R.s] THEN Bad("sender:closed-with-data-left")
       ELSE UNCHANGED <<failed, state>>

RECURSIVE PktNums(_, _, _)
PktNums(out, i, s) == IF i > Len(out) THEN <<>>
                      ELSE <<[s |-> s, k |-> EmittedPkt(out[i], starts[s], lens[s])]>> \o PktNums(out, i + 1, s)

\* adversarial traces (rewritten index / sequence number / epoch, cut frames, a restarted sender reusing the
\* stream id) are outside the statement's fault model: the receiver model is not run, an emitted packet that
\* was never sent is recorded as drift; only a panic is a failure there.
Adv == mode = "adversarial"
\* ingress traces: the frames of up to four senders (different remote gateways / session ids, the same stream id
\* and overlapping sequence numbers), each complete and in order, pass through the real IngressServer (worker
\* selection, one goroutine per worker): every stream must come out exactly, on the device of its remote ISD-AS.
Ingress == mode = "ingress"
InOrder == mode \in {"lossless", "ingress"}
Skip == UNCHANGED <<failed, state>>

Deliver ==
    IF Adv THEN Skip ELSE
    LET s == R.s
        fr == frames[s][R.k]
        r == Insert(rl[s], fr, cap, starts[s], lens[s], vers[s])
        ri == Insert(rli[s], fr, Inf, starts[s], lens[s], vers[s])
        full == Len(rl[s]) = cap /\ fr.seq = rl[s][Len(rl[s])].seq + 1 IN
    /\ (pending # <<>> => Drift("recv:model-expected-more-emissions"))
    /\ rl' = [rl EXCEPT ![s] = r.list]
    /\ rli' = [rli EXCEPT ![s] = ri.list]
    /\ pending' = PktNums(r.out, 1, s)
    /\ nmodel' = [nmodel EXCEPT ![s] = @ + Len(r.out)]
    /\ nmodeli' = [nmodeli EXCEPT ![s] = @ + Len(ri.out)]
    /\ capflush' = [capflush EXCEPT ![s] = @ \/ full]
    /\ UNCHANGED <<failed, mode, cap, F, devOf, lens, vers, starts, ids, wr, c, frames, nemit>>

\* index of id among the valid packets of stream s (0: not a valid packet of s)
ValidIdx(s, id) == IF s \notin Str THEN 0
                   ELSE LET S == {k \in 1..Len(ids[s]) : ids[s][k] = id} IN IF S = {} THEN 0 ELSE CHOOSE k \in S : TRUE

Cause(s) == IF capflush[s] THEN ":reassembly-capacity" ELSE ""

Emit ==
    LET s == R.s
        k == ValidIdx(s, R.id)
        asModel == pending # <<>> /\ pending[1] = [s |-> s, k |-> k] IN
    IF Adv THEN (IF R.id = 0 THEN Drift("adversarial:emitted-packet-is-not-a-sent-packet") /\ Skip ELSE Skip)
    ELSE IF R.id = 0 THEN Bad("recv:emitted-packet-is-not-a-sent-packet")
    ELSE IF k = 0 THEN Bad("recv:invalid-packet-emitted")
    ELSE IF Ingress /\ R.dev # devOf[s] THEN Bad("ingress:packet-written-to-the-device-of-another-remote")
    ELSE IF InOrder /\ k <= nemit[s] THEN Bad("lossless:packet-emitted-twice-or-out-of-order")
    ELSE IF InOrder /\ k > nemit[s] + 1
      THEN Bad("lossless:packet-lost" \o (IF asModel THEN Cause(s) ELSE ""))
    ELSE /\ ((~asModel /\ ~Ingress) => Drift("recv:emission-differs-from-model"))
         /\ pending' = IF pending # <<>> THEN Tail(pending) ELSE pending
         /\ nemit' = [nemit EXCEPT ![s] = IF k > @ THEN k ELSE @]
         /\ UNCHANGED <<failed, mode, cap, F, devOf, lens, vers, starts, ids, wr, c, frames, rl, rli, capflush, nmodel, nmodeli>>

Proj(fb) == <<fb.seq, fb.index, fb.flen, fb.frag0Start, fb.pktLen>>
St == IF Adv THEN Skip ELSE
      /\ (pending # <<>> => Drift("recv:model-expected-more-emissions"))
      /\ ([i \in 1..Len(rl[R.s]) |-> Proj(rl[R.s][i])] # R.list => Drift("recv:reassembly-state-differs"))
      /\ pending' = <<>>
      /\ UNCHANGED <<failed, mode, cap, F, devOf, lens, vers, starts, ids, wr, c, frames, rl, rli, nemit, capflush, nmodel, nmodeli>>

End ==
    IF InOrder /\ \E s \in Str : nemit[s] # Len(ids[s])
      THEN LET s == CHOOSE x \in Str : nemit[x] # Len(ids[x]) IN
           Bad("lossless:packet-lost" \o (IF nmodel[s] = nemit[s] /\ nmodeli[s] = Len(ids[s]) THEN Cause(s) ELSE ""))
    ELSE IF \E s \in Str : c[s] # wr[s] THEN Bad("sender:not-everything-framed")
    ELSE UNCHANGED <<failed, state>>

Step == /\ l <= Len(Trace)
        /\ l' = l + 1
        /\ IF R.ev = "reset" THEN Reset
           ELSE IF failed THEN UNCHANGED <<failed, state>>
           ELSE CASE R.ev = "write" -> Write
                  [] R.ev = "frame" -> Frame
                  [] R.ev = "eof" -> Eof
                  [] R.ev = "timeout" -> Bad("ingress:last-packet-of-a-stream-not-delivered")
                  [] R.ev = "stuck" -> Bad("sender:read-blocks-with-data-pending")
                  [] R.ev = "panic" -> Bad("panic:" \o R.where)
                  [] R.ev = "deliver" -> Deliver
                  [] R.ev = "emit" -> Emit
                  [] R.ev = "st" -> St
                  [] R.ev = "end" -> End
                  [] OTHER -> Bad("no-spec-action:" \o R.ev)

Done == /\ l = Len(Trace) + 1
        /\ PrintT(<<"VERIF-DONE", Len(Trace)>>)
        /\ UNCHANGED vars

Next == Step \/ Done
Spec == Init /\ [][Next]_vars
=============================================================================
