SPECIFICATION Spec
CONSTANTS
  MaxAge = 2
  Grace = 1
  MaxTime = 6
INVARIANTS Sound StaleBounded
CHECK_DEADLOCK FALSE
