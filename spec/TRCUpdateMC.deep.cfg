SPECIFICATION Spec
CONSTANTS
  Depth = 3
  DeepIds = {1, 2, 3, 4}
  BaseIds = {1, 2, 3, 4}
  KindIds = {1, 2, 3}
  FinalKindIds = {}
  SampleMod = 23
  SampleRes = 0
  QuorumLowerBound = TRUE
  EmitScenarios = TRUE
INVARIANTS CodeSound Emit
VIEW View
CHECK_DEADLOCK FALSE
