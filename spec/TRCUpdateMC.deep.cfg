SPECIFICATION Spec
CONSTANTS
  Depth = 3
  DeepIds = {2, 3}
  BaseIds = {2, 3}
  KindIds = {1, 2, 3}
  FinalKindIds = {}
  QuorumLowerBound = TRUE
  EmitScenarios = FALSE
INVARIANTS CodeSound
VIEW View
CHECK_DEADLOCK FALSE
