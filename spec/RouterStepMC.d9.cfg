SPECIFICATION Spec
CONSTANTS
  Cfg <- CfgAasfound
  Kinds = {"scion"}
  Shapes <- ShapesXo
  Vias = {0, 1, 3}
  SrcDom = {"L", "F"}
  DstDom = {"L", "F"}
  Faults = {"none"}
  L4Dom = {"udp"}
  InSideDom = {0, 1, 3, 4, 999}
  EgSideDom = {0, 2, 3, 4, 999}
  PeerDom = {FALSE, TRUE}
  ExpDom = {FALSE}
  AuthDom <- Auth3
  AlertDom <- NoAlert
  EpicDom <- EpicOK
INVARIANTS InvC05
\* no scenarios
CHECK_DEADLOCK FALSE
