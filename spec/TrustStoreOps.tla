---------------------------- MODULE TrustStoreOps ----------------------------
(* Pure operators of the trust store (C35; C34/C36/C37 add their own sections below).

   C35 abstract state: the TRCs stored for one ISD and base number, as a function
   serial -> content, content \in {"none", "a", "b"} ("a"/"b": two different valid TRCs with that
   ID, e.g. two different successors produced by the voters).  A fetch for serial s has an outcome:
     "ok" / "okb"   the remote serves a verifiable successor (content a / b) of the stored serial s-1
     "fetcherr"     the fetch fails
     "badsig"       a TRC with the right ID that lacks the required votes
     "wrongpred"    a TRC with the right ID, signed by certificates the predecessor does not know
     "wrongserial"  a genuine TRC of the chain with serial s+1      "stale": with serial s-1
     "otherbase"    a TRC of another base number                     "otherisd": of another ISD
     "inserterr"    a verifiable successor, but the database insert fails
   (outc[1] = "dbreaderr" stands for a call during which the database cannot be read at all)     *)
EXTENDS Integers, Sequences, FiniteSets

GoodOutcomes == {"ok", "okb"}
Outcomes == GoodOutcomes \cup {"fetcherr", "badsig", "wrongpred", "wrongserial", "stale", "otherbase",
                               "otherisd", "inserterr"}
ContentOf(o) == IF o = "okb" THEN "b" ELSE "a"
ErrClass(o) == IF o = "fetcherr" THEN "fetch" ELSE IF o = "inserterr" THEN "insert" ELSE "verify"

Latest(db) == IF \A s \in DOMAIN db : db[s] = "none" THEN 0
              ELSE CHOOSE s \in DOMAIN db : db[s] # "none" /\ \A t \in DOMAIN db : db[t] # "none" => t <= s

(* Result of NotifyTRC(id) on store db (base number storeBase), the remote behaving as outc
   (function serial -> outcome): the store after the call, the serials fetched in order, and the
   class of the returned error ("" = nil).  Written from the statement: the missing TRCs are stored
   strictly in order, each verified against the previously latest one, stopping at the first that
   cannot be fetched or verified; never for another base; stale notifications do nothing.       *)
FirstFailure(latest, target, outc) ==
    LET bad == {s \in (latest + 1)..target : outc[s] \notin GoodOutcomes} IN
    IF bad = {} THEN target + 1 ELSE CHOOSE s \in bad : \A t \in bad : s <= t

NotifyResult(db, storeBase, idBase, idSerial, outc) ==
    LET latest == Latest(db) IN
    IF outc[1] = "dbreaderr" THEN [db |-> db, fetched |-> <<>>, err |-> "db"]    \* the store cannot be read
    ELSE IF latest = 0 THEN [db |-> db, fetched |-> <<>>, err |-> "notfound"]
    ELSE IF idBase # storeBase THEN [db |-> db, fetched |-> <<>>, err |-> "base"]
    ELSE IF idSerial <= latest THEN [db |-> db, fetched |-> <<>>, err |-> ""]
    ELSE LET f == FirstFailure(latest, idSerial, outc)
             last == IF f > idSerial THEN idSerial ELSE f IN
         [db |-> [s \in DOMAIN db |-> IF s > latest /\ s < f THEN ContentOf(outc[s]) ELSE db[s]],
          fetched |-> [i \in 1..(last - latest) |-> latest + i],
          err |-> IF f > idSerial THEN "" ELSE ErrClass(outc[f])]

(* LoadTRCs(dir): files (in file-name order) are [serial, content, future, isd, junk]:
     junk    the file does not parse as a TRC: the load stops with an error at that file
     isd     1: the ISD of this store; 2: a (genuine) TRC of another ISD -- stored under its own ISD
     future  validity starts in the future: ignored
   the others are inserted in order (an insert that conflicts with a stored TRC of the same ID stops
   the load).  No verification takes place: files on disk are trusted.                          *)
RECURSIVE LoadFrom(_, _, _)
LoadFrom(db, files, i) ==
    IF i > Len(files) THEN [db |-> db, err |-> ""]
    ELSE LET f == files[i] IN
         IF f.junk THEN [db |-> db, err |-> "parse"]
         ELSE IF f.future \/ f.isd # 1 THEN LoadFrom(db, files, i + 1)
         ELSE IF db[f.serial] = "none" THEN LoadFrom([db EXCEPT ![f.serial] = f.content], files, i + 1)
         ELSE IF db[f.serial] = f.content THEN LoadFrom(db, files, i + 1)
         ELSE [db |-> db, err |-> "insert"]
LoadResult(db, files) == LoadFrom(db, files, 1)

(* the stored TRCs form an unbroken succession first..Latest *)
Contiguous(db, first) == \A s \in DOMAIN db : db[s] # "none" <=> (first <= s /\ s <= Latest(db))
-----------------------------------------------------------------------------
(* C34 / C36 / C37: certificate chains and active TRCs.
   certificate: [id, kind, signer, nb, na, ia]
     kind    "as" / "ca" / "root" are well-formed certificates of that type (key usages, basic
             constraints, ISD-AS attributes as in doc/cryptography/certificates.rst); every other kind
             is some malformed certificate
     signer  id of the certificate whose key signed it;  ia: abstract ISD-AS of the subject
   TRC (for these properties): [serial, base, nb, na, grace, roots] with roots a set of certificate ids.
   Certs is a function id -> certificate.                                                      *)
ValidAt(c, t) == c.nb <= t /\ t <= c.na

(* chain (sequence of ids) verifies against the roots of trc at time t -- from the statement:
   AS certificate followed by the CA certificate that issued it, both well-formed, CA validity
   covers AS validity, CA chains to a root of the TRC at the verification time.                 *)
ChainRule(Certs, chain, trc, t) ==
    IF Len(chain) # 2 THEN "not-two-certificates"
    ELSE LET as == Certs[chain[1]]
             ca == Certs[chain[2]] IN
         IF as.kind # "as" THEN "first-not-as-certificate:" \o as.kind
         ELSE IF ca.kind # "ca" THEN "second-not-ca-certificate:" \o ca.kind
         ELSE IF as.signer # ca.id THEN "as-not-issued-by-ca"
         ELSE IF ~(ca.nb <= as.nb /\ as.na <= ca.na) THEN "ca-validity-not-covering"
         ELSE IF ca.signer \notin trc.roots THEN "ca-not-issued-by-trc-root"
         ELSE IF ~ValidAt(ca, t) THEN "ca-not-valid-at-time"
         ELSE IF ~ValidAt(Certs[ca.signer], t) THEN "root-not-valid-at-time"
         ELSE ""
ChainOK(Certs, chain, trc, t) == ChainRule(Certs, chain, trc, t) = ""
\* drift level: the leaf must be valid at the verification time as well
ChainStrict(Certs, chain, trc, t) == ChainOK(Certs, chain, trc, t) /\ ValidAt(Certs[chain[1]], t)

\* "verifies" for hand-outs and renewal: the whole path, the AS certificate included, is valid at t
StrictRule(Certs, chain, trc, t) ==
    IF ChainRule(Certs, chain, trc, t) # "" THEN ChainRule(Certs, chain, trc, t)
    ELSE IF ~ValidAt(Certs[chain[1]], t) THEN "as-certificate-not-valid-at-time"
    ELSE ""

(* Active TRCs at time now: the latest TRC while it is valid; additionally its predecessor while
   now lies in the grace period the latest TRC announces (a base TRC has none).                 *)
InGrace(latest, now) == latest.serial # latest.base /\ latest.nb <= now /\ now <= latest.nb + latest.grace
ProviderRule(Certs, chain, latest, pred, hasPred, now) ==
    IF ~(latest.nb <= now /\ now <= latest.na) THEN "latest-trc-not-valid"
    ELSE IF ChainStrict(Certs, chain, latest, now) THEN ""
    ELSE IF hasPred /\ InGrace(latest, now) /\ ChainStrict(Certs, chain, pred, now) THEN ""
    ELSE IF hasPred /\ ChainStrict(Certs, chain, pred, now) THEN "only-predecessor-verifies-outside-grace"
    ELSE "no-active-trc-verifies:" \o StrictRule(Certs, chain, latest, now)
ProviderOK(Certs, chain, latest, pred, hasPred, now) == ProviderRule(Certs, chain, latest, pred, hasPred, now) = ""
-----------------------------------------------------------------------------
(* C36: generated signers.  AS certificates carry a field key (which private key they certify).
   A generated signer is [key, chain, ingrace, exp]; chains is the set of chains in the store,
   keys the key ring.  From the statement:
     - the key is authenticated by a chain that verifies against the active (latest, valid) TRC, or,
       only if no chain of that key does, against the predecessor during the grace period;
     - among such chains the latest-expiring one;
     - expiry = min(chain expiry, TRC validity); in grace ALSO bounded by the grace-period end and the
       predecessor's validity, i.e. min(chain expiry, latest TRC validity, grace end, predecessor
       validity): "the earliest of the chain's expiry and the TRC validity" holds in grace as well.  *)
Min2(a, b) == IF a <= b THEN a ELSE b
ChainKey(Certs, ch) == Certs[ch[1]].key
ChainExp(Certs, ch) == Certs[ch[1]].na
UsableVia(Certs, chains, key, trc, now) ==
    {ch \in chains : ChainKey(Certs, ch) = key /\ ChainStrict(Certs, ch, trc, now)}

SignerRule(Certs, chains, keys, latest, pred, hasPred, now, s) ==
    IF ~(latest.nb <= now /\ now <= latest.na) THEN "latest-trc-not-valid"
    ELSE IF s.key \notin keys THEN "key-not-in-ring"
    ELSE IF s.chain \notin chains THEN "chain-not-in-store"
    ELSE IF ChainKey(Certs, s.chain) # s.key THEN "chain-authenticates-other-key"
    ELSE LET A == UsableVia(Certs, chains, s.key, latest, now)
             G == IF hasPred /\ InGrace(latest, now) THEN UsableVia(Certs, chains, s.key, pred, now) ELSE {}
             e == ChainExp(Certs, s.chain) IN
         IF A # {} THEN
            IF s.ingrace THEN "grace-although-active-trc-verifies-a-chain"
            ELSE IF s.chain \notin A THEN "chain-does-not-verify-against-active-trc"
            ELSE IF \E c \in A : ChainExp(Certs, c) > e THEN "not-latest-expiring-chain"
            ELSE IF s.exp # Min2(e, latest.na) THEN "expiry-not-min-of-chain-and-trc"
            ELSE ""
         ELSE IF s.chain \notin G THEN "chain-verifies-against-no-active-trc"
         ELSE IF ~s.ingrace THEN "grace-flag-missing"
         ELSE IF \E c \in G : ChainExp(Certs, c) > e THEN "not-latest-expiring-chain"
         ELSE IF s.exp # Min2(Min2(Min2(e, latest.nb + latest.grace), pred.na), latest.na) THEN
              IF s.exp = Min2(Min2(e, latest.nb + latest.grace), pred.na)
                THEN "grace-expiry-beyond-latest-trc-validity"
                ELSE "grace-expiry-not-min-of-chain-grace-end-predecessor"
         ELSE ""
-----------------------------------------------------------------------------
(* C37: certificate renewal requests.  A request is
     [chain, sis, csr]   chain: the certificates included in the CMS message (sequence of ids)
                         sis:   signer infos [sid, key, pl]: sid = certificate named by the signer
                                identifier, key = certificate whose private key made the signature,
                                pl = "csr" if the signature covers the request, else something else
                         csr:   [ia, selfsig]: subject ISD-AS (0 = none) and whether the request's own
                                signature is valid
   From the statement: single signer whose certificate is the AS certificate of the included chain,
   the chain verifies against the valid latest TRC (or its predecessor during the grace period), the
   signature covers the request, the subject ISD-AS equals the chain's, the request's signature is valid. *)
NormChain(Certs, chain) ==
    IF Len(chain) = 2 /\ Certs[chain[1]].kind = "ca" /\ Certs[chain[2]].kind = "as" THEN <<chain[2], chain[1]>> ELSE chain
RenewRule(Certs, req, latest, pred, hasPred, now) ==
    LET ch == NormChain(Certs, req.chain) IN
    IF Len(req.sis) # 1 THEN "not-exactly-one-signer"
    ELSE IF Len(ch) # 2 THEN "not-a-two-certificate-chain"
    ELSE IF req.sis[1].sid # ch[1] THEN "signer-is-not-the-as-certificate"
    ELSE IF ProviderRule(Certs, ch, latest, pred, hasPred, now) # "" THEN "chain:" \o ProviderRule(Certs, ch, latest, pred, hasPred, now)
    ELSE IF req.sis[1].key # ch[1] THEN "signature-not-by-as-key"
    ELSE IF req.sis[1].pl # "csr" THEN "signature-does-not-cover-request"
    ELSE IF req.csr.ia # Certs[ch[1]].ia THEN "csr-subject-differs-from-chain"
    ELSE IF ~req.csr.selfsig THEN "csr-signature-invalid"
    ELSE ""

(* issued chains: AS validity [asnb, asna] inside the CA's, requested key and subject *)
IssueRule(ca, r) ==
    IF ~(ca.nb <= r.asnb /\ r.asna <= ca.na) THEN "outlives-ca-certificate"
    ELSE IF r.keyok = 0 THEN "other-key"
    ELSE IF r.subjok = 0 THEN "other-subject"
    ELSE IF r.typeok = 0 \/ r.sigok = 0 THEN "not-a-valid-chain"
    ELSE ""
=============================================================================
