------------------------- MODULE DRKeyDeriveTrace -------------------------
(* Trace specification for C39.  Two kinds of reset-delimited traces in one file:

   part "derive": key events — one real derivation each, described symbolically:
       who      which route produced the key (control service of the source / destination AS, a host
                holding the secret value or the level-1 key, ...)
       kt       "sv" | "l1" | "ashost" | "hostas" | "hosthost"
       secret   name of the AS secret of the source AS;  eb, ee: epoch of the key (seconds)
       proto    requested protocol;  dst: destination ISD-AS;  srcHost / dstHost: canonical host
       mode, l1proto   "doc"/-1 for the control service (the spec fills in the documented derivation);
                for hosts the derivation they really applied (specific / generic, and the protocol
                of the secret value / level-1 key they started from)
       key      identity of the resulting 16 bytes (equal id <=> equal bytes)
     Monitor: within a trace, two events have the same key iff they have the same term
     (=> consistency between service and hosts, <= domain separation).
     Events with und = TRUE lie outside the documented scheme (specific derivation under the
     generic level-1 key): a collision that involves them is drift only.

   part "window": select events — FakeProvider.GetKeyWithinAcceptanceWindow(now, ts) with the trace's
     epoch length d, window w, grace g (microseconds, relative to the begin of an epoch):
     Monitor: ok => MaySelect(eb, ee, g, now, w, ts) and [eb, ee] is an epoch of length d.       *)
EXTENDS DRKeyOps, Json

Trace == ndJsonDeserialize("trace.ndjson")

VARIABLES t2k,    \* term -> key id
          k2t,    \* key id -> term
          undk,   \* key ids first seen in an event outside the documented scheme
          cfg,    \* [d, w, g] of the current window trace
          failed, l, nsel, nsame
vars == <<t2k, k2t, undk, cfg, failed, l, nsel, nsame>>
R == Trace[l]

Init == t2k = <<>> /\ k2t = <<>> /\ undk = {} /\ cfg = [d |-> 0, w |-> 0, g |-> 0] /\ failed = FALSE /\ l = 1
        /\ nsel = 0 /\ nsame = 0

Bad(key) == PrintT(<<"VERIF-BAD", l, key>>)
Drift(key) == PrintT(<<"VERIF-DRIFT", l, key>>)
Put(f, k, v) == [x \in DOMAIN f \cup {k} |-> IF x = k THEN v ELSE f[x]]

Reset == /\ t2k' = <<>> /\ k2t' = <<>> /\ undk' = {} /\ failed' = FALSE
         /\ cfg' = [d |-> R.d, w |-> R.w, g |-> R.g]
         /\ UNCHANGED <<nsel, nsame>>

\* the term of a key event
Doc(r) == r.mode = "doc"
TermOf(r) ==
    LET p   == r.proto
        l1p == IF Doc(r) THEN L1Proto(p) ELSE r.l1proto
        md  == IF Doc(r) THEN Mode(p) ELSE r.mode
        sv  == SVTerm(r.secret, l1p, r.eb, r.ee)
        l1  == L1Term(sv, r.dst)
    IN CASE r.kt = "sv" -> SVTerm(r.secret, p, r.eb, r.ee)
         [] r.kt = "l1" -> L1Term(SVTerm(r.secret, p, r.eb, r.ee), r.dst)
         [] r.kt = "ashost" -> L2Term("ashost", l1, md, p, r.dstHost)
         [] r.kt = "hostas" -> L2Term("hostas", l1, md, p, r.srcHost)
         [] r.kt = "hosthost" -> HHTerm(L2Term("hostas", l1, md, p, r.srcHost), r.dstHost)

Key ==
    LET t == TermOf(R) IN
    /\ UNCHANGED <<cfg, nsel>>
    /\ IF t \in DOMAIN t2k /\ t2k[t] # R.key
         THEN /\ Bad("inconsistent:" \o R.kt \o ":" \o R.who)
              /\ failed' = TRUE /\ UNCHANGED <<t2k, k2t, undk, nsame>>
       ELSE IF R.key \in DOMAIN k2t /\ k2t[R.key] # t
         THEN LET und == R.und \/ R.key \in undk IN
              /\ IF und THEN Drift("undoc-collision:" \o R.kt) ELSE Bad("collision:" \o R.kt \o ":" \o R.who)
              /\ failed' = (~und) /\ UNCHANGED <<t2k, k2t, undk, nsame>>
       ELSE /\ nsame' = nsame + (IF t \in DOMAIN t2k THEN 1 ELSE 0)
            /\ t2k' = Put(t2k, t, R.key) /\ k2t' = Put(k2t, R.key, t)
            /\ undk' = IF R.und /\ R.key \notin DOMAIN k2t THEN undk \cup {R.key} ELSE undk
            /\ UNCHANGED failed

Select ==
    /\ UNCHANGED <<t2k, k2t, undk, cfg, failed, nsame>>
    /\ nsel' = nsel + (IF R.ok THEN 1 ELSE 0)
    /\ IF R.ok /\ ~(R.ee - R.eb = cfg.d /\ R.eb % cfg.d = 0) THEN Bad("select:not-an-epoch")
       ELSE IF R.ok /\ ~InEpochWithGrace(R.eb, R.ee, cfg.g, AbsTime(R.eb, R.ts))
         THEN Bad("select:abs-time-outside-epoch+grace")
       ELSE IF R.ok /\ ~InWindow(R.now, cfg.w, AbsTime(R.eb, R.ts)) THEN Bad("select:abs-time-outside-window")
       ELSE IF ~R.ok /\ \E k \in {(R.now \div cfg.d) - 1, R.now \div cfg.d, (R.now \div cfg.d) + 1} :
                           MaySelect(k * cfg.d, (k + 1) * cfg.d, cfg.g, R.now, cfg.w, R.ts)
         THEN Drift("select:none-although-an-epoch-fits")
       ELSE TRUE

Step == /\ l <= Len(Trace)
        /\ l' = l + 1
        /\ IF R.ev = "reset" THEN Reset
           ELSE IF failed THEN UNCHANGED <<t2k, k2t, undk, cfg, failed, nsel, nsame>>
           ELSE CASE R.ev = "key" -> Key
                  [] R.ev = "select" -> Select
                  [] R.ev = "err" -> UNCHANGED <<t2k, k2t, undk, cfg, failed, nsel, nsame>>
                  [] OTHER -> /\ Bad("no-spec-action:" \o R.ev)
                              /\ failed' = TRUE /\ UNCHANGED <<t2k, k2t, undk, cfg, nsel, nsame>>

Done == /\ l = Len(Trace) + 1
        /\ PrintT(<<"VERIF-STAT", "selected", nsel>>)
        /\ PrintT(<<"VERIF-STAT", "sameterm", nsame>>)
        /\ PrintT(<<"VERIF-DONE", Len(Trace)>>)
        /\ UNCHANGED vars

Next == Step \/ Done
Spec == Init /\ [][Next]_vars
=============================================================================
