------------------------- MODULE DRKeyDeriveTrace -------------------------
(* Trace specification for C39.  Two kinds of reset-delimited traces in one file:

   part "derive": key events — one real derivation each, described symbolically:
       who      which route produced the key (control service of the source / destination AS, a host
                holding the secret value or the level-1 key, ...)
       kt       "sv" | "l1" | "ashost" | "hostas" | "hosthost"
       secret   name of the AS secret of the source AS;  eb, ee: epoch of the key (seconds)
       proto    requested protocol;  dst: destination ISD-AS;  srcHost / dstHost: canonical host
       mode, l1proto   "doc"/-1 for the control service (the spec fills in the documented derivation);
                for hosts the derivation they really applied (specific / generic, and the protocol
                of the secret value / level-1 key they started from)
       key      identity of the resulting 16 bytes (equal id <=> equal bytes)
     Monitor: within a trace, two events have the same key iff they have the same term
     (=> consistency between service and hosts, <= domain separation).
     Events with und = TRUE lie outside the documented scheme (specific derivation under the
     generic level-1 key): a collision that involves them is drift only.

   part "epoch": l1 events — GetLevel1Key at the source ("src") or destination ("dst") control service for
     the explicit validity time t (whole seconds relative to an epoch start; epoch length d), interleaved
     with prefetch requests (t = now + d) and `clean` events (DeleteExpired* with cut-off now), walking
     across epoch boundaries (model: DRKeyEpoch.tla).
     Monitor: ok => eb <= t < ee (the key of the epoch that contains the requested time: never a stale
     key after the roll-over, never an early one), and one key per epoch / one epoch per key over the whole
     history whichever route answered (derived, stored, fetched, re-fetched after cleaning).
     Drift: epochs not of length d / not aligned, fetches and deletions that differ from DRKeyEpoch's stores.

   part "window": select events — FakeProvider.GetKeyWithinAcceptanceWindow(now, ts) with the trace's
     epoch length d, window w, grace g (microseconds, relative to the begin of an epoch):
     Monitor: ok => MaySelect(eb, ee, g, now, w, ts) and [eb, ee] is an epoch of length d.       *)
EXTENDS DRKeyOps, Json, FiniteSets

Trace == ndJsonDeserialize("trace.ndjson")

VARIABLES t2k,    \* term -> key id
          k2t,    \* key id -> term
          undk,   \* key ids first seen in an event outside the documented scheme
          stA, stB,  \* part "epoch": epoch begins held by A's secret-value store / B's level-1 store (model)
          cfg,    \* [d, w, g] of the current window trace
          failed, l, nsel, nsame
vars == <<t2k, k2t, undk, stA, stB, cfg, failed, l, nsel, nsame>>
R == Trace[l]

Init == t2k = <<>> /\ k2t = <<>> /\ undk = {} /\ stA = {} /\ stB = {} /\ cfg = [d |-> 0, w |-> 0, g |-> 0] /\ failed = FALSE /\ l = 1
        /\ nsel = 0 /\ nsame = 0

Bad(key) == PrintT(<<"VERIF-BAD", l, key>>)
Drift(key) == PrintT(<<"VERIF-DRIFT", l, key>>)
Put(f, k, v) == [x \in DOMAIN f \cup {k} |-> IF x = k THEN v ELSE f[x]]

Reset == /\ t2k' = <<>> /\ k2t' = <<>> /\ undk' = {} /\ stA' = {} /\ stB' = {} /\ failed' = FALSE
         /\ cfg' = [d |-> R.d, w |-> R.w, g |-> R.g]
         /\ UNCHANGED <<nsel, nsame>>

\* the term of a key event
Doc(r) == r.mode = "doc"
TermOf(r) ==
    LET p   == r.proto
        l1p == IF Doc(r) THEN L1Proto(p) ELSE r.l1proto
        md  == IF Doc(r) THEN Mode(p) ELSE r.mode
        sv  == SVTerm(r.secret, l1p, r.eb, r.ee)
        l1  == L1Term(sv, r.dst)
    IN CASE r.kt = "sv" -> SVTerm(r.secret, p, r.eb, r.ee)
         [] r.kt = "l1" -> L1Term(SVTerm(r.secret, p, r.eb, r.ee), r.dst)
         [] r.kt = "ashost" -> L2Term("ashost", l1, md, p, r.dstHost)
         [] r.kt = "hostas" -> L2Term("hostas", l1, md, p, r.srcHost)
         [] r.kt = "hosthost" -> HHTerm(L2Term("hostas", l1, md, p, r.srcHost), r.dstHost)

Key ==
    LET t == TermOf(R) IN
    /\ UNCHANGED <<cfg, nsel, stA, stB>>
    /\ IF t \in DOMAIN t2k /\ t2k[t] # R.key
         THEN /\ Bad("inconsistent:" \o R.kt \o ":" \o R.who)
              /\ failed' = TRUE /\ UNCHANGED <<t2k, k2t, undk, nsame>>
       ELSE IF R.key \in DOMAIN k2t /\ k2t[R.key] # t
         THEN LET und == R.und \/ R.key \in undk IN
              /\ IF und THEN Drift("undoc-collision:" \o R.kt) ELSE Bad("collision:" \o R.kt \o ":" \o R.who)
              /\ failed' = (~und) /\ UNCHANGED <<t2k, k2t, undk, nsame>>
       ELSE /\ nsame' = nsame + (IF t \in DOMAIN t2k THEN 1 ELSE 0)
            /\ t2k' = Put(t2k, t, R.key) /\ k2t' = Put(k2t, R.key, t)
            /\ undk' = IF R.und /\ R.key \notin DOMAIN k2t THEN undk \cup {R.key} ELSE undk
            /\ UNCHANGED failed

\* ---- part "epoch"
EpochTerm(eb, ee) == "epoch(" \o ToString(eb) \o "-" \o ToString(ee) \o ")"
HeldBy(st, t) == \E b \in st : b <= t /\ t < b + cfg.d
L1 ==
    LET t == EpochTerm(R.eb, R.ee)
        modelFetch == R.who = "dst" /\ ~HeldBy(stB, R.t)
        b == (R.t \div cfg.d) * cfg.d IN
    /\ UNCHANGED <<undk, cfg, nsel>>
    /\ IF ~R.ok THEN Drift("epoch:no-answer:" \o R.who) /\ UNCHANGED <<t2k, k2t, stA, stB, failed, nsame>>
       ELSE IF ~(R.eb <= R.t /\ R.t < R.ee)
         THEN /\ Bad("epoch:answer-not-for-requested-time:" \o R.who \o
                     (IF R.t >= R.ee THEN ":stale" ELSE ":early"))
              /\ failed' = TRUE /\ UNCHANGED <<t2k, k2t, stA, stB, nsame>>
       ELSE IF t \in DOMAIN t2k /\ t2k[t] # R.key
         THEN /\ Bad("epoch:two-keys-for-one-epoch:" \o R.who)
              /\ failed' = TRUE /\ UNCHANGED <<t2k, k2t, stA, stB, nsame>>
       ELSE IF R.key \in DOMAIN k2t /\ k2t[R.key] # t
         THEN /\ Bad("epoch:one-key-for-two-epochs:" \o R.who)
              /\ failed' = TRUE /\ UNCHANGED <<t2k, k2t, stA, stB, nsame>>
       ELSE /\ nsame' = nsame + (IF t \in DOMAIN t2k THEN 1 ELSE 0)
            /\ t2k' = Put(t2k, t, R.key) /\ k2t' = Put(k2t, R.key, t)
            /\ stB' = IF modelFetch THEN stB \cup {b} ELSE stB
            /\ stA' = IF (R.who = "src" \/ modelFetch) /\ ~HeldBy(stA, R.t) THEN stA \cup {b} ELSE stA
            /\ UNCHANGED failed
            /\ IF R.ee - R.eb # cfg.d \/ R.eb % cfg.d # 0 THEN Drift("epoch:not-an-aligned-epoch")
               ELSE IF R.fetched # modelFetch THEN Drift("epoch:fetch-differs-from-model") ELSE TRUE

Clean ==
    LET liveA == {b \in stA : b + cfg.d > R.now}
        liveB == {b \in stB : b + cfg.d > R.now} IN
    /\ stA' = liveA /\ stB' = liveB
    /\ UNCHANGED <<t2k, k2t, undk, cfg, failed, nsel, nsame>>
    /\ IF R.l1 # Cardinality(stB) - Cardinality(liveB) \/ R.sv # Cardinality(stA) - Cardinality(liveA)
         THEN Drift("epoch:clean-count-differs-from-model") ELSE TRUE

Select ==
    /\ UNCHANGED <<t2k, k2t, undk, stA, stB, cfg, failed, nsame>>
    /\ nsel' = nsel + (IF R.ok THEN 1 ELSE 0)
    /\ IF R.ok /\ ~(R.ee - R.eb = cfg.d /\ R.eb % cfg.d = 0) THEN Bad("select:not-an-epoch")
       ELSE IF R.ok /\ ~InEpochWithGrace(R.eb, R.ee, cfg.g, AbsTime(R.eb, R.ts))
         THEN Bad("select:abs-time-outside-epoch+grace")
       ELSE IF R.ok /\ ~InWindow(R.now, cfg.w, AbsTime(R.eb, R.ts)) THEN Bad("select:abs-time-outside-window")
       ELSE IF ~R.ok /\ \E k \in {(R.now \div cfg.d) - 1, R.now \div cfg.d, (R.now \div cfg.d) + 1} :
                           MaySelect(k * cfg.d, (k + 1) * cfg.d, cfg.g, R.now, cfg.w, R.ts)
         THEN Drift("select:none-although-an-epoch-fits")
       ELSE TRUE

Step == /\ l <= Len(Trace)
        /\ l' = l + 1
        /\ IF R.ev = "reset" THEN Reset
           ELSE IF failed THEN UNCHANGED <<t2k, k2t, undk, stA, stB, cfg, failed, nsel, nsame>>
           ELSE CASE R.ev = "key" -> Key
                  [] R.ev = "select" -> Select
                  [] R.ev = "l1" -> L1
                  [] R.ev = "clean" -> Clean
                  [] R.ev = "err" -> UNCHANGED <<t2k, k2t, undk, stA, stB, cfg, failed, nsel, nsame>>
                  [] OTHER -> /\ Bad("no-spec-action:" \o R.ev)
                              /\ failed' = TRUE /\ UNCHANGED <<t2k, k2t, undk, stA, stB, cfg, nsel, nsame>>

Done == /\ l = Len(Trace) + 1
        /\ PrintT(<<"VERIF-STAT", "selected", nsel>>)
        /\ PrintT(<<"VERIF-STAT", "sameterm", nsame>>)
        /\ PrintT(<<"VERIF-DONE", Len(Trace)>>)
        /\ UNCHANGED vars

Next == Step \/ Done
Spec == Init /\ [][Next]_vars
=============================================================================
