--------------------------- MODULE DataplaneOps ---------------------------
(* Pure operators of the border-router data plane (C02, C03, C04, C07, C10, C22).

   One source of truth for the exhaustive model (Dataplane.tla, symbolic MACs) and for the trace
   specification (DataplaneTrace.tla, projections of real packets).  Segment identifiers are SETS:
   in the model a set of symbolic hop signatures (XOR of independent 16-bit MAC prefixes behaves
   like symmetric difference), in traces the set of one-bits of the concrete 16-bit value.  In both
   worlds Upd is symmetric difference and a hop field is authentic iff the accumulator in force
   equals the accumulator its issuer used at construction time (hop.bc) and hop.ok holds.

   Topology  T = WithEnds([name, ases  |-> Seq([name, core, routers, isd]),
                  links |-> Seq([a, aif, ar, b, bif, br, kind])])  kind: "core" | "parent" (a parent of b) | "peer"
   Packet    p = [src, dst, ci, ch (0-based, as on the wire), sl (Seq of 3),
                  infos |-> Seq([c, p, sid]),
                  hops  |-> Seq([in, eg, as (issuer), bc, ok, ia, ea, sig, x (expired)])]          *)
EXTENDS Integers, Sequences, FiniteSets

SymDiff(a, b) == (a \ b) \cup (b \ a)
Upd(sid, sig) == SymDiff(sid, sig)

Range(s) == {s[i] : i \in DOMAIN s}

\* ------------------------------------------------------------------ topology
SideA(l) == [as |-> l.a, if |-> l.aif, r |-> l.ar, pas |-> l.b, pif |-> l.bif, pr |-> l.br,
             lt |-> IF l.kind = "core" THEN "core" ELSE IF l.kind = "parent" THEN "child" ELSE "peer"]
SideB(l) == [as |-> l.b, if |-> l.bif, r |-> l.br, pas |-> l.a, pif |-> l.aif, pr |-> l.ar,
             lt |-> IF l.kind = "core" THEN "core" ELSE IF l.kind = "parent" THEN "parent" ELSE "peer"]
AllEndsOf(t) == {SideA(t.links[i]) : i \in DOMAIN t.links} \cup {SideB(t.links[i]) : i \in DOMAIN t.links}
\* T carries the pre-computed set of link ends (T.ends), see WithEnds
WithEnds(t) == [name |-> t.name, ases |-> t.ases, links |-> t.links, ends |-> AllEndsOf(t)]
AllEnds(T) == T.ends
Ends(T, as) == {e \in T.ends : e.as = as}
HasIf(T, as, if) == \E e \in T.ends : e.as = as /\ e.if = if
EndOf(T, as, if) == CHOOSE e \in T.ends : e.as = as /\ e.if = if
NoEnd == [as |-> "", if |-> 0, r |-> -1, pas |-> "", pif |-> 0, pr |-> -1, lt |-> "none"]
EndOrNone(T, as, if) == IF HasIf(T, as, if) THEN EndOf(T, as, if) ELSE NoEnd

\* ------------------------------------------------------------------ path meta (PathMeta of C19)
NumHops(p) == p.sl[1] + p.sl[2] + p.sl[3]
NumInf(p)  == IF p.sl[3] > 0 THEN 3 ELSE IF p.sl[2] > 0 THEN 2 ELSE IF p.sl[1] > 0 THEN 1 ELSE 0
InfIdx(p, hf) == IF hf < p.sl[1] THEN 0 ELSE IF hf < p.sl[1] + p.sl[2] THEN 1 ELSE 2
IsXover(p) == p.ch + 1 < NumHops(p) /\ p.ci # InfIdx(p, p.ch + 1)
IsFirstHop(p) == p.ch = 0
IsLastHop(p) == p.ch = NumHops(p) - 1
IsFirstHopAfterXover(p) == p.ci > 0 /\ p.ch > 0 /\ p.ci - 1 = InfIdx(p, p.ch - 1)
CurHop(p) == p.hops[p.ch + 1]
CurInf(p) == p.infos[p.ci + 1]
\* p.hops may be a window of the hop fields (a function on a sub-range of 1..NumHops): routers
\* look at the previous, current and next hop field only
WellFormedPtr(p) == /\ p.ch >= 0 /\ p.ch < NumHops(p) /\ (p.ch + 1) \in DOMAIN p.hops
                    /\ (p.ch + 2 <= NumHops(p) => (p.ch + 2) \in DOMAIN p.hops)
                    /\ (p.ch > 0 => p.ch \in DOMAIN p.hops)
                    /\ p.ci >= 0 /\ p.ci < NumInf(p) /\ NumInf(p) = Len(p.infos)
IncPath(p) == [p EXCEPT !.ch = p.ch + 1, !.ci = InfIdx(p, p.ch + 1)]

\* determinePeer
PeerBad(p) == CurInf(p).p /\ (p.sl[1] = 0 \/ p.sl[2] = 0 \/ p.sl[3] # 0)
PeerOf(p) == CurInf(p).p /\ ~PeerBad(p) /\ (p.ch = p.sl[1] - 1 \/ p.ch = p.sl[1])

\* position class of the current hop, for failure keys
PosClass(p) ==
    IF ~WellFormedPtr(p) THEN "malformed"
    ELSE IF PeerOf(p) THEN "peer"
    ELSE IF IsXover(p) THEN "xover"
    ELSE IF IsFirstHop(p) THEN "first"
    ELSE IF IsLastHop(p) THEN "last"
    ELSE IF IsFirstHopAfterXover(p) THEN "afterxover"
    ELSE "transit"

\* ------------------------------------------------------------------ the router step
\* A hop field is accepted by AS `as` under accumulator sid iff it was issued by `as` with exactly
\* that accumulator and its MAC (re-computed independently) is valid for its current fields.
MacOK(as, hop, sid) == hop.as = as /\ hop.ok /\ hop.bc = sid

Slow(t, c, p, eg) == [disp |-> "slow", out |-> "none", egress |-> eg, type |-> t, code |-> c, pkt |-> p]
Discard(p) == [disp |-> "discard", out |-> "none", egress |-> 0, type |-> 0, code |-> 0, pkt |-> p]
Fwd(o, eg, p) == [disp |-> "forward", out |-> o, egress |-> eg, type |-> 0, code |-> 0, pkt |-> p]

AllowedNoXover == {<<"core", "core">>, <<"child", "parent">>, <<"parent", "child">>,
                   <<"child", "peer">>, <<"peer", "child">>}
AllowedXover == {<<"core", "child">>, <<"child", "core">>, <<"child", "child">>}

(* RouterStep transcribes scionPacketProcessor.process in the order of the code.
   as, r: the router; scope \in {"int","sib","ext"}; inif: ingress interface (0 unless ext);
   sibfrom: router the packet came from (scope = "sib"); down: set of interface ids whose link is
   down (BFD); the internal link is interface 0.                                                 *)
RouterStep(T, as, r, scope, inif, sibfrom, down, p0) ==
  IF ~WellFormedPtr(p0) THEN Discard(p0) ELSE
  LET inf0 == CurInf(p0)  hop0 == CurHop(p0)
      singleton == p0.sl[1] = 1 \/ p0.sl[2] = 1 \/ p0.sl[3] = 1
      peering == PeerOf(p0)
  IN
  IF ~inf0.p /\ singleton THEN Discard(p0)
  ELSE IF p0.ci # InfIdx(p0, p0.ch) THEN Discard(p0)
  ELSE IF PeerBad(p0) THEN Discard(p0)
  ELSE
  \* updateNonConsDirIngressSegID comes first (since /repo 9f23998: every SCMP error must leave with
  \* the ingress-side update done, prepareSCMP relies on it)
  LET sid1 == IF ~inf0.c /\ inif # 0 /\ ~peering THEN Upd(inf0.sid, hop0.sig) ELSE inf0.sid
      p1 == [p0 EXCEPT !.infos[p0.ci + 1].sid = sid1]
  IN
  IF hop0.x THEN Slow(4, 52, p1, 0)
  ELSE IF inif # 0 /\ inif # (IF inf0.c THEN hop0.in ELSE hop0.eg)
       THEN Slow(4, IF inf0.c THEN 49 ELSE 50, p1, 0)
  ELSE
  LET \* validateTransitUnderlaySrc
      useprev == ~peering /\ IsFirstHopAfterXover(p0)
      pinf == IF useprev THEN p0.infos[p0.ci] ELSE inf0
      phop == IF useprev THEN p0.hops[p0.ch] ELSE hop0
      pktIngress == IF pinf.c THEN phop.in ELSE phop.eg
      transitOK == IF IsFirstHop(p0) \/ inif # 0 THEN TRUE
                   ELSE IF pktIngress = 0 THEN FALSE      \* since /repo 407d70e (was: scope = "int")
                   ELSE IF ~HasIf(T, as, pktIngress) THEN FALSE
                   ELSE LET e == EndOf(T, as, pktIngress) IN
                        e.r # r /\ scope = "sib" /\ e.r = sibfrom
      srcLocal == p0.src = as
      dstLocal == p0.dst = as
  IN
  IF ~transitOK THEN Discard(p1)
  ELSE IF inif = 0 /\ IsFirstHop(p0) /\ ~srcLocal THEN Slow(4, 33, p1, 0)
  ELSE IF inif = 0 /\ dstLocal THEN Slow(4, 34, p1, 0)
  ELSE IF inif # 0 /\ srcLocal THEN Slow(4, 33, p1, 0)
  ELSE IF inif # 0 /\ IsLastHop(p0) # dstLocal THEN Slow(4, 34, p1, 0)
  ELSE
  IF ~MacOK(as, hop0, sid1) THEN Slow(4, 51, p1, 0)
  ELSE IF inif # 0 /\ (IF inf0.c THEN hop0.ia ELSE hop0.ea) THEN Slow(-1, 0, p1, 0)
  ELSE IF dstLocal THEN Fwd("int", 0, p1)
  ELSE
  LET xover == IsXover(p1) /\ ~peering
      p2 == IF xover THEN IncPath(p1) ELSE p1
      inf == CurInf(p2)  hop == CurHop(p2)
  IN
  IF xover /\ hop.x THEN Slow(4, 52, p2, 0)
  ELSE IF xover /\ ~MacOK(as, hop, inf.sid) THEN Slow(4, 51, p2, 0)
  ELSE
  LET eg == IF inf.c THEN hop.eg ELSE hop.in
      known == eg # 0 /\ HasIf(T, as, eg)
      e == EndOrNone(T, as, eg)
      escope == IF eg = 0 THEN "int" ELSE IF e.r = r THEN "ext" ELSE "sib"
      ilt == IF inif = 0 THEN "none" ELSE EndOrNone(T, as, inif).lt
  IN
  \* egress 0 is the internal link itself: a known link (D3: not refused for internal ingress)
  IF (eg # 0 /\ ~known) \/ (inif = 0 /\ escope = "sib")
      THEN Slow(4, IF inf.c THEN 50 ELSE 49, p2, eg)
  ELSE IF ~xover /\ inif # 0 /\ <<ilt, e.lt>> \notin AllowedNoXover THEN Slow(4, 48, p2, eg)
  ELSE IF xover /\ <<ilt, e.lt>> \notin AllowedXover THEN Slow(4, 53, p2, eg)
  ELSE IF (IF inf.c THEN hop.ea ELSE hop.ia) /\ escope = "ext" THEN Slow(-2, 0, p2, eg)
  ELSE IF eg \in down THEN Slow(IF escope = "ext" THEN 5 ELSE 6, 0, p2, eg)
  ELSE IF escope = "ext" THEN
       LET sid2 == IF inf.c /\ ~peering THEN Upd(inf.sid, hop.sig) ELSE inf.sid
           p3 == [p2 EXCEPT !.infos[p2.ci + 1].sid = sid2]
       IN IF IsLastHop(p3) THEN Discard(p3) ELSE Fwd("ext", eg, IncPath(p3))
  ELSE Fwd(escope, eg, p2)

\* ------------------------------------------------------------------ host side: path reversal
Rev(s) == [i \in 1..Len(s) |-> s[Len(s) + 1 - i]]
\* scion.Decoded.Reverse: info fields reversed with ConsDir flipped, hop fields reversed,
\* segment lengths reversed (over the non-empty ones), pointers mirrored.
Reverse(p) ==
    LET n == NumInf(p)
        sl == IF n = 3 THEN <<p.sl[3], p.sl[2], p.sl[1]>>
              ELSE IF n = 2 THEN <<p.sl[2], p.sl[1], 0>> ELSE p.sl
        q == [p EXCEPT !.sl = sl,
                       !.infos = [i \in 1..n |-> [p.infos[n + 1 - i] EXCEPT !.c = ~@]],
                       !.hops = Rev(p.hops),
                       !.src = p.dst, !.dst = p.src,
                       !.ch = NumHops(p) - p.ch - 1]
    IN [q EXCEPT !.ci = InfIdx(q, q.ch)]

\* ------------------------------------------------------------------ SCMP answers (prepareSCMP, path part)
\* p: the packet as the fast path left it when it asked for the slow path; as: the answering AS;
\* scope: scope of the link the packet came in through (the answer leaves through the same link).
ScmpReply(as, scope, p) ==
    LET q0 == [Reverse(p) EXCEPT !.src = as, !.dst = p.src]
        peering == PeerOf(q0)
        q1 == IF IsXover(q0) /\ ~peering THEN IncPath(q0) ELSE q0      \* revert the cross-over
    IN IF scope # "ext" THEN q1
       ELSE \* towards another AS: this router is also the egress router of the answer
            LET i == CurInf(q1)
                q2 == IF i.c /\ ~peering
                      THEN [q1 EXCEPT !.infos[q1.ci + 1].sid = Upd(i.sid, CurHop(q1).sig)] ELSE q1
            IN IncPath(q2)

\* ------------------------------------------------------------------ C07: bytes a router may change
\* mo: offset of the path meta header; d: <<offset, old, new>>.
InfoSidBytes(mo, i) == {mo + 4 + 8 * i + 2, mo + 4 + 8 * i + 3}
HopFlagByte(mo, ninf, h) == mo + 4 + 8 * ninf + 12 * h
Bit(v, b) == (v \div b) % 2
FlagsOnlyCleared(old, new) == old \div 4 = new \div 4 /\ Bit(new, 1) <= Bit(old, 1) /\ Bit(new, 2) <= Bit(old, 2)
DiffAllowed(pre, post, d) ==
    LET mo == pre.mo  off == d[1] IN
    IF pre.pt = "ohp" THEN
        \* one-hop path = info field (8) + first hop (12) + second hop (12) at mo: the SegID and,
        \* at the router completing the path, the second hop field
        off \in {mo + 2, mo + 3} \cup (mo + 20)..(mo + 31)
    ELSE
    \/ off = mo                                                   \* CurrINF | CurrHF
    \/ off \in InfoSidBytes(mo, pre.ci) \cup InfoSidBytes(mo, post.ci)
    \* A router that consumes a router-alert flag answers the request (slow path) instead of forwarding
    \* it; a packet that IS forwarded therefore keeps its flag bytes: a flag cleared on a forwarded
    \* packet was not consumed by this router (nobody will answer it any more).
=============================================================================
