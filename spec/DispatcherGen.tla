---------------------------- MODULE DispatcherGen ----------------------------
(* C44 scenario generator: every datagram sequence of the Dispatcher state machine is printed when it
   reaches its length bound: <<"SCN", json [on, seq]>>. *)
EXTENDS Dispatcher, Json
Emit == (n = MaxLen) => PrintT(<<"SCN", ToJson([on |-> IF on THEN 1 ELSE 0, seq |-> hist])>>)
=============================================================================
