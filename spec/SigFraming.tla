----------------------------- MODULE SigFraming -----------------------------
(* C41: sender framing + lossy / duplicating / reordering network + receiver reassembly, explored
   exhaustively.

     pkts   the valid packets are chosen (length, IP version) and F, the frame payload capacity
     send   encoder: packets become available to the encoder in bursts (WriteMore); Read produces the
            next frame according to FrameOk (full / no room for a header / input ring empty)
     net    any sent frame is delivered any number of times in any order (MaxDeliver deliveries);
            with Lossless = TRUE every frame exactly once, in order.  Each delivery is one
            worker.processFrame -> reassemblyList.Insert step (SigFramingOps).

   Invariants: NoSplice (every packet written to the tunnel device is exactly one packet that was
   sent), NoGarbage (no header is ever parsed at a non-packet position), LosslessExact (in order and
   without loss the emitted sequence is the sent sequence).  SigFramingMC.capacity.cfg shows that
   LosslessExact fails when a packet needs more frames than the reassembly list holds (never a
   verdict by itself).                                                                       *)
EXTENDS SigFramingOps, TLC

CONSTANTS Kinds,       \* set of <<len, version>>
          NP,          \* number of packets
          Fs,          \* set of payload capacities
          MaxDeliver,  \* deliveries explored in faulty mode
          Cap,         \* reassembly list capacity
          Lossless     \* BOOLEAN

VARIABLES phase, lens, vers, starts, F, nwr, c, frames, rl, emitted, garbage, ndel, hist
vars == <<phase, lens, vers, starts, F, nwr, c, frames, rl, emitted, garbage, ndel, hist>>

Total == IF Len(lens) = 0 THEN 0 ELSE starts[Len(lens)] + lens[Len(lens)]
WrBytes == IF nwr = Len(lens) THEN Total ELSE starts[nwr + 1]

Init == /\ phase = "pkts" /\ lens = <<>> /\ vers = <<>> /\ starts = <<>> /\ F = 0 /\ nwr = 0 /\ c = 0
        /\ frames = <<>> /\ rl = <<>> /\ emitted = <<>> /\ garbage = FALSE /\ ndel = 0 /\ hist = <<>>

AddPkt == /\ phase = "pkts" /\ Len(lens) < NP
          /\ \E k \in Kinds :
               /\ lens' = Append(lens, k[1]) /\ vers' = Append(vers, k[2])
               /\ starts' = Append(starts, Total)
          /\ UNCHANGED <<phase, F, nwr, c, frames, rl, emitted, garbage, ndel, hist>>

StartSend == /\ phase = "pkts" /\ Len(lens) = NP
             /\ \E f \in Fs : F' = f
             /\ phase' = "send"
             /\ UNCHANGED <<lens, vers, starts, nwr, c, frames, rl, emitted, garbage, ndel, hist>>

\* the writer hands more packets to the encoder's ring
WriteMore == /\ phase = "send" /\ nwr < Len(lens)
             /\ \E m \in (nwr + 1)..Len(lens) : nwr' = m
             /\ UNCHANGED <<phase, lens, vers, starts, F, c, frames, rl, emitted, garbage, ndel, hist>>

FrameIdx(n, st) == LET inF == {k \in 1..Len(st) : c <= st[k] /\ st[k] < c + n} IN
                   IF inF = {} THEN NoIdx ELSE MinOf({st[k] : k \in inF}) - c

\* encoder.Read returns a frame (it blocks while nothing is pending)
Read == /\ phase = "send" /\ c < WrBytes
        /\ LET st == SubSeq(starts, 1, nwr) IN
           \E n \in 1..F :
              /\ FrameOk(c, n, FrameIdx(n, st), WrBytes, F, st)
              /\ frames' = Append(frames, [seq |-> Len(frames), index |-> FrameIdx(n, st), n |-> n, c |-> c, w |-> nwr])
              /\ c' = c + n
        /\ UNCHANGED <<phase, lens, vers, starts, F, nwr, rl, emitted, garbage, ndel, hist>>

StartNet == /\ phase = "send" /\ nwr = Len(lens) /\ c = Total
            /\ phase' = "net"
            /\ UNCHANGED <<lens, vers, starts, F, nwr, c, frames, rl, emitted, garbage, ndel, hist>>

RECURSIVE Pkts(_, _)
Pkts(out, i) == IF i > Len(out) THEN <<>> ELSE <<EmittedPkt(out[i], starts, lens)>> \o Pkts(out, i + 1)

Deliver == /\ phase = "net"
           /\ \E k \in 1..Len(frames) :
                /\ IF Lossless THEN k = ndel + 1 ELSE ndel < MaxDeliver
                /\ LET r == Insert(rl, frames[k], Cap, starts, lens, vers) IN
                   /\ rl' = r.list
                   /\ emitted' = emitted \o Pkts(r.out, 1)
                   /\ garbage' = (garbage \/ r.garbage)
                /\ hist' = Append(hist, k)
           /\ ndel' = ndel + 1
           /\ UNCHANGED <<phase, lens, vers, starts, F, nwr, c, frames>>

Next == AddPkt \/ StartSend \/ WriteMore \/ Read \/ StartNet \/ Deliver
Spec == Init /\ [][Next]_vars

-----------------------------------------------------------------------------
NoSplice == \A i \in 1..Len(emitted) : emitted[i] # 0
NoGarbage == ~garbage
LosslessPrefix == Lossless => \A i \in 1..Len(emitted) : emitted[i] = i
LosslessExact == (Lossless /\ phase = "net" /\ ndel = Len(frames)) => emitted = [i \in 1..Len(lens) |-> i]
FramesTile == \A i \in 1..Len(frames) :
                 /\ frames[i].seq = i - 1
                 /\ frames[i].c = (IF i = 1 THEN 0 ELSE frames[i - 1].c + frames[i - 1].n)
\* the list is sorted, gap-free and starts with a frame that holds the head of a packet
ListShape == \A i \in 1..Len(rl) :
                /\ (i > 1 => rl[i].seq = rl[i - 1].seq + 1)
                /\ (i = 1 => rl[i].frag0Start # 0)

\* hist / ndel are bookkeeping: BFS reaches every state first with the fewest deliveries
McView == <<phase, lens, vers, F, nwr, c, frames, rl, emitted, garbage>>
McKinds == {<<20, 4>>, <<40, 6>>, <<45, 4>>, <<90, 6>>, <<130, 4>>}
McKindsQuick == {<<20, 4>>, <<45, 4>>, <<90, 6>>}
=============================================================================
