--------------------------- MODULE RouterWireOps ---------------------------
(* C08 -- well-formedness of the packets a router forwards, delivers or emits, evaluated on the
   bytes (sequence of integers 0..255, 1-based; `len` is the real length of the packet, of which at
   least the first Len(b) bytes were recorded).

   SCION common header (doc/protocols/scion-header.rst), 0-based offsets:
     0..3  version / traffic class / flow id      4 NextHdr      5 HdrLen (units of 4 bytes)
     6..7  PayloadLen                              8 PathType     9 DT DL ST SL     10..11 reserved
   address header: DstIA(8) SrcIA(8) DstHost((DL+1)*4) SrcHost((SL+1)*4); then the path.          *)
EXTENDS Integers, Sequences, TLC

At(b, off) == b[off + 1]                      \* byte at 0-based offset
U16(b, off) == At(b, off) * 256 + At(b, off + 1)

CmnHdrLen == 12
Min2(a, b) == IF a < b THEN a ELSE b
PathEmpty == 0
PathSCION == 1
PathOneHop == 2
PathEPIC == 3
HopByHopClass == 200
End2EndClass == 201

Version(b) == At(b, 0) \div 16
NextHdr(b) == At(b, 4)
HdrBytes(b) == At(b, 5) * 4
PayloadLen(b) == U16(b, 6)
PathType(b) == At(b, 8)
DstHostLen(b) == (((At(b, 9) \div 16) % 4) + 1) * 4
SrcHostLen(b) == ((At(b, 9) % 4) + 1) * 4
AddrHdrLen(b) == 16 + DstHostLen(b) + SrcHostLen(b)
PathOff(b) == CmnHdrLen + AddrHdrLen(b)
PathLen(b) == HdrBytes(b) - PathOff(b)

-----------------------------------------------------------------------------
(* SCION path meta header at offset o: CurrINF(2) CurrHF(6) RSV(6) Seg0Len(6) Seg1Len(6) Seg2Len(6) *)
MetaCurrINF(b, o) == At(b, o) \div 64
MetaCurrHF(b, o) == At(b, o) % 64
(* byte 1: RSV(6) Seg0[5..4]   byte 2: Seg0[3..0] Seg1[5..2]   byte 3: Seg1[1..0] Seg2   (TLC integers are 32 bit) *)
MetaSeg(b, o, i) == CASE i = 0 -> (At(b, o + 1) % 4) * 16 + At(b, o + 2) \div 16
                      [] i = 1 -> (At(b, o + 2) % 16) * 4 + At(b, o + 3) \div 64
                      [] i = 2 -> At(b, o + 3) % 64

(* field-level consistency of a path meta header (also used on abstract headers by RouterWire.tla) *)
MetaConsistent(currINF, currHF, s0, s1, s2) ==
    LET numINF == IF s0 = 0 THEN 0 ELSE IF s1 = 0 THEN 1 ELSE IF s2 = 0 THEN 2 ELSE 3
        numHops == s0 + s1 + s2
        infOf == IF currHF < s0 THEN 0 ELSE IF currHF < s0 + s1 THEN 1 ELSE 2 IN
    /\ s0 > 0
    /\ (s1 = 0 => s2 = 0)
    /\ currHF < numHops                 \* the hop pointer designates a hop field of the path
    /\ currINF = infOf                  \* the info pointer designates the segment of that hop field
ScionPathBytes(s0, s1, s2) ==
    LET numINF == IF s0 = 0 THEN 0 ELSE IF s1 = 0 THEN 1 ELSE IF s2 = 0 THEN 2 ELSE 3 IN
    4 + 8 * numINF + 12 * (s0 + s1 + s2)

(* a SCION path starts at offset o, fits into the n bytes the header length leaves for it, and its
   pointers are consistent.  (The weaker reading of "header length consistent": the decoders of
   pkg/slayers accept a header length that leaves slack after the path, so does this predicate;
   the exact equality is reported as drift only, see PathExact.) *)
ScionPathOK(b, o, n) ==
    /\ n >= 4
    /\ LET s0 == MetaSeg(b, o, 0)
           s1 == MetaSeg(b, o, 1)
           s2 == MetaSeg(b, o, 2) IN
       /\ MetaConsistent(MetaCurrINF(b, o), MetaCurrHF(b, o), s0, s1, s2)
       /\ n >= ScionPathBytes(s0, s1, s2)

PathOK(b) ==
    LET t == PathType(b)
        o == PathOff(b)
        n == PathLen(b) IN
    CASE t = PathEmpty -> n >= 0
      [] t = PathSCION -> ScionPathOK(b, o, n)
      [] t = PathOneHop -> n >= 32
      [] t = PathEPIC -> n >= 16 /\ ScionPathOK(b, o + 16, n - 16)
      [] OTHER -> FALSE

(* for a packet with PathOK: the header length is exactly the end of the path *)
PathExact(b) ==
    LET t == PathType(b)
        o == PathOff(b)
        n == PathLen(b) IN
    CASE t = PathEmpty -> n = 0
      [] t = PathSCION -> n = ScionPathBytes(MetaSeg(b, o, 0), MetaSeg(b, o, 1), MetaSeg(b, o, 2))
      [] t = PathOneHop -> n = 32
      [] t = PathEPIC -> n = 16 + ScionPathBytes(MetaSeg(b, o + 16, 0), MetaSeg(b, o + 16, 1), MetaSeg(b, o + 16, 2))
      [] OTHER -> FALSE

(* extension headers (hop-by-hop, end-to-end): NextHdr(1) ExtLen(1) ...; real length (ExtLen+1)*4.
   The first two extension headers, if present, lie inside the payload. *)
ExtEnd(b, len, off) == off + (At(b, off + 1) + 1) * 4
IsExt(h) == h = HopByHopClass \/ h = End2EndClass
ExtOK(b, len) ==
    LET o1 == HdrBytes(b) IN
    IF ~IsExt(NextHdr(b)) THEN TRUE
    ELSE /\ o1 + 2 <= len
         /\ ExtEnd(b, len, o1) <= len
         /\ LET h2 == At(b, o1)
                o2 == ExtEnd(b, len, o1) IN
            IF ~IsExt(h2) THEN TRUE
            ELSE o2 + 2 <= len /\ ExtEnd(b, len, o2) <= len

(* how many bytes of the packet the evaluation of WellFormed needs *)
Needed(b, len) ==
    IF len < CmnHdrLen \/ Len(b) < CmnHdrLen THEN CmnHdrLen
    ELSE LET h == HdrBytes(b) IN
         IF h > len THEN CmnHdrLen
         ELSE IF ~IsExt(NextHdr(b)) THEN h
         ELSE IF Len(b) < h + 2 THEN h + 2
         ELSE IF ~IsExt(At(b, h)) \/ ExtEnd(b, len, h) > len THEN h + 2
         ELSE ExtEnd(b, len, h) + 2

(* the reason a packet is not well formed ("" if it is) *)
WhyNot(b, len) ==
    IF len < CmnHdrLen THEN "shorter-than-common-header"
    ELSE IF HdrBytes(b) > len THEN "header-length-beyond-packet"
    ELSE IF PathOff(b) > HdrBytes(b) THEN "header-length-shorter-than-address-header"
    ELSE IF PayloadLen(b) # len - HdrBytes(b) THEN "payload-length"
    ELSE IF ~PathOK(b) THEN "path-pointers-or-path-length:type=" \o ToString(PathType(b))
    ELSE IF ~ExtOK(b, len) THEN "extension-header-beyond-payload"
    ELSE ""

WellFormed(b, len) == WhyNot(b, len) = ""

-----------------------------------------------------------------------------
(* STUN (RFC 8489) message emitted on the internal link: type(2) length(2) magic cookie(4) txid(12) *)
StunWhyNot(b, len) ==
    IF len < 20 THEN "stun:shorter-than-header"
    ELSE IF At(b, 0) \div 64 # 0 THEN "stun:first-two-bits"
    ELSE IF <<At(b, 4), At(b, 5), At(b, 6), At(b, 7)>> # <<33, 18, 164, 66>> THEN "stun:magic-cookie"   \* 0x2112A442
    ELSE IF U16(b, 2) # len - 20 THEN "stun:message-length"
    ELSE IF U16(b, 2) % 4 # 0 THEN "stun:length-not-multiple-of-4"
    ELSE ""
=============================================================================
