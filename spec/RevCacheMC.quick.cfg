SPECIFICATION Spec
CONSTANTS
  Keys = {1, 2}
  MaxTs = 3
  MaxTtl = 3
  MaxNow = 5
INVARIANTS SameOutcome Refines NeverExpired
PROPERTIES NewestKept
CHECK_DEADLOCK FALSE
