------------------------------ MODULE RouterWire ------------------------------
(* C08 -- the byte-level well-formedness predicate of RouterWireOps, checked exhaustively against
   the field-level definition on a bounded space of abstract headers.

   A header is chosen field by field (address lengths, path type, segment lengths, both path
   pointers, extension headers, plus deliberate inconsistencies: HdrLen off by -1/+1 words,
   PayloadLen off by -1/+1, an extension header longer than the payload), encoded to bytes by
   Encode, and RouterWireOps!WellFormed must hold on the bytes exactly when the fields are
   consistent (Valid).  The outcome relation of the router on one input is
        ProcessBytes(link, bytes) \in { Discard, Forward(out), Reply(out) }  with WellFormed(out);
   there is no Crash outcome: RouterWireTrace.tla has no action for a panic event.               *)
EXTENDS RouterWireOps, FiniteSets

CONSTANTS MaxSeg,       \* largest segment length explored
          AddrCodes     \* DL / SL codes explored (0..3)

VARIABLES phase, h
vars == <<phase, h>>

Zeros(n) == [i \in 1..n |-> 0]

NumINF(s0, s1, s2) == IF s0 = 0 THEN 0 ELSE IF s1 = 0 THEN 1 ELSE IF s2 = 0 THEN 2 ELSE 3
(* what an encoder writes for the segment lengths, whatever their consistency *)
EncNumINF(s0, s1, s2) == (IF s0 > 0 THEN 1 ELSE 0) + (IF s1 > 0 THEN 1 ELSE 0) + (IF s2 > 0 THEN 1 ELSE 0)

MetaBytes(ci, ch, s0, s1, s2) ==
    <<ci * 64 + ch, s0 \div 16, (s0 % 16) * 16 + s1 \div 4, (s1 % 4) * 64 + s2>>

ScionBytes(x) == MetaBytes(x.ci, x.ch, x.s0, x.s1, x.s2)
                 \o Zeros(8 * EncNumINF(x.s0, x.s1, x.s2) + 12 * (x.s0 + x.s1 + x.s2))

PathBytes(x) == CASE x.pt = PathEmpty -> <<>>
                  [] x.pt = PathSCION -> ScionBytes(x)
                  [] x.pt = PathOneHop -> Zeros(32)
                  [] x.pt = PathEPIC -> Zeros(16) \o ScionBytes(x)
                  [] OTHER -> Zeros(8)

(* extension headers: "none", "hbh" (8 bytes), "hbh+e2e" (8 + 12 bytes), "long" (claims 64 bytes, has 8) *)
ExtBytes(x) == CASE x.ext = "none" -> <<>>
                 [] x.ext = "hbh" -> <<17, 1>> \o Zeros(6)
                 [] x.ext = "hbh+e2e" -> <<End2EndClass, 1>> \o Zeros(6) \o <<17, 2>> \o Zeros(10)
                 [] x.ext = "long" -> <<17, 15>> \o Zeros(6)
                 [] x.ext = "e2e-long" -> <<End2EndClass, 0>> \o Zeros(2) \o <<17, 9>> \o Zeros(2)

(* dh = 1: four bytes of slack between the path and the payload, counted by HdrLen;
   dh = -1: HdrLen one word short (the last path word is counted as payload) *)
Encode(x) ==
    LET path == PathBytes(x) \o (IF x.dh = 1 THEN Zeros(4) ELSE <<>>)
        hdr == CmnHdrLen + 16 + (x.dl + 1) * 4 + (x.sl + 1) * 4 + Len(path)
        pay == ExtBytes(x) \o Zeros(8)
        hl == hdr \div 4 + (IF x.dh = -1 THEN -1 ELSE 0)
        pl == Len(pay) + hdr - hl * 4 + x.dp IN
    <<0, 0, 0, 0, IF x.ext = "none" THEN 17 ELSE HopByHopClass, hl, (pl \div 256) % 256, pl % 256,
      x.pt, x.dl * 16 + x.sl, 0, 0>>
    \o Zeros(16 + (x.dl + 1) * 4 + (x.sl + 1) * 4) \o path \o pay

Valid(x) == /\ x.dh >= 0 /\ x.dp = 0      \* (a header length with slack after the path is tolerated)
            /\ x.pt \in {PathEmpty, PathSCION, PathOneHop, PathEPIC}
            /\ (x.pt \in {PathSCION, PathEPIC} => MetaConsistent(x.ci, x.ch, x.s0, x.s1, x.s2))
            /\ x.ext \notin {"long", "e2e-long"}

Headers == [dl : AddrCodes, sl : AddrCodes, pt : 0..4, s0 : 0..MaxSeg, s1 : 0..MaxSeg, s2 : 0..MaxSeg,
            ci : 0..3, ch : 0..(3 * MaxSeg), dh : {-1, 0, 1}, dp : {-1, 0, 1},
            ext : {"none", "hbh", "hbh+e2e", "long", "e2e-long"}]

None == [dl |-> 0, sl |-> 0, pt |-> 0, s0 |-> 0, s1 |-> 0, s2 |-> 0, ci |-> 0, ch |-> 0, dh |-> 0,
         dp |-> 0, ext |-> "none"]

Init == phase = "pick" /\ h = None
(* the choice is an action, not Init, so that TLC's workers share it *)
Pick == /\ phase = "pick"
        /\ \E dl \in AddrCodes, sl \in AddrCodes, pt \in 0..4 :
           \E s0 \in 0..MaxSeg, s1 \in 0..MaxSeg, s2 \in 0..MaxSeg :
           \E ci \in 0..3, ch \in 0..(3 * MaxSeg), dh \in {-1, 0, 1}, dp \in {-1, 0, 1} :
           \E ext \in {"none", "hbh", "hbh+e2e", "long", "e2e-long"} :
              /\ (pt \notin {PathSCION, PathEPIC} => s0 = 0 /\ s1 = 0 /\ s2 = 0 /\ ci = 0 /\ ch = 0)
              /\ h' = [dl |-> dl, sl |-> sl, pt |-> pt, s0 |-> s0, s1 |-> s1, s2 |-> s2, ci |-> ci,
                       ch |-> ch, dh |-> dh, dp |-> dp, ext |-> ext]
        /\ phase' = "judge"
Next == Pick
Spec == Init /\ [][Next]_vars

(* the byte-level predicate decides exactly the field-level consistency *)
Agreement == phase = "judge" =>
               LET b == Encode(h) IN (WellFormed(b, Len(b)) <=> Valid(h))
(* a well-formed packet is judged from its recorded prefix *)
Exactness == phase = "judge" => LET b == Encode(h) IN (Valid(h) => (PathExact(b) <=> h.dh = 0))
NeededInside == phase = "judge" => LET b == Encode(h) IN (Valid(h) => Needed(b, Len(b)) <= Len(b))
=============================================================================
