SPECIFICATION Spec
CONSTANTS
  TimelineIds = {2, 4, 6, 7}
INVARIANTS Sound Emit
CHECK_DEADLOCK FALSE
