SPECIFICATION Spec
CONSTANTS
  MaxLen = 2
  ExtraLen = 3
  NCfg = 4
  LocalInLoopCheck = FALSE
  Gen = FALSE
INVARIANTS SentNoLoop
CHECK_DEADLOCK FALSE
