SPECIFICATION Spec
CONSTANTS
  Kind = "b"
  MaxOps = 3
  Gen = TRUE
  Alphabet = "small"
INVARIANTS IsMap QuerySound CandidatesSound NQUnique
PROPERTIES StepProps
CHECK_DEADLOCK FALSE
