SPECIFICATION Spec
CONSTANTS
  Steps = {"key", "internal", "ext", "hop", "svc", "range"}
  OtherProv = {"hop"}
  SwapSites = {"nexthop"}
  Propagate = "full"
  Emit = FALSE
INVARIANTS BufferSizesReach RangeInForce AllOpened
CHECK_DEADLOCK FALSE
