-------------------------- MODULE TRCPayloadTrace --------------------------
(* Trace specification for C33.  Every "case" line is an independent observation of the real code
   on one payload p (abstract form, certificates as indices into the pool of the last reset line):
     val   1 iff TRC.Validate() returned nil on the concretised payload
     wire  1 iff DecodeTRC accepted the payload marshalled by the driver's own ASN.1 encoder
           (the only way to put an invalid payload on the wire), 0 if it refused, -1 not attempted
     rt    "ok": TRC.Encode and DecodeTRC of the result succeeded and q is the abstract form of the
           decoded TRC; "encerr"/"decerr": Validate accepted but Encode / DecodeTRC failed; "na"
   Monitor (only-if):  val = 1 => PayloadValid(p);  wire = 1 => PayloadValid(p);
                       a valid, accepted payload round-trips to itself.                        *)
EXTENDS TRCOps, TLC, Json

Trace == ndJsonDeserialize("trace.ndjson")

VARIABLES l, pool, nacc, nvalid, nrt, nder
vars == <<l, pool, nacc, nvalid, nrt, nder>>
R == Trace[l]

Expand(p) == [p EXCEPT !.certs = [i \in 1..Len(p.certs) |-> IF p.certs[i] >= 1 /\ p.certs[i] <= Len(pool)
                                                         THEN pool[p.certs[i]]
                                                         ELSE [cls |-> "foreign", subj |-> -1, iss |-> -1, sn |-> -1,
                                                               isd |-> -1, nb |-> 0, na |-> 0, ver |-> 0]]]

Init == l = 1 /\ pool = <<>> /\ nacc = 0 /\ nvalid = 0 /\ nrt = 0 /\ nder = 0

Bad(key) == PrintT(<<"VERIF-BAD", l, key>>)

Case ==
    LET P == Expand(R.p)
        valid == PayloadValid(P) IN
    /\ (R.val = 1 /\ ~valid) => Bad("validate-accepts:" \o Rule(P))
    /\ (R.wire = 1 /\ ~valid) => Bad("decode-accepts:" \o Rule(P))
    /\ (valid /\ R.val = 1 /\ R.rt \in {"encerr", "decerr"}) => Bad("roundtrip:" \o R.rt)
    /\ (valid /\ R.rt = "ok" /\ DiffField(R.p, R.q) # "") => Bad("roundtrip-differs:" \o DiffField(R.p, R.q))
    /\ (valid /\ R.val = 0) => PrintT(<<"VERIF-DRIFT", l, "valid-payload-refused">>)
    /\ nacc' = nacc + (IF R.val = 1 THEN 1 ELSE 0)
    /\ nvalid' = nvalid + (IF valid THEN 1 ELSE 0)
    /\ nrt' = nrt + (IF R.rt = "ok" THEN 1 ELSE 0)
    /\ UNCHANGED <<pool, nder>>

(* decoder direction: a structure-aware mutation (mut) of the DER encoding of the valid payload p was
   handed to DecodeTRC; acc = 1: accepted, q = abstract form of what was decoded, rt/q2 = result of
   Encode + DecodeTRC of the decoded value, same = 1 iff that re-encoding equals the input bytes.
   Monitor: accepted => PayloadValid(q), and the decoded (valid) TRC round-trips to itself.
   Acceptance of a non-canonical encoding (same = 0) is drift only.                              *)
Der ==
    LET Q == Expand(R.q) IN
    /\ (R.acc = 1 /\ ~PayloadValid(Q)) => Bad("der-decode-accepts:" \o Rule(Q))
    /\ (R.acc = 1 /\ PayloadValid(Q) /\ R.rt \in {"encerr", "decerr"}) => Bad("der-roundtrip:" \o R.rt)
    /\ (R.acc = 1 /\ PayloadValid(Q) /\ R.rt = "ok" /\ DiffField(R.q, R.q2) # "")
          => Bad("der-roundtrip-differs:" \o DiffField(R.q, R.q2))
    \* qsub / q2sub: the validity of the decoded value has a part below the time grid (sub-second)
    /\ (R.acc = 1 /\ PayloadValid(Q) /\ R.rt = "ok" /\ DiffField(R.q, R.q2) = "" /\ R.qsub # R.q2sub)
          => Bad("der-roundtrip-differs:validity-sub-second-part")
    /\ (R.acc = 1 /\ R.same = 0) => PrintT(<<"VERIF-DRIFT", l, "non-canonical-encoding-accepted:" \o R.mut>>)
    /\ nder' = nder + R.acc
    /\ UNCHANGED <<pool, nacc, nvalid, nrt>>

Step == /\ l <= Len(Trace)
        /\ l' = l + 1
        /\ CASE R.ev = "reset" -> pool' = R.pool /\ UNCHANGED <<nacc, nvalid, nrt, nder>>
             [] R.ev = "case" -> Case
             [] R.ev = "der" -> Der
             [] OTHER -> Bad("no-spec-action:" \o R.ev) /\ UNCHANGED <<pool, nacc, nvalid, nrt, nder>>

Done == /\ l = Len(Trace) + 1
        /\ PrintT(<<"VERIF-STAT", "accepted", nacc>>)
        /\ PrintT(<<"VERIF-STAT", "valid", nvalid>>)
        /\ PrintT(<<"VERIF-STAT", "roundtrips", nrt>>)
        /\ PrintT(<<"VERIF-STAT", "der_accepted", nder>>)
        /\ PrintT(<<"VERIF-DONE", Len(Trace)>>)
        /\ UNCHANGED vars

Next == Step \/ Done
Spec == Init /\ [][Next]_vars
=============================================================================
