SPECIFICATION Spec
CONSTANTS
  CoreCfg = "one"
  MaxStore = 4
  MaxDead = 1
  MaxRev = 0
  Contract = FALSE
  MaxBad = 1
  MaxExtra = 1
INVARIANTS Sound LocalEmpty Sufficient OnlyVerified
CHECK_DEADLOCK FALSE
