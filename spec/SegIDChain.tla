--------------------------- MODULE SegIDChain ---------------------------
(* C22 sub-model: one segment of n hop fields with symbolic MACs, every length n <= MaxN, both
   traversal directions, every entry/exit point (full segment, shortcut at i, peering at i), every
   hop position.  The accumulator is a set of hop indices: B(k) = {0} \cup 1..k-1 stands for
   SegID_0 xor sigma_1 xor ... xor sigma_{k-1}; XOR of independent MAC prefixes is symmetric
   difference, so the verdict holds for all MAC values.

   Three rule sets, written independently:
     construction  bc(k)  : regular hop k is MACed over B(k), the peer entries of AS k over B(k+1)
     combination   Init0  : initial SegID of the info field (down: B(j), peering B(j+1);
                            up/core: B(n), peering at the last entry B(n+1))
     forwarding    Ingress/Egress : against construction direction the ingress router of an AS
                            folds the current hop's sigma in before validating (not for packets
                            from inside the AS, not on a peering hop); in construction direction the
                            egress router folds it in after validating (not on a peering hop).
   Invariant InSync: whenever a router validates hop k, the accumulator in force equals bc(k).   *)
EXTENDS Integers, FiniteSets

CONSTANT MaxN

VARIABLES n,      \* segment length (hop fields = AS entries)
          cons,   \* traversal in construction direction (down segment) or against it (up / core)
          cut,    \* first (cons) / last (~cons) entry used: 1 = full segment, else shortcut or peering
          peer,   \* the hop at `cut` is a peer entry (peering link) instead of the regular hop
          k,      \* entry whose AS the packet is in
          phase,  \* "ingress" (about to validate at the ingress side) | "egress" | "done"
          sid     \* accumulator in the info field
vars == <<n, cons, cut, peer, k, phase, sid>>

SymDiff(a, b) == (a \ b) \cup (b \ a)
B(i) == 0..(i - 1)
Sigma(i) == {i}
IsPeerHop == peer /\ k = cut
bc == IF IsPeerHop THEN B(k + 1) ELSE B(k)            \* construction-time accumulator of the hop in use

Init == /\ n \in 1..MaxN /\ cons \in BOOLEAN /\ peer \in BOOLEAN
        /\ cut \in 1..MaxN /\ cut <= n
        \* peer /\ cut = 1: the peer entry of the segment's first AS entry (a core AS with a peering link)
        /\ (~peer => n >= 2 /\ (cons => cut < n) /\ (~cons => cut < n))  \* at least two hops unless peering
        /\ k = (IF cons THEN cut ELSE n)
        /\ phase = "ingress"
        /\ sid = (IF cons THEN (IF peer THEN B(cut + 1) ELSE B(cut))
                  ELSE (IF peer /\ cut = n THEN B(n + 1) ELSE B(n)))

\* the AS of entry k is entered from outside unless it is the first AS of the traversal
FromOutside == IF cons THEN k # cut ELSE k # n
LastAS == IF cons THEN k = n ELSE k = cut

Ingress == /\ phase = "ingress"
           /\ sid' = IF ~cons /\ FromOutside /\ ~IsPeerHop THEN SymDiff(sid, Sigma(k)) ELSE sid
           /\ phase' = "egress"
           /\ UNCHANGED <<n, cons, cut, peer, k>>

Egress == /\ phase = "egress"
          /\ IF LastAS THEN phase' = "done" /\ UNCHANGED <<k, sid>>
             ELSE /\ sid' = IF cons /\ ~IsPeerHop THEN SymDiff(sid, Sigma(k)) ELSE sid
                  /\ k' = IF cons THEN k + 1 ELSE k - 1
                  /\ phase' = "ingress"
          /\ UNCHANGED <<n, cons, cut, peer>>

Next == Ingress \/ Egress
Spec == Init /\ [][Next]_vars

\* validation happens after the ingress-side update
InSync == phase = "egress" => sid = bc
TypeOK == k \in 1..n /\ cut \in 1..n
=============================================================================
