---------------------------- MODULE DRKeyDerive ----------------------------
(* C39 — DRKey derivation: consistency, domain separation and epoch selection.

   (1) Derivation inputs, byte by byte on a scaled-down layout (block = 8 cells instead of 16 bytes,
       IPv4 / service addresses 2 cells, IPv6 addresses 4 cells, cells over a small alphabet that
       contains the values that matter: 0 = padding and IPv4 address type, 3 = IPv6 address type and
       the host-host key type, 4 = service address type, 1/2 = AS-host / host-AS key types):

         specific level 2 :  type | addrtype | address | zero padding to the block
         generic  level 2 :  type | proto hi | proto lo | addrtype | address | zero padding
         host-host        :  3    | addrtype | address | zero padding

       together with the *upper key* the input is MAC'ed under (level-1 key of the protocol's own
       secret value for predefined protocols, level-1 key of the generic protocol otherwise; the
       host-AS key for host-host).  Separation: two derivations that differ in key type, protocol
       or host address never have the same (upper key, input) pair.  TLC enumerates all pairs.
       AllowGenericL2 = TRUE additionally lets the *specific* level-2 derivation run for protocol 0
       (which the service refuses, C40): then TLC finds the collision with a generic derivation of a
       non-predefined protocol — shown by checks/C39.py as a model-only counterexample.
   (2) Consistency: the service's choice (obtainLevel1Key / deriver selection in
       control/drkey/service_engine.go) equals the documented one for every protocol.
   (3) Epoch selection shaped like FakeProvider.GetKeyWithinAcceptanceWindow (current, previous,
       next): a selected key satisfies DRKeyOps!MaySelect; all (now, ts) on a grid.               *)
EXTENDS DRKeyOps, FiniteSets

CONSTANTS AllowGenericL2,   \* BOOLEAN
          Cells,            \* alphabet of address / protocol cells, e.g. {0, 3}
          D, W, G           \* epoch length, acceptance window, grace period (time units)

Block == 8
KeyTypes == {1, 2}                  \* AsHost, HostAS
AddrTypes == {0, 3, 4}              \* IPv4, IPv6, service
AddrLen(at) == IF at = 3 THEN 4 ELSE 2
Addrs(at) == IF at = 4 THEN {<<c, 0>> : c \in Cells}        \* service: value | zero
             ELSE [1..AddrLen(at) -> Cells]
PCells == {<<h, l>> : h \in Cells, l \in Cells}             \* two cells; <<0,0>> generic, <<0,1>> n/a
IsPredef(p) == p = <<0, 0>> \/ p = <<0, 1>>

Pad(s) == s \o [i \in 1..((Block - (Len(s) % Block)) % Block) |-> 0]

SpecificIn(kt, at, a)    == Pad(<<kt, at>> \o a)
GenericIn(kt, p, at, a)  == Pad(<<kt>> \o p \o <<at>> \o a)
HostHostIn(at, a)        == Pad(<<3, at>> \o a)

\* a level-2 derivation request: key type, protocol, address
Reqs == {[kt |-> kt, p |-> p, at |-> at, a |-> a] :
            kt \in KeyTypes, p \in PCells, at \in AddrTypes, a \in UNION {Addrs(t) : t \in AddrTypes}}
Valid(r) == r.a \in Addrs(r.at) /\ (AllowGenericL2 \/ r.p # <<0, 0>>)

\* as the service engine does it
UpperKey(r) == IF IsPredef(r.p) THEN <<"l1", r.p>> ELSE <<"l1", <<0, 0>>>>
Input(r)    == IF IsPredef(r.p) THEN SpecificIn(r.kt, r.at, r.a) ELSE GenericIn(r.kt, r.p, r.at, r.a)

VARIABLES pc, r1, r2, now, ts, sel
vars == <<pc, r1, r2, now, ts, sel>>
None == [kt |-> 0, p |-> <<0, 0>>, at |-> 0, a |-> <<>>]

Init == pc = "start" /\ r1 = None /\ r2 = None /\ now = 0 /\ ts = 0 /\ sel = -2

Pick1 == /\ pc = "start" /\ \E r \in Reqs : Valid(r) /\ r1' = r
         /\ pc' = "one" /\ UNCHANGED <<r2, now, ts, sel>>
Pick2 == /\ pc = "one" /\ \E r \in Reqs : Valid(r) /\ r2' = r
         /\ pc' = "two" /\ UNCHANGED <<r1, now, ts, sel>>

\* epoch selection: epochs are [k*D, (k+1)*D]; the code looks at previous, current and next epoch
EpochOf(t) == t \div D
Try(k) == k >= 0 /\ MaySelect(k * D, (k + 1) * D, G, now', W, ts')
Select == /\ pc = "start"
          /\ \E n \in D..(3 * D), t \in 0..(3 * D) : now' = n /\ ts' = t
          /\ LET c == EpochOf(now') IN
             sel' = IF Try(c) THEN c ELSE IF Try(c - 1) THEN c - 1 ELSE IF Try(c + 1) THEN c + 1 ELSE -1
          /\ pc' = "selected" /\ UNCHANGED <<r1, r2>>

Next == Pick1 \/ Pick2 \/ Select
Spec == Init /\ [][Next]_vars

-----------------------------------------------------------------------------
\* (1) domain separation
Separated == pc = "two" /\ r1 # r2 => <<UpperKey(r1), Input(r1)>> # <<UpperKey(r2), Input(r2)>>
\* host-host inputs are separated by address (under one host-AS key)
HostHostSeparated ==
    \A t1, t2 \in AddrTypes : \A a1 \in Addrs(t1), a2 \in Addrs(t2) :
        <<t1, a1>> # <<t2, a2>> => HostHostIn(t1, a1) # HostHostIn(t2, a2)
\* (3) a selected epoch contains the timestamp's absolute time (plus grace) inside the window
SelectedIsValid == (pc = "selected" /\ sel >= 0) =>
                      MaySelect(sel * D, (sel + 1) * D, G, now, W, ts)
\* the code never misses an epoch that would do (not required by the property; kept as a sanity check)
SelectedIfAny == (pc = "selected" /\ sel = -1) =>
                      \A k \in {EpochOf(now) - 1, EpochOf(now), EpochOf(now) + 1} :
                          k >= 0 => ~MaySelect(k * D, (k + 1) * D, G, now, W, ts)
=============================================================================
