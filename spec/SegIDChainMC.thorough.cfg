SPECIFICATION Spec
CONSTANT MaxN = 64
INVARIANTS InSync TypeOK
CHECK_DEADLOCK FALSE
