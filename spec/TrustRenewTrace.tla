--------------------------- MODULE TrustRenewTrace ---------------------------
(* Trace specification for C37.  Table property: every line is an independent observation.
     reset  {pool}
     renew  {tl, chain, sis, csr, ok, retia}: RequestVerifier.VerifyCMSSignedRenewalRequest over a trust DB
            holding the TRCs of time line tl, at now = 0; ok = 1 iff it returned a CSR (subject ISD-AS retia)
            srv, sia, skey, sca, scover: the same request through RenewalServer.ChainRenewal (see Renew)
     legacy {ok}: a ChainRenewalRequest without CMS envelope handed to the handler
     issue  {t, d, canb, cana, ok, asnb, asna, keyok, subjok, typeok, sigok, len}: CAPolicy.CreateChain at
            CurrentTime t with validity d under a CA certificate valid [canb, cana]
   Monitor (only-if): ok => RenewRule = "";  issued => IssueRule = "".                             *)
EXTENDS TrustStoreOps, TLC, Json

Trace == ndJsonDeserialize("trace.ndjson")

VARIABLES l, pool, nacc, ngrace, nissued, nsrv
vars == <<l, pool, nacc, ngrace, nissued, nsrv>>
R == Trace[l]
Certs == [i \in 1..Len(pool) |-> pool[i]]

Init == l = 1 /\ pool = <<>> /\ nacc = 0 /\ ngrace = 0 /\ nissued = 0 /\ nsrv = 0
Bad(key) == PrintT(<<"VERIF-BAD", l, key>>)

Renew ==
    LET tl == R.tl
        latest == IF tl.two THEN [serial |-> 2, base |-> 1, nb |-> tl.nb2, na |-> tl.na2, grace |-> tl.grace, roots |-> {2}]
                  ELSE [serial |-> 1, base |-> 1, nb |-> tl.nb1, na |-> tl.na1, grace |-> 0, roots |-> {1}]
        pred == [serial |-> 1, base |-> 1, nb |-> tl.nb1, na |-> tl.na1, grace |-> 0, roots |-> {1}]
        known == \A i \in 1..Len(R.chain) : R.chain[i] >= 1 /\ R.chain[i] <= Len(pool)
        req == [chain |-> R.chain, sis |-> R.sis, csr |-> R.csr]
        rule == IF ~known THEN "unknown-certificate" ELSE RenewRule(Certs, req, latest, pred, tl.two, 0)
        viaPred == rule = "" /\ ~ChainOK(Certs, NormChain(Certs, R.chain), latest, 0) IN
    /\ (R.ok = 1 /\ rule # "") => Bad("renewal-accepted:" \o rule)
    /\ (R.ok = 1 /\ rule = "" /\ R.retia # R.csr.ia) => Bad("renewal-returns-other-request")
    /\ (R.ok = 0 /\ rule = "" /\ ValidAt(Certs[NormChain(Certs, R.chain)[1]], 0)) => PrintT(<<"VERIF-DRIFT", l, "good-request-refused">>)
    /\ nacc' = nacc + (IF R.ok = 1 /\ rule = "" THEN 1 ELSE 0)
    /\ ngrace' = ngrace + (IF R.ok = 1 /\ viaPred THEN 1 ELSE 0)
    \* the same request through RenewalServer.ChainRenewal (gRPC handler layer, real verifier and CA policy):
    \* srv = 1 iff a chain was issued; sia / skey / sca / scover describe the issued chain
    /\ (R.srv = 1 /\ rule # "") => Bad("renewal-handler-issues:" \o rule)
    /\ (R.srv = 1 /\ rule = "" /\ R.sia # R.csr.ia) => Bad("renewal-handler-issued:other-subject")
    /\ (R.srv = 1 /\ rule = "" /\ R.skey = 0) => Bad("renewal-handler-issued:other-key")
    /\ (R.srv = 1 /\ rule = "" /\ R.sca = 0) => Bad("renewal-handler-issued:not-a-chain-of-the-ca")
    /\ (R.srv = 1 /\ rule = "" /\ R.scover = 0) => Bad("renewal-handler-issued:outlives-ca-certificate")
    /\ (R.srv # R.ok) => PrintT(<<"VERIF-DRIFT", l, "handler-and-verifier-disagree">>)
    /\ nsrv' = nsrv + (IF R.srv = 1 /\ rule = "" THEN 1 ELSE 0)
    /\ UNCHANGED nissued

Issue ==
    LET rule == IF R.len # 2 THEN "not-a-valid-chain" ELSE IssueRule([nb |-> R.canb, na |-> R.cana], R) IN
    /\ (R.ok = 1 /\ rule # "") => Bad("issued:" \o rule)
    /\ (R.ok = 1 /\ rule = "" /\ <<R.asnb, R.asna>> # <<R.t, R.t + R.d>>) => PrintT(<<"VERIF-DRIFT", l, "issued-validity-not-as-requested">>)
    /\ (R.ok = 0 /\ R.canb <= R.t /\ R.t + R.d <= R.cana) => PrintT(<<"VERIF-DRIFT", l, "coverable-request-refused">>)
    /\ nissued' = nissued + (IF R.ok = 1 /\ rule = "" THEN 1 ELSE 0)
    /\ UNCHANGED <<nacc, ngrace, nsrv>>

Step == /\ l <= Len(Trace)
        /\ l' = l + 1
        /\ CASE R.ev = "reset" -> pool' = R.pool /\ UNCHANGED <<nacc, ngrace, nissued, nsrv>>
             [] R.ev = "legacy" -> /\ (R.ok = 1 => Bad("renewal-handler-accepts-request-without-cms"))
                                   /\ UNCHANGED <<pool, nacc, ngrace, nissued, nsrv>>
             [] R.ev = "renew" -> Renew /\ UNCHANGED pool
             [] R.ev = "issue" -> Issue /\ UNCHANGED pool
             [] OTHER -> Bad("no-spec-action:" \o R.ev) /\ UNCHANGED <<pool, nacc, ngrace, nissued, nsrv>>

Done == /\ l = Len(Trace) + 1
        /\ PrintT(<<"VERIF-STAT", "accepted", nacc>>)
        /\ PrintT(<<"VERIF-STAT", "accepted_via_grace", ngrace>>)
        /\ PrintT(<<"VERIF-STAT", "issued", nissued>>)
        /\ PrintT(<<"VERIF-STAT", "issued_by_handler", nsrv>>)
        /\ PrintT(<<"VERIF-DONE", Len(Trace)>>)
        /\ UNCHANGED vars

Next == Step \/ Done
Spec == Init /\ [][Next]_vars
=============================================================================
