----------------------------- MODULE Combinator -----------------------------
(* Exhaustive design-level model for C28 / C29 (private/path/combinator).

   Two descriptions of the same function are explored side by side over ALL segment sets that
   beaconing can register on a small topology (with shortcuts, an on-path destination, peering
   between non-core ASes and at a leaf, two beaconing runs with different expiry settings):

     * the DEFINITION (CombinatorOps!PathChoices / PathOf): choose <= 1 up, <= 1 core, <= 1 down
       piece, join at a common AS or a peering link announced by both;
     * the CODE-SHAPED pipeline, one action per phase of Combine():
         NewDMG      graph.go newDMG/traverseSegment: vertices (AS | peering link), edges annotated
                     with (segment, Shortcut, Peer, Weight)
         GetPaths    breadth-first enumeration with validNextSeg, stopping at the destination, sorted
         Filter      filterLongPaths, filterDuplicates (keep the latest expiring, first wins on ties)

   Invariants: the two agree (completeness, C29); every path the definition yields is a walk over
   real links of the topology from src to dst whose hop fields verify hop by hop under the SegID
   accumulator rules of the router (well-formedness, C28); the final list is sorted by weight, free
   of duplicate interface sequences and keeps the latest expiring representative (C28).          *)
EXTENDS CombinatorOps, SequencesExt, TLC

CONSTANTS TopoId,     \* which built-in topology
          Runs,       \* set of beaconing runs (each has its own timestamp / expiry settings)
          MaxSegs,    \* at most this many up, core and down segments are supplied
          MaxLen,     \* longest beacon (AS entries)
          HopLimit,   \* most hop fields a path header holds (64 in SCION; small here so that it bites)
          SegLimit    \* most hop fields per segment (63 in SCION)

-----------------------------------------------------------------------------
(* Topologies.  Link: [a, aif, b, bif, t, mtu]; for t = "child" a is the parent of b. *)
L(a, aif, b, bif, t, mtu) == [a |-> a, aif |-> aif, b |-> b, bif |-> bif, t |-> t, mtu |-> mtu]

\* T1: two core ASes; d has two parents (a, b) below c1; f is a sibling of d below a (shortcut at a,
\* on-path a); e hangs below c2 and peers with a (peering at the leaf e) and with d (leaf-leaf).
T1 == [core |-> {"c1", "c2"},
       mtu |-> [x \in {"c1", "c2", "a", "b", "d", "e", "f"} |->
                  CASE x = "c1" -> 1500 [] x = "c2" -> 1472 [] x = "a" -> 1400 [] x = "b" -> 1450
                    [] x = "d" -> 1480 [] x = "e" -> 1300 [] x = "f" -> 1460],
       links |-> {L("c1", 1, "c2", 1, "core", 1490), L("c1", 2, "a", 1, "child", 1420),
                  L("c1", 3, "b", 1, "child", 1440), L("a", 2, "d", 1, "child", 1410),
                  L("b", 2, "d", 2, "child", 1380), L("a", 5, "f", 1, "child", 1390),
                  L("c2", 2, "e", 1, "child", 1350), L("a", 3, "e", 2, "peer", 1330),
                  L("d", 3, "e", 3, "peer", 1320)}]

\* T2: three core ASes in a triangle (two core routes between any two), parallel parent links,
\* peering between a core AS and a non-core AS
T2 == [core |-> {"c1", "c2", "c3"},
       mtu |-> [x \in {"c1", "c2", "c3", "a", "b"} |->
                  CASE x = "c1" -> 1500 [] x = "c2" -> 1472 [] x = "c3" -> 1466 [] x = "a" -> 1400 [] x = "b" -> 1450],
       links |-> {L("c1", 1, "c2", 1, "core", 1490), L("c2", 2, "c3", 1, "core", 1480),
                  L("c1", 2, "c3", 2, "core", 1470), L("c1", 3, "a", 1, "child", 1420),
                  L("c1", 4, "a", 2, "child", 1430), L("c3", 3, "b", 1, "child", 1440),
                  L("c2", 3, "b", 2, "child", 1410), L("a", 3, "b", 3, "peer", 1330),
                  L("c2", 4, "a", 4, "peer", 1340)}]

Topo == CASE TopoId = "T1" -> T1 [] TopoId = "T2" -> T2
ASes == DOMAIN Topo.mtu

\* per run: creation time and the expiry every AS uses in that run
RunTs(r) == r * 40
ExpOf(ia, r) == CASE ia = "a" -> (IF r = 0 THEN 20 ELSE 63) [] ia = "c2" -> (IF r = 0 THEN 63 ELSE 10) [] OTHER -> 63

\* oriented links: [from, fif, to, tif, mtu]
Orient(l) == [from |-> l.a, fif |-> l.aif, to |-> l.b, tif |-> l.bif, mtu |-> l.mtu]
Flip(l) == [from |-> l.b, fif |-> l.bif, to |-> l.a, tif |-> l.aif, mtu |-> l.mtu]
ChildHops == {Orient(l) : l \in {x \in Topo.links : x.t = "child"}}
CoreHops == UNION {{Orient(l), Flip(l)} : l \in {x \in Topo.links : x.t = "core"}}

\* peer entries an AS announces (all its peering links, as the beaconing code does)
PeerLinks(ia) == {[ia |-> l.b, rif |-> l.bif, in |-> l.aif, mtu |-> l.mtu] : l \in {x \in Topo.links : x.t = "peer" /\ x.a = ia}}
            \cup {[ia |-> l.a, rif |-> l.aif, in |-> l.bif, mtu |-> l.mtu] : l \in {x \in Topo.links : x.t = "peer" /\ x.b = ia}}

\* beacon routes: sequences of oriented links, loop free, starting at a core AS
RECURSIVE Routes(_, _)
Routes(hops, n) ==
    IF n <= 0 THEN {}
    ELSE IF n = 1 THEN {<<h>> : h \in {x \in hops : x.from \in Topo.core}}
    ELSE LET prev == Routes(hops, n - 1) IN
         prev \cup {Append(rh[1], rh[2]) : rh \in {x \in prev \X hops : x[1][Len(x[1])].to = x[2].from}}
Visited(r) == {r[1].from} \cup {r[j].to : j \in 1..Len(r)}
LoopFree(r) == /\ \A j \in 1..(Len(r) - 1) : r[j].to = r[j + 1].from
               /\ Cardinality(Visited(r)) = Len(r) + 1
DownRoutes == {r \in Routes(ChildHops, MaxLen - 1) : LoopFree(r)}
CoreRoutes == {r \in Routes(CoreHops, MaxLen - 1) : LoopFree(r)}

(* Symbolic hop-field MAC: the tuple of everything the real MAC authenticates; `sig` is a 16 bit
   digest of it (what enters the accumulator). *)
Mac(ia, beta, ts, exp, in, eg) == <<ia, beta, ts, exp, in, eg>>
Hash(s) == CASE s = "c1" -> 11 [] s = "c2" -> 23 [] s = "c3" -> 37 [] s = "a" -> 41 [] s = "b" -> 53
             [] s = "d" -> 67 [] s = "e" -> 79 [] s = "f" -> 83
SigOf(m) == (Hash(m[1]) * 7919 + m[2] * 31 + m[3] * 13 + m[4] * 101 + m[5] * 1009 + m[6] * 4001 + 12345) % 65536

\* the segment beaconing registers for a route in run r (what DefaultExtender.Extend produces)
RECURSIVE BuildEnts(_, _, _, _, _)
BuildEnts(route, r, k, beta, acc) ==
    IF k > Len(route) + 1 THEN acc
    ELSE LET ia == IF k = 1 THEN route[1].from ELSE route[k - 1].to
             in == IF k = 1 THEN 0 ELSE route[k - 1].tif
             eg == IF k > Len(route) THEN 0 ELSE route[k].fif
             exp == ExpOf(ia, r)
             mac == Mac(ia, beta, RunTs(r), exp, in, eg)
             pbeta == beta ^^ SigOf(mac)
             pls == SetToSeq(PeerLinks(ia))
             e == [ia |-> ia, mtu |-> Topo.mtu[ia], inmtu |-> IF k = 1 THEN 0 ELSE route[k - 1].mtu,
                   in |-> in, eg |-> eg, exp |-> exp, mac |-> mac, sig |-> SigOf(mac),
                   peers |-> [j \in 1..Len(pls) |->
                                [ia |-> pls[j].ia, rif |-> pls[j].rif, mtu |-> pls[j].mtu, in |-> pls[j].in,
                                 eg |-> eg, exp |-> exp, mac |-> Mac(ia, pbeta, RunTs(r), exp, pls[j].in, eg)]]]
         IN BuildEnts(route, r, k + 1, pbeta, Append(acc, e))

SegIDOf(route, r) == (Len(route) * 977 + r * 4099 + Hash(route[1].from) * 3) % 65536
Build(route, r) == [ts |-> RunTs(r), segid |-> SegIDOf(route, r),
                    ents |-> BuildEnts(route, r, 1, SegIDOf(route, r), <<>>)]

AllDown == {Build(rt, r) : rt \in DownRoutes, r \in Runs}
AllCore == {Build(rt, r) : rt \in CoreRoutes, r \in Runs}

Small(S) == {X \in SUBSET S : Cardinality(X) <= MaxSegs}

-----------------------------------------------------------------------------
VARIABLES phase,   \* "idle" -> "pair" -> "graph" -> "search" -> "filter" -> "done"
          q,       \* the query: src, dst, ups, cores, downs (sequences), all (findAllIdentical)
          edges,   \* the DMG: set of [from, to, pc, w]
          sols,    \* sequence of solutions (each a sequence of edges), sorted
          result,  \* sequence of [ch, q]: what Combine returns
          defs     \* history variable: [choice -> path] BY DEFINITION for the query (evaluated once)
vars == <<phase, q, edges, sols, result, defs>>

NoQ == [src |-> "", dst |-> "", ups |-> <<>>, cores |-> <<>>, downs |-> <<>>, all |-> FALSE]
Init == phase = "idle" /\ q = NoQ /\ edges = {} /\ sols = <<>> /\ result = <<>> /\ defs = <<>>

\* the query is chosen in two steps so that TLC's workers share the enumeration of segment sets
Pick == /\ phase = "idle"
        /\ \E src \in ASes : \E dst \in ASes \ {src} : q' = [NoQ EXCEPT !.src = src, !.dst = dst]
        /\ phase' = "pair" /\ UNCHANGED <<edges, sols, result, defs>>

Query == /\ phase = "pair"
         /\ \E U \in Small({s \in AllDown : LastIA(s) = q.src}) :
            \E D \in Small({s \in AllDown : LastIA(s) = q.dst}) :
            \E C \in Small(AllCore) :
              /\ q' = [q EXCEPT !.ups = SetToSeq(U), !.cores = SetToSeq(C), !.downs = SetToSeq(D)]
              /\ defs' = [ch \in PathChoices(q'.src, q'.dst, q'.ups, q'.cores, q'.downs) |->
                             PathOf(ch, q'.ups, q'.cores, q'.downs)]
         /\ phase' = "graph" /\ UNCHANGED <<edges, sols, result>>

(* newDMG / traverseSegment *)
AsV(ia) == <<"as", ia>>
SegEdges(kind, segs, i) ==
    LET s == segs[i]
        n == N(s)
        pinned == AsV(LastIA(s)) IN
    IF kind = "core"
      THEN {[from |-> pinned, to |-> AsV(FirstIA(s)), pc |-> [k |-> "core", i |-> i, c |-> 1, p |-> 0], w |-> n - 1]}
    ELSE UNION {
           LET plain == IF idx # n THEN {[v |-> AsV(s.ents[idx].ia), p |-> 0]} ELSE {}
               peer == {[v |-> <<"peer", s.ents[idx].ia, s.ents[idx].peers[p].in, s.ents[idx].peers[p].ia,
                                 s.ents[idx].peers[p].rif>>, p |-> p] : p \in 1..Len(s.ents[idx].peers)} IN
           {IF kind = "up"
              THEN [from |-> pinned, to |-> t.v, pc |-> [k |-> "up", i |-> i, c |-> idx, p |-> t.p], w |-> n - idx]
              ELSE [from |-> IF t.p = 0 THEN t.v ELSE <<"peer", t.v[4], t.v[5], t.v[2], t.v[3]>>, to |-> pinned,
                    pc |-> [k |-> "down", i |-> i, c |-> idx, p |-> t.p],
                    w |-> n - idx + (IF t.p # 0 THEN 1 ELSE 0)] : t \in plain \cup peer}
           : idx \in 1..n}

NewDMG == /\ phase = "graph"
          /\ edges' = UNION ({SegEdges("up", q.ups, i) : i \in DOMAIN q.ups}
                        \cup {SegEdges("core", q.cores, i) : i \in DOMAIN q.cores}
                        \cup {SegEdges("down", q.downs, i) : i \in DOMAIN q.downs})
          /\ phase' = "search" /\ UNCHANGED <<q, sols, result, defs>>

(* GetPaths *)
ValidNext(cur, nxt) == CASE cur = "up" -> nxt \in {"core", "down"} [] cur = "core" -> nxt = "down" [] OTHER -> FALSE
Ext(S, T) == {Append(s, e) : s \in {x \in S : Last(x).to # T}, e \in edges}
ExtOK(S, T) == {s \in Ext(S, T) : LET n == Len(s) IN s[n - 1].to = s[n].from /\ ValidNext(s[n - 1].pc.k, s[n].pc.k)}
Cost(s) == LET RECURSIVE sum(_) sum(j) == IF j = 0 THEN 0 ELSE s[j].w + sum(j - 1) IN sum(Len(s))

GetPaths == /\ phase = "search"
            /\ LET T == AsV(q.dst)
                   S1 == {<<e>> : e \in {x \in edges : x.from = AsV(q.src)}}
                   S2 == ExtOK(S1, T)
                   S3 == ExtOK(S2, T)
                   found == {s \in S1 \cup S2 \cup S3 : Last(s).to = T}
               IN sols' = SortSeq(SetToSeq(found), LAMBDA x, y : Cost(x) < Cost(y))
            /\ phase' = "filter" /\ UNCHANGED <<q, edges, result, defs>>

(* Path() for every solution, filterLongPaths, filterDuplicates *)
ChoiceOf(s) == [j \in 1..Len(s) |-> s[j].pc]
Filter == /\ phase = "filter"
          /\ \E all \in BOOLEAN :       \* findAllIdentical only matters here
             LET paths == [j \in 1..Len(sols) |-> [ch |-> ChoiceOf(sols[j]), w |-> Cost(sols[j]),
                                                    q |-> PathOf(ChoiceOf(sols[j]), q.ups, q.cores, q.downs)]]
                 \* Combine skips solutions that do not fit the path header (fitsPathHeader), then filterLongPaths
                 short == SelectSeq(paths, LAMBDA x : Representable(x.q, HopLimit, SegLimit) /\ ~Loopy(x.q.intfs))
                 \* index kept for a fingerprint: the first one with the latest expiry
                 keep(j) == \A i \in 1..Len(short) : short[i].q.intfs = short[j].q.intfs =>
                               (short[i].q.exp < short[j].q.exp \/ (short[i].q.exp = short[j].q.exp /\ i >= j))
                 idx == {j \in 1..Len(short) : all \/ keep(j)}
             IN /\ result' = [j \in 1..Cardinality(idx) |-> short[CHOOSE i \in idx : Cardinality({x \in idx : x < i}) = j - 1]]
                /\ q' = [q EXCEPT !.all = all]
          /\ phase' = "done" /\ UNCHANGED <<edges, sols, defs>>

Next == Pick \/ Query \/ NewDMG \/ GetPaths \/ Filter
Spec == Init /\ [][Next]_vars

-----------------------------------------------------------------------------
(* Properties. *)
Def == DOMAIN defs
DefPath(ch) == defs[ch]
GoodDef == {ch \in Def : ~Loopy(DefPath(ch).intfs) /\ Representable(DefPath(ch), HopLimit, SegLimit)}

\* C29 (design): the graph enumeration finds exactly the combinations of the definition
GraphEqualsDefinition ==
    phase \in {"filter", "done"} => {ChoiceOf(sols[j]) : j \in 1..Len(sols)} = Def

\* the weight the graph accumulates is the number of inter-AS links of the path
WeightIsLinks ==
    phase \in {"filter", "done"} => \A j \in 1..Len(sols) : Cost(sols[j]) = DefPath(ChoiceOf(sols[j])).w

\* C28 (design): every admissible path is a walk over links of the topology from src to dst
LinkEnds == {<<[ia |-> l.a, id |-> l.aif], [ia |-> l.b, id |-> l.bif]>> : l \in Topo.links}
        \cup {<<[ia |-> l.b, id |-> l.bif], [ia |-> l.a, id |-> l.aif]>> : l \in Topo.links}
IsWalk(intfs, src, dst) ==
    /\ Len(intfs) >= 2 /\ Len(intfs) % 2 = 0
    /\ intfs[1].ia = src /\ intfs[Len(intfs)].ia = dst
    /\ \A j \in 1..Len(intfs) : j % 2 = 1 => <<intfs[j], intfs[j + 1]>> \in LinkEnds
    /\ \A j \in 1..(Len(intfs) - 1) : j % 2 = 0 => intfs[j].ia = intfs[j + 1].ia
PathsAreWalks == phase = "filter" => \A ch \in Def : IsWalk(DefPath(ch).intfs, q.src, q.dst)

\* C28 (design): the hop fields verify hop by hop with the router's accumulator rules:
\*   construction direction: verify, then fold the MAC in (not at a peering hop);
\*   against it: fold the MAC in at every ingress but the first hop of the segment (and not at a
\*   peering hop), then verify.
PieceASes(ch, j) == LET s == SegOf(ch[j], q.ups, q.cores, q.downs)
                        cons == [x \in 1..(N(s) - ch[j].c + 1) |-> s.ents[ch[j].c + x - 1].ia] IN
                    IF ch[j].k = "down" THEN cons ELSE Rev(cons)
RECURSIVE Walk(_, _, _, _, _)
\* returns TRUE iff all hops from position x on verify; acc is the accumulator carried by the packet
Walk(hs, as, inf, x, acc) ==
    IF x > Len(hs) THEN TRUE
    ELSE LET peering == inf.peer /\ ((inf.cd /\ x = 1) \/ (~inf.cd /\ x = Len(hs)))
             a1 == IF ~inf.cd /\ x > 1 /\ ~peering THEN acc ^^ SigOf(hs[x].mac) ELSE acc
             ok == hs[x].mac = Mac(as[x], a1, inf.ts, hs[x].exp, hs[x].in, hs[x].eg)
             a2 == IF inf.cd /\ ~peering THEN a1 ^^ SigOf(hs[x].mac) ELSE a1
         IN ok /\ Walk(hs, as, inf, x + 1, a2)
Forwardable(ch) ==
    \A j \in 1..Len(ch) :
        LET s == SegOf(ch[j], q.ups, q.cores, q.downs) IN
        Walk(PieceHops(s, ch[j]), PieceASes(ch, j), PieceInfo(s, ch[j]), 1, PieceInfo(s, ch[j]).segid)
HopFieldsVerify == phase = "filter" => \A ch \in Def : Forwardable(ch)

\* C28 (design): metadata = minimum over what is traversed, judged against the TOPOLOGY
LinkMtu(a, b) == (CHOOSE l \in Topo.links : <<a, b>> \in {<<[ia |-> l.a, id |-> l.aif], [ia |-> l.b, id |-> l.bif]>>,
                                                         <<[ia |-> l.b, id |-> l.bif], [ia |-> l.a, id |-> l.aif]>>}).mtu
TopoMtu(intfs) == MinOf({Topo.mtu[intfs[j].ia] : j \in 1..Len(intfs)}
                        \cup {LinkMtu(intfs[j], intfs[j + 1]) : j \in {x \in 1..Len(intfs) : x % 2 = 1}})
MtuIsTopologyMinimum == phase = "filter" => \A ch \in Def : LET p == DefPath(ch) IN p.mtu = TopoMtu(p.intfs)

\* C28: the returned list
ResultOK ==
    phase = "done" =>
      /\ \A j \in 1..(Len(result) - 1) : result[j].q.w <= result[j + 1].q.w
      /\ \A j \in 1..Len(result) : ~Loopy(result[j].q.intfs) /\ Representable(result[j].q, HopLimit, SegLimit)
      /\ ~q.all => \A i, j \in 1..Len(result) : i # j => result[i].q.intfs # result[j].q.intfs
      /\ ~q.all => \A j \in 1..Len(result) : \A ch \in GoodDef :
                      DefPath(ch).intfs = result[j].q.intfs => DefPath(ch).exp <= result[j].q.exp
      /\ {result[j].q.intfs : j \in 1..Len(result)} = {DefPath(ch).intfs : ch \in GoodDef}
      /\ q.all => {result[j].ch : j \in 1..Len(result)} = GoodDef

\* vacuity guards (checked with their negation as invariant in a separate cfg / by coverage)
TypeOK == phase \in {"idle", "pair", "graph", "search", "filter", "done"}
=============================================================================
