---------------------------- MODULE TrustStoreGen ----------------------------
(* Scenario generator for C35: sequential histories of NotifyTRC calls (stale, current, future
   serials, other base, other ISD; the remote failing in every way at every position) and LoadTRCs
   calls (past / future validity, conflicting content) on one trust store.  Every history is
   emitted once; the expected results are NOT part of the scenario (the trace spec computes them). *)
EXTENDS TrustStoreOps, TLC, Json

CONSTANTS Inits, MaxSerial, MaxSteps,
          Kinds1, Kinds2,     \* failure kinds injected in the first / in later notifications
          Variants1, Variants2, LoadSteps

VARIABLES db, hist, init
vars == <<db, hist, init>>
Serials == 1..MaxSerial

Init == /\ init \in Inits /\ hist = <<>>
        /\ db = [s \in Serials |-> IF s <= init THEN "a" ELSE "none"]

Vec(f, kind, variant) == [s \in Serials |-> IF s = f THEN kind ELSE variant]

Notify ==
    LET first == Len(hist) = 0
        kinds == IF first THEN Kinds1 ELSE Kinds2
        variants == IF first THEN Variants1 ELSE Variants2
        latest == Latest(db) IN
    \E isd \in {1, 2}, base \in {1, 2}, serial \in 0..MaxSerial :
      \E f \in {0} \cup ((latest + 1)..serial), kind \in kinds, variant \in variants :
        /\ (isd # 1 \/ base # 1) => (f = 0 /\ variant = "ok" /\ serial \in {1, latest + 1})
        /\ serial <= latest => (f = 0 /\ variant = "ok")
        /\ f = 0 => kind = CHOOSE k \in kinds : TRUE
        /\ LET outc == Vec(f, kind, variant)
               r == NotifyResult(IF isd = 1 THEN db ELSE [s \in Serials |-> "none"], 1, base, serial, outc) IN
           /\ hist' = Append(hist, [op |-> "notify", isd |-> isd, base |-> base, serial |-> serial,
                                    outc |-> outc, files |-> <<>>])
           /\ db' = IF isd = 1 THEN r.db ELSE db

File(s, c, fut) == [serial |-> s, content |-> c, future |-> fut]
Load ==
    LET latest == Latest(db)
        cand == {File(s, c, fut) : s \in {latest, latest + 1, latest + 2} \cap Serials, c \in {"a", "b"}, fut \in BOOLEAN} IN
    /\ Len(hist) + 1 \in LoadSteps
    /\ \E f1 \in cand, f2 \in cand \cup {File(0, "a", FALSE)} :
         LET files == IF f2.serial = 0 THEN <<f1>> ELSE <<f1, f2>> IN
         /\ f2.serial # 0 => (f1.future # f2.future /\ f1 # f2)
         /\ hist' = Append(hist, [op |-> "load", isd |-> 1, base |-> 1, serial |-> 0,
                                  outc |-> [s \in Serials |-> "ok"], files |-> files])
         /\ db' = LoadResult(db, files).db

Next == Len(hist) < MaxSteps /\ (Notify \/ Load) /\ UNCHANGED init
Spec == Init /\ [][Next]_vars
View == <<hist, init>>

Emit == Len(hist) = MaxSteps => PrintT(<<"SCN", ToJson([init |-> init, steps |-> hist])>>)
=============================================================================
