---------------------------- MODULE TrustStoreGen ----------------------------
(* Scenario generator for C35: sequential histories of NotifyTRC calls (stale, current, future
   serials, other base, other ISD; the remote failing in every way at every position) and LoadTRCs
   calls (past / future validity, conflicting content) on one trust store.  Every history is
   emitted once; the expected results are NOT part of the scenario (the trace spec computes them). *)
EXTENDS TrustStoreOps, TLC, Json

CONSTANTS Inits, MaxSerial, MaxSteps,
          Kinds1, Kinds2,     \* failure kinds injected in the first / in later notifications
          Variants1, Variants2, LoadSteps, MaxFiles

VARIABLES db, hist, init
vars == <<db, hist, init>>
Serials == 1..MaxSerial

Init == /\ init \in Inits /\ hist = <<>>
        /\ db = [s \in Serials |-> IF s <= init THEN "a" ELSE "none"]

Vec(f, kind, variant) == [s \in Serials |-> IF s = f THEN kind ELSE variant]

Notify ==
    LET first == Len(hist) = 0
        kinds == IF first THEN Kinds1 ELSE Kinds2
        variants == IF first THEN Variants1 ELSE Variants2
        latest == Latest(db) IN
    \E isd \in {1, 2}, base \in {1, 2}, serial \in 0..MaxSerial :
      \E f \in {0} \cup ((latest + 1)..serial), kind \in kinds, variant \in variants :
        /\ (isd # 1 \/ base # 1) => (f = 0 /\ variant = "ok" /\ serial \in {1, latest + 1})
        /\ serial <= latest => (f = 0 /\ variant = "ok")
        /\ f = 0 => kind = CHOOSE k \in kinds : TRUE
        /\ LET outc == Vec(f, kind, variant)
               r == NotifyResult(IF isd = 1 THEN db ELSE [s \in Serials |-> "none"], 1, base, serial, outc) IN
           /\ hist' = Append(hist, [op |-> "notify", isd |-> isd, base |-> base, serial |-> serial,
                                    outc |-> outc, files |-> <<>>])
           /\ db' = IF isd = 1 THEN r.db ELSE db

File(s, c, fut, isd, junk) == [serial |-> s, content |-> c, future |-> fut, isd |-> isd, junk |-> junk]
\* a directory mixing valid, future-dated, conflicting, unparsable and other-ISD files, in every file-name order
RECURSIVE Perms(_)
Perms(S) == IF S = {} THEN {<<>>} ELSE UNION {{<<x>> \o p : p \in Perms(S \ {x})} : x \in S}
Load ==
    LET latest == Latest(db)
        cand == {File(latest + 1, "a", FALSE, 1, FALSE), File(latest + 2, "a", FALSE, 1, FALSE),
                 File(latest + 1, "a", TRUE, 1, FALSE), File(latest, "b", FALSE, 1, FALSE),
                 File(0, "a", FALSE, 1, TRUE), File(2, "a", FALSE, 2, FALSE),
                 \* future-dated TRCs of every kind: an update (above), and a BASE TRC (serial 1 of the other ISD)
                 File(1, "a", TRUE, 2, FALSE)} \cup
                (IF MaxFiles > 3 THEN {File(3, "a", TRUE, 2, FALSE), File(1, "a", FALSE, 2, FALSE)} ELSE {}) IN
    /\ Len(hist) + 1 \in LoadSteps
    /\ latest + 2 <= MaxSerial
    /\ \E S \in SUBSET cand :
         /\ S # {} /\ Cardinality(S) <= MaxFiles
         /\ \E files \in Perms(S) :
              /\ hist' = Append(hist, [op |-> "load", isd |-> 1, base |-> 1, serial |-> 0,
                                       outc |-> [s \in Serials |-> "ok"], files |-> files])
              /\ db' = LoadResult(db, files).db

\* a notification during which the database cannot be read
NotifyDBFail ==
    \E serial \in {Latest(db), Latest(db) + 1} \cap Serials :
       /\ hist' = Append(hist, [op |-> "notify", isd |-> 1, base |-> 1, serial |-> serial,
                                outc |-> [s \in Serials |-> "dbreaderr"], files |-> <<>>])
       /\ UNCHANGED db

\* a history ends after a load of a mixed directory (more than one file)
Ended == Len(hist) = MaxSteps \/ (Len(hist) > 0 /\ Len(hist[Len(hist)].files) > 1)
Next == ~Ended /\ (Notify \/ Load \/ NotifyDBFail) /\ UNCHANGED init
Spec == Init /\ [][Next]_vars
View == <<hist, init>>

Emit == Ended => PrintT(<<"SCN", ToJson([init |-> init, steps |-> hist])>>)
=============================================================================
