INIT GenInit
NEXT Next
CONSTANTS
  W = 6
  PrefixAlphabet <- GenPrefixesThorough
  ClassLists <- GenClassLists
  MaxEntries = 3
  Pkts = {}
  Rules <- GenRulesThorough
  MaxRules = 2
  IAs <- McIAs
  Queries <- McQueries
CONSTRAINTS Prune Emit
CHECK_DEADLOCK FALSE
