---------------------------- MODULE SegVerifyOps ----------------------------
(* Segment verification with symbolic cryptography (C24).

   A (possibly manipulated) segment is described by provenance tags, never by bytes:
     info        0 = the segment information the entries were signed over, other = altered / foreign
     entry       [id, hb, sg, ctxinfo, ctx, local, claimed, exp, cert]
        id       identity of the signing act (one per AddASEntry call)
        hb, sg   0 = header-and-body / signature bytes as produced by the signer, other = altered
        ctxinfo  tag of the segment information this entry was signed over
        ctx      ids of the entries (with their signatures) this entry was signed over, in order
        local    ISD-AS named in the entry; claimed: ISD-AS named in the signature's key id
        exp      relative hop expiry; cert = [ia, nb, na]: the certificate of the key that signed
                 (ia = "" : no certificate chain for that key is known)
   A signature verifies iff the verifier feeds it exactly the bytes that were signed:
   unaltered own bytes, same info, same sequence of unaltered earlier entries and signatures.   *)
EXTENDS Integers, Sequences, FiniteSets, BeaconingOps

SigOK(ents, i, info) ==
    /\ ents[i].hb = 0 /\ ents[i].sg = 0
    /\ ents[i].ctxinfo = info
    /\ ents[i].ctx = [j \in 1..(i - 1) |-> ents[j].id] \o <<>>
    /\ \A j \in 1..(i - 1) : ents[j].hb = 0 /\ ents[j].sg = 0

\* segverifier.VerifySegment binds the verifier to the entry's ISD-AS and to the hop field lifetime
CertOK(e, ts) ==
    /\ e.cert.ia # "" /\ e.cert.ia = e.local /\ e.claimed = e.local
    /\ e.cert.nb <= ts /\ ts + Dur(e.exp) <= e.cert.na

EntryOK(ents, i, info, ts) == SigOK(ents, i, info) /\ CertOK(ents[i], ts)

SegmentVerifies(ents, info, ts) == Len(ents) >= 1 /\ \A i \in 1..Len(ents) : EntryOK(ents, i, info, ts)

FirstBad(ents, info, ts) ==
    IF \A i \in 1..Len(ents) : EntryOK(ents, i, info, ts) THEN 0
    ELSE CHOOSE i \in 1..Len(ents) : ~EntryOK(ents, i, info, ts) /\ \A j \in 1..(i - 1) : EntryOK(ents, j, info, ts)
=============================================================================
