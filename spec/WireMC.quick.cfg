SPECIFICATION Spec
CONSTANTS
  Thorough = FALSE
INVARIANTS TypeOK Injective LengthOK TruncationsRejected
CHECK_DEADLOCK FALSE
