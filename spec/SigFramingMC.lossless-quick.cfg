INIT Init
NEXT Next
CONSTANTS
  Kinds <- McKindsQuick
  NP = 3
  Fs = {41, 60}
  MaxDeliver = 0
  Cap = 8
  Lossless = TRUE
INVARIANTS NoSplice NoGarbage FramesTile ListShape LosslessPrefix LosslessExact
CHECK_DEADLOCK FALSE
