----------------------------- MODULE WireAuth -----------------------------
(* C21 -- exhaustive consistency of the classification table (WireOps!AuthClass: which bit of which
   field is covered by the authenticator) with the MAC input the document constructs
   (WireOps!AuthInput, items 1..5 of "Authenticated Data"), the MAC being an injective function of
   its input.

   Shaped like the use: a base packet (path kind x SPI kind x byte pattern) is picked, then ONE bit
   of ONE field is flipped (the single-field change of the property), and
       Exact ==  the MAC input changes  <=>  the table says "covered"     (for classified bits).
   With TcCode = TRUE the input is built with the 0x3f traffic-class mask of pkg/spao/mac.go instead
   of "TC w/o ECN": TLC then reports the four misclassified traffic-class bits (WireAuthMC.code.cfg,
   DESIGN.md D6 -- demonstration only, never a verdict).                                           *)
EXTENDS WireOps, TLC

CONSTANTS TcCode,      \* FALSE: the document's input; TRUE: traffic class masked as in the code
          Fills,       \* byte patterns of the base packets
          PathKinds    \* subset of {"empty", "onehop", "scion1", "scion2", "scion3", "epic2"}

VARIABLES st
vars == <<st>>

SpiKinds == {"nodrkey", "ashost-sender", "ashost-receiver", "hosthost-sender", "hosthost-receiver"}

Fill(n, f) == [i \in 1..n |-> (f + 37 * i) % 256]
\* meta header: CurrINF = 1, CurrHF = 1, RSV = 0, SegLen[0..2]
Meta(segs) == <<64 + 1, (segs[1] \div 16), (segs[1] % 16) * 16 + segs[2] \div 4, (segs[2] % 4) * 64 + segs[3]>>
ScionRaw(segs, f) == Meta(segs) \o Fill(8 * NumInf(segs) + 12 * NumHops(segs), f)
PkOf(k) == IF k \in {"scion1", "scion2", "scion3"} THEN "scion" ELSE IF k = "epic2" THEN "epic" ELSE k
RawPath(k, f) ==
    CASE k = "empty" -> <<>>
      [] k = "onehop" -> Fill(32, f)
      [] k = "scion1" -> ScionRaw(<<2, 0, 0>>, f)
      [] k = "scion2" -> ScionRaw(<<2, 1, 0>>, f)
      [] k = "scion3" -> ScionRaw(<<1, 2, 1>>, f)
      [] k = "epic2" -> Fill(16, f) \o ScionRaw(<<1, 1, 0>>, f)

Base(k, f) ==
    [ver |-> f % 16, tc |-> (f * 7 + 165) % 256, flow |-> (f * 4099 + 74565) % 1048576, nh |-> 202, plen |-> 300,
     ptype |-> (IF k = "empty" THEN 0 ELSE IF k = "onehop" THEN 2 ELSE IF k = "epic2" THEN 3 ELSE 1),
     dt |-> 0, dl |-> 0, st |-> 1, sl |-> 3, dstia |-> Fill(8, f + 1), srcia |-> Fill(8, f + 2),
     dst |-> Fill(4, f + 3), src |-> Fill(16, f + 4), pk |-> PkOf(k), path |-> RawPath(k, f),
     l4 |-> 17, pld |-> Fill(5, f + 5), alg |-> 0, ts |-> Fill(6, f + 6)]

\* scalar fields: name -> width in bits
Scalars == [version |-> 4, tc |-> 8, flowid |-> 20, nexthdr |-> 8, payloadlen |-> 16, pathtype |-> 8,
            dt |-> 2, dl |-> 2, st |-> 2, sl |-> 2, l4type |-> 8, alg |-> 8]
ByteFields == {"dstia", "srcia", "dsthost", "srchost", "path", "payload", "ts"}

FlipInt(v, k) == IF (v \div 2 ^ k) % 2 = 1 THEN v - 2 ^ k ELSE v + 2 ^ k

ApplyScalar(p, f, k) ==
    CASE f = "version" -> [p EXCEPT !.ver = FlipInt(@, k)]
      [] f = "tc" -> [p EXCEPT !.tc = FlipInt(@, k)]
      [] f = "flowid" -> [p EXCEPT !.flow = FlipInt(@, k)]
      [] f = "nexthdr" -> [p EXCEPT !.nh = FlipInt(@, k)]
      [] f = "payloadlen" -> [p EXCEPT !.plen = FlipInt(@, k)]
      [] f = "pathtype" -> [p EXCEPT !.ptype = FlipInt(@, k)]
      [] f = "dt" -> [p EXCEPT !.dt = FlipInt(@, k)]
      [] f = "dl" -> [p EXCEPT !.dl = FlipInt(@, k)]
      [] f = "st" -> [p EXCEPT !.st = FlipInt(@, k)]
      [] f = "sl" -> [p EXCEPT !.sl = FlipInt(@, k)]
      [] f = "l4type" -> [p EXCEPT !.l4 = FlipInt(@, k)]
      [] f = "alg" -> [p EXCEPT !.alg = FlipInt(@, k)]

Bytes(p, f) == CASE f = "dstia" -> p.dstia [] f = "srcia" -> p.srcia [] f = "dsthost" -> p.dst [] f = "srchost" -> p.src
                 [] f = "path" -> p.path [] f = "payload" -> p.pld [] f = "ts" -> p.ts
ApplyBytes(p, f, off, k) ==
    CASE f = "dstia" -> [p EXCEPT !.dstia = FlipAt(@, off + 1, k)]
      [] f = "srcia" -> [p EXCEPT !.srcia = FlipAt(@, off + 1, k)]
      [] f = "dsthost" -> [p EXCEPT !.dst = FlipAt(@, off + 1, k)]
      [] f = "srchost" -> [p EXCEPT !.src = FlipAt(@, off + 1, k)]
      [] f = "path" -> [p EXCEPT !.path = FlipAt(@, off + 1, k)]
      [] f = "payload" -> [p EXCEPT !.pld = FlipAt(@, off + 1, k)]
      [] f = "ts" -> [p EXCEPT !.ts = FlipAt(@, off + 1, k)]

Init == \E k \in PathKinds, s \in SpiKinds, f \in Fills :
            st = [ph |-> "base", k |-> k, spi |-> s, p |-> Base(k, f), a0 |-> AuthInput(Base(k, f), s, TcCode)]

PickField == /\ st.ph = "base"
             /\ \E f \in (DOMAIN Scalars) \cup ByteFields \cup {"payloadsize"} :
                   st' = [st EXCEPT !.ph = "field"] @@ [field |-> f]

Flip == /\ st.ph = "field"
        /\ \/ /\ st.field \in DOMAIN Scalars
              /\ \E k \in 0..(Scalars[st.field] - 1) :
                    st' = [st EXCEPT !.ph = "flipped"] @@ [off |-> 0, bit |-> k, q |-> ApplyScalar(st.p, st.field, k)]
           \/ /\ st.field \in ByteFields
              /\ \E off \in 0..(Len(Bytes(st.p, st.field)) - 1), k \in 0..7 :
                    st' = [st EXCEPT !.ph = "flipped"] @@ [off |-> off, bit |-> k, q |-> ApplyBytes(st.p, st.field, off, k)]
           \/ /\ st.field = "payloadsize"      \* one more (zero) byte of upper-layer data
              /\ st' = [st EXCEPT !.ph = "flipped"] @@ [off |-> 0, bit |-> 0, q |-> [st.p EXCEPT !.pld = @ \o <<0>>]]

Next == PickField \/ Flip
Spec == Init /\ [][Next]_vars

-----------------------------------------------------------------------------
TypeOK == st.ph \in {"base", "field", "flipped"}

Exact ==
    st.ph = "flipped" =>
      LET cls == AuthClass(st.p.pk, SegLensOf(IF st.p.pk = "epic" THEN SubSeq(st.p.path, 17, Len(st.p.path)) ELSE
                                              IF st.p.pk = "scion" THEN st.p.path ELSE <<0, 0, 0, 0>>),
                           st.spi, st.field, st.off, st.bit)
          changed == AuthInput(st.q, st.spi, TcCode) # st.a0 IN
      cls # "unspecified" => (changed <=> cls = "covered")

=============================================================================
