------------------------- MODULE LocalDeliveryTrace -------------------------
(* Trace specification for C11.  A trace is one real router, built by the driver through
   router.NewConnector and either the production path (control.LoadConfig + ConfigDataplane) or the
   same Connector calls in a TLC-generated order, followed by packets that arrive on an external
   interface for a host / service of the local AS:

     reset    how order rangeVsInternal rangeKind lo hi ovLo ovHi ok
              rangeKind/lo/hi: "dispatched_ports" of the topology ("empty" = "-", "all", "range");
              ovLo/ovHi: override of the router configuration (-1 = none);
              rangeVsInternal: whether SetPortRange came "before" or "after" AddInternalInterface
     deliver  kind ext cut field dst disp egress port addr want inst      (ext: extension headers in
              front of layer 4: "none" | "hbh" | "e2e" | "hbh+e2e"; the allowed ports do not depend on it)
              the packet (kind, carried port / identifier, "ip" | "svc-..."), what the fast path did
              with it and the underlay (addr, port) the internal link resolved; want: the host
              address for "ip"; inst: the registered "addr:port" instances for a service

   Monitor (per packet, no latch): a packet delivered on the internal link goes to the host's address
   and a port in LocalDeliveryOps!AllowedPorts for the range in force; a service packet goes to a
   registered instance.  Packets that are not delivered are outside the statement (drift).       *)
EXTENDS LocalDeliveryOps, TLC, Json

Trace == ndJsonDeserialize("trace.ndjson")

VARIABLES rng, rel, l, ndel, drifted
vars == <<rng, rel, l, ndel, drifted>>
R == Trace[l]

Init == rng = <<0, 0>> /\ rel = "-" /\ l = 1 /\ ndel = 0 /\ drifted = {}

Bad(key) == PrintT(<<"VERIF-BAD", l, key \o (IF R.ev = "deliver" /\ R.ext # "none" THEN ":" \o R.ext ELSE "")>>)
Drift(key) == /\ drifted' = drifted \cup {key}
              /\ key \notin drifted => PrintT(<<"VERIF-DRIFT", l, key>>)

Reset == /\ rng' = Effective(TopoRange(R.rangeKind, R.lo, R.hi), R.ovLo, R.ovHi)
         /\ rel' = R.rangeVsInternal
         /\ UNCHANGED <<ndel, drifted>>

InstOf(a, p) == a \o ":" \o ToString(p)

Deliver ==
    /\ UNCHANGED <<rng, rel>>
    /\ IF R.disp # "forward" \/ R.egress # 0 \/ R.port < 0
         THEN /\ UNCHANGED ndel
              /\ IF (R.kind = "err-udp" /\ R.field = 0) \/ R.kind \in NoPort \cup Partial \/ (Len(R.inst) = 0 /\ R.dst # "ip")
                   THEN UNCHANGED drifted
                 ELSE Drift("not-delivered:" \o R.kind \o ":" \o R.disp)
       ELSE /\ ndel' = ndel + 1
            /\ IF R.dst = "ip"
                 THEN IF R.addr # R.want THEN Bad("addr:" \o R.kind) /\ UNCHANGED drifted
                      ELSE IF R.port \notin AllowedPorts(R.kind, R.field, rng[1], rng[2])
                        THEN /\ Bad("port:" \o R.kind \o ":" \o PortWhy(R.kind, R.field, rng[1], rng[2], R.port)
                                    \o ":range-" \o rel)
                             /\ UNCHANGED drifted
                      ELSE UNCHANGED drifted
                 ELSE IF \E i \in 1..Len(R.inst) : R.inst[i] = InstOf(R.addr, R.port) THEN UNCHANGED drifted
                      ELSE Bad("svc:not-an-instance:range-" \o rel) /\ UNCHANGED drifted

Step == /\ l <= Len(Trace)
        /\ l' = l + 1
        /\ CASE R.ev = "reset" -> Reset
             [] R.ev = "deliver" -> Deliver
             [] R.ev = "builderr" -> UNCHANGED <<rng, rel, ndel>> /\ Drift("configuration-failed")
             [] OTHER -> UNCHANGED <<rng, rel, ndel, drifted>> /\ Bad("no-spec-action:" \o R.ev)

Done == /\ l = Len(Trace) + 1
        /\ PrintT(<<"VERIF-STAT", "delivered", ndel>>)
        /\ PrintT(<<"VERIF-DONE", Len(Trace)>>)
        /\ UNCHANGED vars

Next == Step \/ Done
Spec == Init /\ [][Next]_vars
=============================================================================
