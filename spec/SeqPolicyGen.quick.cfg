INIT GenInit
NEXT Next
CONSTANTS
  MaxSize = 4
  MaxLen = 0
  Leaves <- GenLeavesQuick
  Hops <- McHops
  Directed <- DirectedQuick
CONSTRAINT Emit
CHECK_DEADLOCK FALSE
