SPECIFICATION Spec
CONSTANTS
  Links = {1, 2, 3}
  MaxLen = 2
  MaxN = 3
  MaxK = 4
  Shape = "stmt"
INVARIANTS NoPanic WellFormed LastChoice
CHECK_DEADLOCK FALSE
