SPECIFICATION Spec
CONSTANTS
  MaxLen = 3
  ExtraLen = 4
  NCfg = 6
  LocalInLoopCheck = TRUE
  Gen = TRUE
INVARIANTS StoredOnlyIf StoredConforms SentNoLoop RegisteredConform PipelineExact
CHECK_DEADLOCK FALSE
