-------------------------- MODULE DRKeyAdmitTrace --------------------------
(* Trace specification for C40.  Every line of trace.ndjson is one independent case: an abstract
   request (the lattice point TLC generated, see DRKeyAdmit.tla), executed by the driver against the
   real control/drkey/grpc.Server handlers with a recording engine, plus what happened:

     via      : "direct" the handler method of grpc.Server was called with a peer.Peer in the context;
                "connect" the request went through the generated connect client, the handler chain the
                control service registers (pkg/connect.AttachPeer -> connect mux -> control/drkey/connect.Server)
                in process: peer address and TLS state are extracted by the real code
     served   : the handler returned a response (no error)
     ncalls   : number of engine operations the handler invoked
     asked    : abstract projection of the (last) engine operation: which method, for which
                protocol / ISD-ASes / hosts ("-" fields when none)
     keyfrom  : "engine" the key bytes in the response are the ones the engine returned for `asked`,
                "none" no response, "foreign" a response with other key bytes
     model    : outcome of the code-shaped model for this lattice point (drift only)

   Monitor (the property as stated, only-if):  served => Admit(q) /\ the key is the one bound to the
   authenticated / named entity (KeyTerm(q)).  Everything else (a stricter or differently ordered
   implementation) is VERIF-DRIFT at most.  Each bad case prints its own key.                   *)
EXTENDS DRKeyOps, TLC, Json

Trace == ndJsonDeserialize("trace.ndjson")

VARIABLES l, nserved, nbad
vars == <<l, nserved, nbad>>
R == Trace[l]

Q(r) == [rpc |-> r.rpc, proto |-> r.proto, src |-> r.src, dst |-> r.dst, srcHost |-> r.srcHost,
         dstHost |-> r.dstHost, peer |-> r.peer, allow |-> r.allow, cert |-> r.cert]

Asked(r) == [m |-> r.asked.m, proto |-> r.asked.proto, src |-> r.asked.src, dst |-> r.asked.dst,
             srcHost |-> r.asked.srcHost, dstHost |-> r.asked.dstHost]

Init == l = 1 /\ nserved = 0 /\ nbad = 0

Via == IF R.via = "connect" THEN ":connect" ELSE ""
Bad(key) == PrintT(<<"VERIF-BAD", l, key \o Via>>) /\ nbad' = nbad + 1
Drift(key) == PrintT(<<"VERIF-DRIFT", l, key>>)

Req ==
    LET q == Q(R) IN
    /\ nserved' = nserved + (IF R.served THEN 1 ELSE 0)
    /\ IF q \notin Requests THEN Bad("request-outside-lattice")
       ELSE IF R.served /\ ~Admit(q) THEN Bad("not-admitted:" \o q.rpc \o ":" \o WhyNot(q))
       ELSE IF R.served /\ (R.ncalls # 1 \/ Asked(R) # KeyTerm(q))
         THEN Bad("key-of-other-entity:" \o q.rpc)
       ELSE IF R.served /\ R.keyfrom # "engine" THEN Bad("key-not-from-engine:" \o q.rpc)
       ELSE /\ nbad' = nbad
            /\ IF ~R.served /\ R.ncalls # 0 THEN Drift("rejected-after-asking:" \o q.rpc)
               ELSE IF R.served # (R.model = "served") THEN Drift("model-outcome-differs:" \o q.rpc)
               ELSE TRUE

Step == /\ l <= Len(Trace)
        /\ l' = l + 1
        /\ CASE R.ev = "req" -> Req
             [] OTHER -> Bad("no-spec-action:" \o R.ev) /\ UNCHANGED nserved

Done == /\ l = Len(Trace) + 1
        /\ PrintT(<<"VERIF-STAT", "served", nserved>>)
        /\ PrintT(<<"VERIF-DONE", Len(Trace)>>)
        /\ UNCHANGED vars

Next == Step \/ Done
Spec == Init /\ [][Next]_vars
=============================================================================
