SPECIFICATION Spec
CONSTANTS
  Rel = "rfc"
  Budget = 2
  Foreign = TRUE
  Track = "rfc"
  Demux = "strict"
INVARIANTS TypeOK NeverAdminDown UpMeansPeerAlive KnowsPeer
PROPERTIES SilenceMeansDown Recovers
CHECK_DEADLOCK FALSE
