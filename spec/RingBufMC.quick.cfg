SPECIFICATION Spec
CONSTANTS
  Cap = 2
  Callers = {1, 2}
  MaxCalls = 3
  MaxBatch = 3
INVARIANTS TypeOK Conservation Fifo IndexCoherent NoLostWakeup NoStale
PROPERTIES ClosedReleases
CHECK_DEADLOCK FALSE
