---------------------------- MODULE PathMetaOps ----------------------------
(* C19 - pure operators over the SCION path meta header (pkg/slayers/path/scion): three segment
   lengths s = <<s1, s2, s3>> (6 bits each), current info pointer ci (2 bits), current hop pointer h
   (6 bits).  Single source of truth for the exhaustive model (PathMeta.tla) and the trace
   specification (PathMetaTrace.tla).

   Two layers:
     * statement level ("S" suffix / plain names): written from the property text - segments are
       the contiguous non-empty prefix of s, a cross-over is the last hop of a segment that is not
       the last segment, and so on;
     * code shaped ("C" suffix): the arithmetic of base.go / decoded.go (infIndexForHF, IsXover,
       IsFirstHopAfterXover, IncPath, Reverse).  PathMeta.tla proves over the complete space that
       both layers agree wherever ci is the segment of h.                                        *)
EXTENDS Integers, Sequences

MaxHops == 64
Segs == 0..63

Total(s) == s[1] + s[2] + s[3]
AllZero(s) == s[1] = 0 /\ s[2] = 0 /\ s[3] = 0

\* contiguous non-empty segments, at most 64 hops in total
Valid(s) == s[1] > 0 /\ (s[3] > 0 => s[2] > 0) /\ Total(s) <= MaxHops
\* weaker reading (DESIGN.md section 8): the all-zero triple is the empty path and may be accepted
Accept(s) == Valid(s) \/ AllZero(s)

NumInf(s) == IF s[3] > 0 THEN 3 ELSE IF s[2] > 0 THEN 2 ELSE IF s[1] > 0 THEN 1 ELSE 0

-----------------------------------------------------------------------------
(* Statement level.  Segments are numbered 0..2, hops 0..Total-1. *)
SegStart(s, i) == IF i = 0 THEN 0 ELSE IF i = 1 THEN s[1] ELSE s[1] + s[2]
SegEnd(s, i) == SegStart(s, i) + s[i + 1]                 \* exclusive
SegOf(s, h) == CHOOSE i \in 0..2 : SegStart(s, i) <= h /\ h < SegEnd(s, i)     \* for h < Total(s)
IsLastOfSeg(s, h) == h = SegEnd(s, SegOf(s, h)) - 1
IsFirstOfSeg(s, h) == h = SegStart(s, SegOf(s, h))

MatchesS(s, ci, h) == ci = SegOf(s, h)
XoverS(s, h) == IsLastOfSeg(s, h) /\ SegOf(s, h) < NumInf(s) - 1
FirstAfterXoverS(s, h) == IsFirstOfSeg(s, h) /\ SegOf(s, h) > 0
IsFirstS(s, h) == h = 0
IsLastS(s, h) == h = Total(s) - 1
IsPenultS(s, h) == h = Total(s) - 2
\* advancing: to the next hop and its segment, refused at the last hop (pointers stay)
IncS(s, ci, h) == IF h < Total(s) - 1 THEN [err |-> FALSE, hf |-> h + 1, inf |-> SegOf(s, h + 1)]
                                       ELSE [err |-> TRUE, hf |-> h, inf |-> ci]
\* reversing: the non-empty segments in opposite order, pointers mirrored
RevSegS(s) == IF NumInf(s) = 3 THEN <<s[3], s[2], s[1]>>
              ELSE IF NumInf(s) = 2 THEN <<s[2], s[1], 0>> ELSE s
RevS(s, ci, h) == [seg |-> RevSegS(s), inf |-> NumInf(s) - 1 - ci, hf |-> Total(s) - 1 - h]

-----------------------------------------------------------------------------
(* Code shaped. *)
InfForC(s, h) == IF h < s[1] THEN 0 ELSE IF h < s[1] + s[2] THEN 1 ELSE 2
MatchesC(s, ci, h) == ci = InfForC(s, h)
XoverC(s, ci, h) == h + 1 < Total(s) /\ ci # InfForC(s, h + 1)
FirstAfterXoverC(s, ci, h) == ci > 0 /\ h > 0 /\ ci - 1 = InfForC(s, h - 1)
IncC(s, ci, h) == IF h >= Total(s) - 1 THEN [err |-> TRUE, hf |-> Total(s) - 1, inf |-> ci]
                  ELSE [err |-> FALSE, hf |-> h + 1, inf |-> InfForC(s, h + 1)]
\* Decoded.Reverse swaps SegLen[0] and SegLen[NumINF-1]
RevSegC(s) == LET l == NumInf(s) IN
              IF l <= 1 THEN s
              ELSE [i \in 1..3 |-> IF i = 1 THEN s[l] ELSE IF i = l THEN s[1] ELSE s[i]]
RevC(s, ci, h) == [seg |-> RevSegC(s), inf |-> NumInf(s) - ci - 1, hf |-> Total(s) - h - 1]

-----------------------------------------------------------------------------
(* Encodings shared with the driver (harness/cmd/pathmeta): one integer per table cell. *)
B(b) == IF b THEN 1 ELSE 0
\* flags + IncPath outcome of a cell
EncCell(m, x, f, first, last, pen, inc) ==
    B(m) + 2 * B(x) + 4 * B(f) + 8 * B(first) + 16 * B(last) + 32 * B(pen)
    + 64 * B(inc.err) + 128 * inc.inf + 512 * inc.hf
\* a complete meta header
EncMeta(seg, ci, h) == (((seg[1] * 65 + seg[2]) * 65 + seg[3]) * 4 + ci) * 64 + h
EncRev(r) == EncMeta(r.seg, r.inf, r.hf)

\* what the property prescribes for an in-range cell whose ci is the segment of h ...
CellS(s, ci, h) == EncCell(TRUE, XoverS(s, h), FirstAfterXoverS(s, h), IsFirstS(s, h), IsLastS(s, h),
                           IsPenultS(s, h), IncS(s, ci, h))
\* ... and what the code's arithmetic gives for any in-range cell (used as drift reference where
\* ci is NOT the segment of h: the property says nothing about such pointer pairs)
CellC(s, ci, h) == EncCell(MatchesC(s, ci, h), XoverC(s, ci, h), FirstAfterXoverC(s, ci, h), h = 0,
                           h = Total(s) - 1, h = Total(s) - 2, IncC(s, ci, h))
=============================================================================
