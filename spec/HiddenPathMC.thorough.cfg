SPECIFICATION Spec
CONSTANTS
  NCfg = 2
  FullFirst = TRUE
  Gen = TRUE
INVARIANTS StoredWereRegistered ServerOnlyIf
PROPERTIES RegistryOnlyIf
CHECK_DEADLOCK FALSE
