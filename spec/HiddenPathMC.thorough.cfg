SPECIFICATION Spec
CONSTANTS
  NCfg = 3
  FullFirst = TRUE
  Gen = TRUE
INVARIANTS StoredWereRegistered ServerOnlyIf
PROPERTIES RegistryOnlyIf
CHECK_DEADLOCK FALSE
