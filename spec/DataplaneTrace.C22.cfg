SPECIFICATION Spec
CONSTANT Prop = "C22"
CHECK_DEADLOCK FALSE
