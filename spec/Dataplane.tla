--------------------------- MODULE Dataplane ---------------------------
(* Exhaustive model of the honest journeys (C02, C03, C22, C07) with symbolic MACs.

   Three rule sets are written down independently and TLC checks that they agree on every
   combination of every topology family (topologies are read from topos.ndjson, emitted by the
   driver so that model and implementation talk about the same families T1, T2, T3):
     * beaconing   (Beta, Hop, PeerHop: the accumulator an AS uses when it creates a hop field),
     * combination (UpPart, DownPart, Paths: hop order, ConsDir/Peer flags, initial SegID,
                    interface list — by definition, not a transcription of graph.go),
     * forwarding  (DataplaneOps!RouterStep: transcription of the router) and the hosts' path
                    reversal (DataplaneOps!Reverse).
   A journey: a host in src sends along a path, every router applies RouterStep, the destination
   host reverses the path and answers.                                                           *)
EXTENDS DataplaneOps, TLC, Json

CONSTANTS MaxLen,      \* maximum number of AS entries of a segment
          TamperTopos  \* indices of the topologies in which the C04 mutation is explored

Topos == ndJsonDeserialize("topos.ndjson")
NT == Len(Topos)
TT == [i \in 1..NT |-> WithEnds(Topos[i].t)]

ASNames(T) == {T.ases[i].name : i \in DOMAIN T.ases}
IsCore(T, as) == \E i \in DOMAIN T.ases : T.ases[i].name = as /\ T.ases[i].core

Last(s) == s[Len(s)]

\* ------------------------------------------------------------------ beaconing (by definition)
\* a beacon is the sequence of link ends it left through; lt = "child" (intra-ISD) or "core"
Visited(b) == {b[i].as : i \in DOMAIN b} \cup {Last(b).pas}
NextEnds(T, b, lt) == {e \in T.ends : e.as = Last(b).pas /\ e.lt = lt /\ e.pas \notin Visited(b)}
RECURSIVE Beacons(_, _, _)
Beacons(T, lt, n) ==
    IF n = 1 THEN {<<e>> : e \in {e \in T.ends : e.lt = lt /\ IsCore(T, e.as)}}
    ELSE UNION {{Append(b, e) : e \in NextEnds(T, b, lt)} : b \in Beacons(T, lt, n - 1)}
Segs(T, lt) == UNION {Beacons(T, lt, n) : n \in 1..(MaxLen - 1)}

N(b) == Len(b) + 1                                   \* number of AS entries
EAs(b, k) == IF k <= Len(b) THEN b[k].as ELSE Last(b).pas
EIn(b, k) == IF k = 1 THEN 0 ELSE b[k - 1].pif
EEg(b, k) == IF k <= Len(b) THEN b[k]["if"] ELSE 0
Id(b) == [i \in DOMAIN b |-> b[i]["if"]]

Sig(b, k) == <<"sig", Id(b), k>>
Beta(b, k) == {<<"sig", Id(b), 0>>} \cup {Sig(b, j) : j \in 1..(k - 1)}   \* accumulator used to create hop k
Hop(b, k) == [in |-> EIn(b, k), eg |-> EEg(b, k), as |-> EAs(b, k), bc |-> Beta(b, k), ok |-> TRUE,
              ia |-> FALSE, ea |-> FALSE, sig |-> {Sig(b, k)}, x |-> FALSE]
\* peer entries chain to the main hop field like a child: accumulator of hop k+1
PeerHop(b, k, pif) == [in |-> pif, eg |-> EEg(b, k), as |-> EAs(b, k), bc |-> Beta(b, k + 1),
                       ok |-> TRUE, ia |-> FALSE, ea |-> FALSE,
                       sig |-> {<<"psig", Id(b), k * 100000 + pif>>}, x |-> FALSE]
PeerEnds(T, as) == {e \in T.ends : e.as = as /\ e.lt = "peer"}

\* ------------------------------------------------------------------ combination (by definition)
\* part of a segment used against construction direction: entries N(b) down to i;
\* pif # 0: the hop of entry i is its peer entry for peering interface pif
UpHops(b, i, pif) == [m \in 1..(N(b) - i + 1) |->
                        LET k == N(b) + 1 - m IN
                        IF k = i /\ pif # 0 THEN PeerHop(b, k, pif) ELSE Hop(b, k)]
UpInfo(b, i, pif) == [c |-> FALSE, p |-> pif # 0,
                      sid |-> IF pif # 0 /\ i = N(b) THEN Beta(b, N(b) + 1) ELSE Beta(b, N(b))]
\* part of a segment used in construction direction: entries j up to N(b)
DownHops(b, j, pif) == [m \in 1..(N(b) - j + 1) |->
                          LET k == j + m - 1 IN
                          IF k = j /\ pif # 0 THEN PeerHop(b, k, pif) ELSE Hop(b, k)]
DownInfo(b, j, pif) == [c |-> TRUE, p |-> pif # 0,
                        sid |-> IF pif # 0 THEN Beta(b, j + 1) ELSE Beta(b, j)]

\* interfaces crossed, in travel order: leaving an AS through x, entering the next through y.
\* A hop at which the segment is cut by a (non-peering) shortcut is not traversed completely.
IfsOfHops(hops, cons, cutFirst, cutLast) ==
    LET one(m) == LET h == hops[m]
                      i == IF cons THEN h.in ELSE h.eg      \* interface the packet enters through
                      o == IF cons THEN h.eg ELSE h.in      \* interface the packet leaves through
                      ii == IF i # 0 /\ ~(m = 1 /\ cutFirst) THEN <<[as |-> h.as, if |-> i]>> ELSE <<>>
                      oo == IF o # 0 /\ ~(m = Len(hops) /\ cutLast) THEN <<[as |-> h.as, if |-> o]>> ELSE <<>>
                  IN ii \o oo
        RECURSIVE cat(_)
        cat(m) == IF m > Len(hops) THEN <<>> ELSE one(m) \o cat(m + 1)
    IN cat(1)

\* a path is a sequence of parts [hops, info, cutFirst, cutLast]
UpPart(b, i, pif) == [hops |-> UpHops(b, i, pif), info |-> UpInfo(b, i, pif),
                      cutFirst |-> FALSE, cutLast |-> i # 1 /\ pif = 0]
DownPart(b, j, pif) == [hops |-> DownHops(b, j, pif), info |-> DownInfo(b, j, pif),
                        cutFirst |-> j # 1 /\ pif = 0, cutLast |-> FALSE]

RECURSIVE CatHops(_), CatIfs(_)
CatHops(parts) == IF parts = <<>> THEN <<>> ELSE Head(parts).hops \o CatHops(Tail(parts))
CatIfs(parts) == IF parts = <<>> THEN <<>>
                 ELSE LET q == Head(parts) IN
                      IfsOfHops(q.hops, q.info.c, q.cutFirst, q.cutLast) \o CatIfs(Tail(parts))
MkPath(src, dst, parts) ==
    [pkt |-> [src |-> src, dst |-> dst, ci |-> 0, ch |-> 0,
              sl |-> [i \in 1..3 |-> IF i <= Len(parts) THEN Len(parts[i].hops) ELSE 0],
              infos |-> [i \in 1..Len(parts) |-> parts[i].info],
              hops |-> CatHops(parts)],
     ifs |-> CatIfs(parts)]

NotLong(path) == \A i \in DOMAIN path.ifs :
                    Cardinality({j \in DOMAIN path.ifs : path.ifs[j].as = path.ifs[i].as}) <= 2

Paths(T, src, dst) ==
    LET downs == Segs(T, "child")   cores == Segs(T, "core")
        Ups == {b \in downs : Last(b).pas = src}          \* registered by src, used as up segments
        Downs == {b \in downs : Last(b).pas = dst}
        UpCuts == {<<b, i>> \in Ups \X (1..MaxLen) : i < N(b)}
        DownCuts == {<<b, j>> \in Downs \X (1..MaxLen) : j < N(b)}
        CoreIn == {b \in cores : Last(b).pas = src}        \* core segments are used against construction
        up1 == {<<UpPart(c[1], c[2], 0)>> : c \in {c \in UpCuts : EAs(c[1], c[2]) = dst}}
        down1 == {<<DownPart(c[1], c[2], 0)>> : c \in {c \in DownCuts : EAs(c[1], c[2]) = src}}
        core1 == {<<UpPart(b, 1, 0)>> : b \in {b \in CoreIn : b[1].as = dst}}
        updown == {<<UpPart(u[1], u[2], 0), DownPart(d[1], d[2], 0)>> :
                      <<u, d>> \in {ud \in UpCuts \X DownCuts :
                                       EAs(ud[1][1], ud[1][2]) = EAs(ud[2][1], ud[2][2])}}
        upcore == {<<UpPart(u, 1, 0), UpPart(c, 1, 0)>> :
                      <<u, c>> \in {uc \in Ups \X cores : Last(uc[2]).pas = uc[1][1].as /\ uc[2][1].as = dst}}
        coredown == {<<UpPart(c, 1, 0), DownPart(d, 1, 0)>> :
                      <<c, d>> \in {cd \in CoreIn \X Downs : cd[1][1].as = cd[2][1].as}}
        upcoredown == {<<UpPart(x[1], 1, 0), UpPart(x[2], 1, 0), DownPart(x[3], 1, 0)>> :
                      x \in {y \in Ups \X cores \X Downs :
                                Last(y[2]).pas = y[1][1].as /\ y[2][1].as = y[3][1].as}}
        \* peering: entry i of the up segment and entry j of the down segment are the two ends of
        \* one peering link
        UpPeers == {<<b, i, e>> \in Ups \X (1..MaxLen) \X T.ends :
                        i <= N(b) /\ e.lt = "peer" /\ e.as = EAs(b, i)}
        DownPeers == {<<b, j, e>> \in Downs \X (1..MaxLen) \X T.ends :
                        j <= N(b) /\ e.lt = "peer" /\ e.as = EAs(b, j)}
        peering == {<<UpPart(x[1][1], x[1][2], x[1][3]["if"]), DownPart(x[2][1], x[2][2], x[2][3]["if"])>> :
                      x \in {y \in UpPeers \X DownPeers :
                                y[1][3].pas = y[2][3].as /\ y[1][3].pif = y[2][3]["if"]}}
        all == up1 \cup down1 \cup core1 \cup updown \cup upcore \cup coredown \cup upcoredown \cup peering
    IN {pa \in {MkPath(src, dst, parts) : parts \in all} : NotLong(pa)}

\* ------------------------------------------------------------------ journeys
VARIABLES ti, pkt, ifs, loc, leg, k, status, src0, dst0,
          fault,   \* C10: [kind |-> "none" | "down" | "expired" | "alert", as, if]
          tam      \* C04: [on |-> FALSE] or the single alteration applied: [on, kind, h (first dependent hop, 0-based)]
vars == <<ti, pkt, ifs, loc, leg, k, status, src0, dst0, fault, tam>>

NoPkt == [src |-> "", dst |-> "", ci |-> 0, ch |-> 0, sl |-> <<0, 0, 0>>, infos |-> <<>>, hops |-> <<>>]
NoLoc == [as |-> "", r |-> 0, scope |-> "none", inif |-> 0, from |-> 0]

Init == /\ ti \in 1..NT /\ pkt = NoPkt /\ ifs = <<>> /\ loc = NoLoc /\ leg = "none" /\ k = 0
        /\ status = "choose" /\ src0 = "" /\ dst0 = "" /\ tam = [on |-> FALSE, kind |-> "", h |-> 0]
        /\ fault = [kind |-> "none", as |-> "", if |-> 0]

FirstLoc(T, as, path) ==
    \* the host hands the packet to the router that owns the first egress interface
    [as |-> as, r |-> EndOf(T, as, path.ifs[1]["if"]).r, scope |-> "int", inif |-> 0, from |-> 0]

Choose ==
    /\ status = "choose"
    /\ \E s \in ASNames(TT[ti]), d \in ASNames(TT[ti]) :
         /\ s # d
         /\ \E pa \in Paths(TT[ti], s, d) :
              /\ pkt' = pa.pkt /\ ifs' = pa.ifs /\ src0' = s /\ dst0' = d
              /\ loc' = FirstLoc(TT[ti], s, pa)
              /\ leg' = "req" /\ k' = 0 /\ status' = "flight"
    /\ UNCHANGED <<ti, tam, fault>>

LegIfs == IF leg = "rep" THEN Rev(ifs) ELSE ifs
LegDst == IF leg = "rep" THEN src0 ELSE dst0

\* C10: the slow path answers; the answer leaves through the link the packet came in through
Answer(T, res) ==
    /\ pkt' = ScmpReply(loc.as, loc.scope, res.pkt)
    /\ leg' = "scmp" /\ k' = 0
    /\ IF loc.scope = "int" THEN
           /\ status' = (IF loc.as = src0 THEN "scmp-delivered" ELSE "strayed")
           /\ UNCHANGED loc
       ELSE IF loc.scope = "sib" THEN
           /\ loc' = [as |-> loc.as, r |-> loc.from, scope |-> "sib", inif |-> 0, from |-> loc.r]
           /\ UNCHANGED status
       ELSE LET e == EndOf(T, loc.as, loc.inif) IN
           /\ loc' = [as |-> e.pas, r |-> e.pr, scope |-> "ext", inif |-> e.pif, from |-> 0]
           /\ UNCHANGED status

Move(T, res) ==
    /\ pkt' = res.pkt
    /\ IF res.disp # "forward" THEN
           status' = "dropped" /\ UNCHANGED <<loc, k, leg>>
       ELSE IF res.out = "int" THEN
           /\ status' = IF leg = "scmp" THEN (IF loc.as = src0 THEN "scmp-delivered" ELSE "strayed")
                        ELSE IF k = Len(ifs) \div 2 /\ loc.as = LegDst
                        THEN (IF leg = "req" THEN "delivered" ELSE "answered") ELSE "strayed"
           /\ UNCHANGED <<loc, k, leg>>
       ELSE IF leg # "scmp" /\ (k >= Len(ifs) \div 2 \/ loc.as # LegIfs[2 * k + 1].as
                                \/ res.egress # LegIfs[2 * k + 1]["if"]) THEN
           status' = "strayed" /\ UNCHANGED <<loc, k, leg>>
       ELSE IF res.out = "sib" THEN
           /\ loc' = [as |-> loc.as, r |-> EndOf(T, loc.as, res.egress).r, scope |-> "sib",
                      inif |-> 0, from |-> loc.r]
           /\ UNCHANGED <<status, k, leg>>
       ELSE LET e == EndOf(T, loc.as, res.egress) IN
           /\ loc' = [as |-> e.pas, r |-> e.pr, scope |-> "ext", inif |-> e.pif, from |-> 0]
           /\ k' = k + 1
           /\ status' = IF leg = "scmp" \/ (e.pas = LegIfs[2 * k + 2].as /\ e.pif = LegIfs[2 * k + 2]["if"])
                        THEN "flight" ELSE "strayed"
           /\ UNCHANGED leg

Step ==
    /\ status = "flight"
    /\ LET T == TT[ti]
           down == IF fault.kind = "down" /\ fault.as = loc.as /\ leg = "req" THEN {fault["if"]} ELSE {}
           res == RouterStep(T, loc.as, loc.r, loc.scope, loc.inif, loc.from, down, pkt)
       IN IF res.disp = "slow" /\ fault.kind # "none" /\ leg = "req"
          THEN Answer(T, res) ELSE Move(T, res)
    /\ UNCHANGED <<ti, ifs, src0, dst0, tam, fault>>

\* C10: one fault on a valid path, chosen before the packet leaves: an on-path egress interface is
\* down, every hop field of one on-path AS is expired, or (traceroute) one on-path interface is
\* flagged with a router alert
InjectFault ==
    /\ status = "flight" /\ leg = "req" /\ k = 0 /\ pkt.ch = 0 /\ loc.scope = "int"
    /\ fault.kind = "none" /\ ~tam.on /\ ti \in TamperTopos
    /\ \/ \E x \in {y \in DOMAIN ifs : y % 2 = 1} :
            /\ fault' = [kind |-> "down", as |-> ifs[x].as, if |-> ifs[x]["if"]]
            /\ UNCHANGED pkt
       \/ \E a \in {ifs[y].as : y \in DOMAIN ifs} :
            /\ fault' = [kind |-> "expired", as |-> a, if |-> 0]
            /\ pkt' = [pkt EXCEPT !.hops = [m \in DOMAIN pkt.hops |->
                          IF pkt.hops[m].as = a THEN [pkt.hops[m] EXCEPT !.x = TRUE] ELSE pkt.hops[m]]]
       \/ \E x \in DOMAIN ifs, m \in DOMAIN pkt.hops :
            /\ pkt.hops[m].as = ifs[x].as
            /\ ifs[x]["if"] \in {pkt.hops[m].in, pkt.hops[m].eg}
            /\ fault' = [kind |-> "alert", as |-> ifs[x].as, if |-> ifs[x]["if"]]
            /\ pkt' = [pkt EXCEPT !.hops[m] = IF ifs[x]["if"] = @.in THEN [@ EXCEPT !.ia = TRUE]
                                                ELSE [@ EXCEPT !.ea = TRUE]]
    /\ UNCHANGED <<ti, ifs, loc, leg, k, status, src0, dst0, tam>>

\* C04: somebody on the way alters ONE MAC-protected value of a hop or info field that no router
\* has validated yet.  Symbolically: an altered ConsIngress/ConsEgress/ExpTime/MAC makes the hop's
\* MAC invalid for its fields (ok = FALSE; for the interfaces the value itself changes too); an
\* altered Timestamp invalidates every hop of the segment; an altered SegID is an accumulator that
\* no hop was created with.
SegStart(p, i) == IF i = 0 THEN 0 ELSE IF i = 1 THEN p.sl[1] ELSE p.sl[1] + p.sl[2]
FreshVisit == loc.scope \in {"int", "ext"}     \* not the second router of the same AS
Junk == {<<"junk", <<>>, 0>>}
TamperAct ==
    /\ status = "flight" /\ leg = "req" /\ ~tam.on /\ ti \in TamperTopos /\ fault.kind = "none"
    /\ \/ \E h \in 0..(NumHops(pkt) - 1), kind \in {"mac", "in", "eg"} :
            /\ h > pkt.ch \/ (h = pkt.ch /\ FreshVisit)
            /\ pkt' = [pkt EXCEPT !.hops[h + 1] =
                          IF kind = "mac" THEN [@ EXCEPT !.ok = FALSE]
                          ELSE IF kind = "in" THEN [@ EXCEPT !.ok = FALSE, !.in = @ + 1000]
                          ELSE [@ EXCEPT !.ok = FALSE, !.eg = @ + 1000]]
            /\ tam' = [on |-> TRUE, kind |-> kind, h |-> h]
       \/ \E i \in 0..(NumInf(pkt) - 1), kind \in {"segid", "ts"} :
            /\ i > pkt.ci \/ (i = pkt.ci /\ pkt.ch = SegStart(pkt, i) /\ FreshVisit)
            /\ pkt' = IF kind = "segid" THEN [pkt EXCEPT !.infos[i + 1].sid = Junk]
                       ELSE [pkt EXCEPT !.hops = [m \in DOMAIN pkt.hops |->
                                IF InfIdx(pkt, m - 1) = i THEN [pkt.hops[m] EXCEPT !.ok = FALSE]
                                ELSE pkt.hops[m]]]
            /\ tam' = [on |-> TRUE, kind |-> kind, h |-> SegStart(pkt, i)]
    /\ UNCHANGED <<ti, ifs, loc, leg, k, status, src0, dst0, fault>>

\* the destination host reverses the path of the packet it received and answers through the router
\* that delivered it
HostReverse ==
    /\ status = "delivered"
    /\ pkt' = Reverse(pkt)
    /\ loc' = [loc EXCEPT !.scope = "int", !.inif = 0, !.from = 0]
    /\ leg' = "rep" /\ k' = 0 /\ status' = "flight"
    /\ UNCHANGED <<ti, ifs, src0, dst0, tam, fault>>

Next == Choose \/ Step \/ HostReverse \/ TamperAct \/ InjectFault
Spec == Init /\ [][Next]_vars

\* ------------------------------------------------------------------ properties
\* C02 + C03: no honest request or reply is dropped or leaves the interface list of its path
Honest == ~tam.on /\ fault.kind = "none" => status \notin {"dropped", "strayed"}
\* C10: an answer of a slow path is forwarded by every router and handed to a host of the source AS;
\* a flagged traceroute request never reaches the destination unanswered
AnswersComeBack == /\ (leg = "scmp" => status \notin {"dropped", "strayed"})
                   /\ (fault.kind = "alert" => status \notin {"delivered", "dropped", "strayed"})
\* C04: a tampered packet is never handed to the destination host and does not survive the router
\* that validates the first hop field depending on the altered value
NoDeliveryAfterTamper == tam.on => /\ status \notin {"delivered", "answered"}
                                   /\ (status = "flight" => pkt.ch <= tam.h)
\* C07 (frame): a router changes only pointers and segment identifiers
Frame == [][status = "flight" /\ status' # "choose" /\ leg' = leg /\ tam' = tam /\ fault' = fault =>
              pkt'.hops = pkt.hops /\ pkt'.src = pkt.src /\ pkt'.dst = pkt.dst /\ pkt'.sl = pkt.sl
              /\ \A i \in DOMAIN pkt.infos : pkt'.infos[i].c = pkt.infos[i].c /\ pkt'.infos[i].p = pkt.infos[i].p]_vars
\* C22: the accumulator in force when a router validates the current hop is its construction value
\* (what RouterStep's MacOK demands); stated directly on the states in flight
InForce(p, as, inif) ==
    LET i == CurInf(p) h == CurHop(p) IN
    IF ~i.c /\ inif # 0 /\ ~PeerOf(p) THEN Upd(i.sid, h.sig) ELSE i.sid
SegIDInSync == status = "flight" /\ ~tam.on /\ leg # "scmp" => InForce(pkt, loc.as, loc.inif) = CurHop(pkt).bc
\* every journey ends: reply delivered
Done == <>(status = "answered")
=============================================================================
