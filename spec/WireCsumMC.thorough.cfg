SPECIFICATION Spec
CONSTANTS
  ByteVals <- BytesThorough
  MaxPayload = 4
  AddrVecs <- AddrThorough
  OddTail = TRUE
INVARIANTS TypeOK SumIsFFFF FlipsDetected OnlyTwinVerifies
CHECK_DEADLOCK FALSE
