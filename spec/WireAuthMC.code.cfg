SPECIFICATION Spec
CONSTANTS
  TcCode = TRUE
  Fills = {90}
INVARIANTS Exact
CHECK_DEADLOCK FALSE
