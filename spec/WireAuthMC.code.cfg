SPECIFICATION Spec
CONSTANTS
  TcCode = TRUE
  PathKinds = {"empty", "scion1"}
  Fills = {90}
INVARIANTS Exact
CHECK_DEADLOCK FALSE
