SPECIFICATION Spec
CONSTANTS
  N = 3
  MaxMut = 2
INVARIANTS OnlyPrefixesVerify PrefixesVerify
CHECK_DEADLOCK FALSE
