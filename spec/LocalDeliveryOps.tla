-------------------------- MODULE LocalDeliveryOps --------------------------
(* C11 — the underlay destination of a packet delivered in the destination AS.

     "The router in the destination AS sends a packet for an IP host to the layer-4 port derived
      from the packet (UDP or TCP destination port, SCMP echo/traceroute reply identifier, quoted UDP
      source port of an SCMP error) if that port lies in the AS's configured dispatched-port range,
      and to the default end-host port 30041 otherwise.  Packets for a service address go to the
      address and port of a registered instance of that service."

   kind  : what the packet is — "udp" | "tcp" | "echo-reply" | "tr-reply" | "err-udp" (SCMP error
           quoting a UDP packet) | "err-echo" | "err-tr" (SCMP error quoting an echo / traceroute
           request) | "echo-request" | "tr-request" | "other-l4" | "err-cut-noport" | "err-cut-port" |
           "err-tcp" (see NoPort / Partial below)
   field : the port / identifier that kind carries
   [lo, hi] : the range in force (RouterConfigOps!Effective of topology value and override)      *)
EXTENDS RouterConfigOps

Derives   == {"udp", "tcp", "echo-reply", "tr-reply", "err-udp"}   \* the statement's list
QuotedId  == {"err-echo", "err-tr"}   \* design document: quoted identifier; not in the statement
Defaults  == {"echo-request", "tr-request", "other-l4"}
\* SCMP errors whose quote is cut short: "err-cut-noport" the quoted packet ends before the two bytes of
\* the UDP source port, "err-cut-port" the source port is there but the UDP header is incomplete;
\* "err-tcp" an error quoting a TCP segment.  The statement names no port for them: such packets may be
\* dropped; if delivered, only the default port (or, where a source port is present, its Final) will do.
NoPort    == {"err-cut-noport"}
Partial   == {"err-cut-port", "err-tcp"}
Kinds     == Derives \cup QuotedId \cup Defaults \cup NoPort \cup Partial

InRange(p, lo, hi) == lo <= p /\ p <= hi
Final(p, lo, hi) == IF InRange(p, lo, hi) THEN p ELSE EndhostPort

(* The set of underlay ports the statement allows.  Two deliberate weakenings (so that code keeping
   the property is never flagged): the non-port 0 under a range that starts at 0 (the encoding of
   the empty range "-" is 0..0) may stay 0 or go to 30041; for errors quoting an echo / traceroute
   request, the quoted identifier (design document) or the default port are both accepted.       *)
AllowedPorts(kind, field, lo, hi) ==
    IF kind \in Derives THEN {Final(field, lo, hi)} \cup (IF field = 0 /\ lo = 0 THEN {EndhostPort} ELSE {})
    ELSE IF kind \in QuotedId \cup Partial THEN {Final(field, lo, hi), EndhostPort}
    ELSE {EndhostPort}

PortWhy(kind, field, lo, hi, got) ==
    IF got = field /\ ~InRange(field, lo, hi) THEN "out-of-range-not-redirected"
    ELSE IF got = EndhostPort /\ InRange(field, lo, hi) THEN "in-range-redirected"
    ELSE "other-port"
=============================================================================
