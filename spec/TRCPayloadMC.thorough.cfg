SPECIFICATION Spec
CONSTANTS
  Depth = 2
  DeepIds = {1, 2, 3, 4}
  BaseIds = {1, 2, 3, 4, 5}
  BigQuorums = {0, 1, 2, 3, 255, 256}
  QuorumLowerBound = TRUE
  EmitScenarios = TRUE
INVARIANTS CodeSound RuleConsistent CodeComplete Emit
VIEW View
CHECK_DEADLOCK FALSE
