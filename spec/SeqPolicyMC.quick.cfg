INIT Init
NEXT Next
CONSTANTS
  MaxSize = 4
  MaxLen = 3
  Leaves <- McLeaves
  Hops <- McHops
  Directed <- DirectedMC
INVARIANTS SizeBound SemanticsAgree TextualNeverWider CodeShapeAgrees AclReadingsAgree
CHECK_DEADLOCK FALSE
