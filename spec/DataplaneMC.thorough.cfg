SPECIFICATION Spec
CONSTANTS
  MaxLen = 4
  TamperTopos = {1, 2, 3}
INVARIANTS Honest SegIDInSync NoDeliveryAfterTamper AnswersComeBack
PROPERTIES Frame
CHECK_DEADLOCK FALSE
