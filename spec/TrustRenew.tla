------------------------------ MODULE TrustRenew ------------------------------
(* C37: the case space for renewal requests: TRC time lines x included chain x signer infos x CSR,
   and for CAPolicy.CreateChain: signing time x requested validity around the CA certificate's
   validity.  In-model: the procedure shaped like RequestVerifier.VerifyCMSSignedRenewalRequest
   accepts only what RenewRule (from the statement) allows.  Every case is a scenario.          *)
EXTENDS TrustStoreOps, TLC, Json

CONSTANTS TimelineIds

Cert(id, kind, signer, nb, na, ia) == [id |-> id, kind |-> kind, signer |-> signer, nb |-> nb, na |-> na, ia |-> ia, key |-> 0]
Pool == <<
    Cert(1, "root", 1, -400, 400, 1), Cert(2, "root", 2, -400, 400, 1), Cert(3, "root", 3, -400, 400, 1),
    Cert(4, "ca", 1, -300, 350, 1), Cert(5, "ca", 2, -300, 350, 1), Cert(6, "ca", 3, -300, 350, 1),
    Cert(7, "as", 4, -20, 20, 2),        \* the client's chain under the old root
    Cert(8, "as", 5, -20, 20, 2),        \* ... under the new root
    Cert(9, "as", 6, -20, 20, 2),        \* ... under an unknown root
    Cert(10, "as", 5, -20, -3, 2),       \* expired
    Cert(11, "as", 5, -20, 20, 3)        \* another AS
>>
Certs == [i \in 1..Len(Pool) |-> Pool[i]]
Timelines == <<
    [nb1 |-> -100, na1 |-> 100, nb2 |-> 5, na2 |-> 200, grace |-> 10, two |-> TRUE],     \* latest not yet valid
    [nb1 |-> -100, na1 |-> 100, nb2 |-> -5, na2 |-> 200, grace |-> 10, two |-> TRUE],    \* in grace
    [nb1 |-> -100, na1 |-> -2, nb2 |-> -5, na2 |-> 200, grace |-> 10, two |-> TRUE],     \* in grace, S1 expired
    [nb1 |-> -100, na1 |-> 100, nb2 |-> -5, na2 |-> 200, grace |-> 3, two |-> TRUE],     \* grace over
    [nb1 |-> -100, na1 |-> 100, nb2 |-> -5, na2 |-> 200, grace |-> 0, two |-> TRUE],     \* no grace
    [nb1 |-> -100, na1 |-> 100, nb2 |-> -50, na2 |-> -3, grace |-> 100, two |-> TRUE],   \* latest expired
    [nb1 |-> -100, na1 |-> 100, nb2 |-> 0, na2 |-> 0, grace |-> 0, two |-> FALSE],       \* base TRC only, valid
    [nb1 |-> -100, na1 |-> -4, nb2 |-> 0, na2 |-> 0, grace |-> 0, two |-> FALSE]         \* base TRC only, expired
>>
LatestT(tl) == IF tl.two THEN [serial |-> 2, base |-> 1, nb |-> tl.nb2, na |-> tl.na2, grace |-> tl.grace, roots |-> {2}]
               ELSE [serial |-> 1, base |-> 1, nb |-> tl.nb1, na |-> tl.na1, grace |-> 0, roots |-> {1}]
PredT(tl) == [serial |-> 1, base |-> 1, nb |-> tl.nb1, na |-> tl.na1, grace |-> 0, roots |-> {1}]

Chains == {<<8, 5>>, <<7, 4>>, <<9, 6>>, <<10, 5>>, <<11, 5>>, <<5, 8>>, <<4, 7>>, <<8>>, <<8, 5, 2>>, <<8, 4>>, <<5, 4>>}
SI(sid, key, pl) == [sid |-> sid, key |-> key, pl |-> pl]
\* signer info sets for a chain whose AS certificate is a and CA certificate is c
SisFor(a, c) == {<<SI(a, a, "csr")>>, <<>>, <<SI(a, a, "csr"), SI(a, a, "csr")>>, <<SI(a, a, "csr"), SI(c, c, "csr")>>,
                 <<SI(c, c, "csr")>>, <<SI(a, 11, "csr")>>, <<SI(a, a, "other")>>, <<SI(11, 11, "csr")>>, <<SI(a, c, "csr")>>,
                 <<SI(c, a, "csr")>>}     \* identifier names the CA certificate, signature made with the AS key
CSRs == {[ia |-> 2, selfsig |-> TRUE], [ia |-> 3, selfsig |-> TRUE], [ia |-> 2, selfsig |-> FALSE], [ia |-> 0, selfsig |-> TRUE]}
ASOf(ch) == IF \E i \in 1..Len(ch) : Pool[ch[i]].kind = "as" THEN ch[CHOOSE i \in 1..Len(ch) : Pool[ch[i]].kind = "as"] ELSE 8
CAOf(ch) == IF \E i \in 1..Len(ch) : Pool[ch[i]].kind = "ca" THEN ch[CHOOSE i \in 1..Len(ch) : Pool[ch[i]].kind = "ca"] ELSE 5

IssueTimes == {-1, 0, 1, 50, 99, 100, 101}
IssueDurations == {0, 1, 50, 100, 101}

VARIABLES cs
vars == <<cs>>
Init == cs = [kind |-> "init"]
PickReq == \E i \in TimelineIds, ch \in Chains, csr \in CSRs : \E sis \in SisFor(ASOf(ch), CAOf(ch)) :
              cs' = [kind |-> "renew", tl |-> i, chain |-> ch, sis |-> sis, csr |-> csr]
PickIssue == \E t \in IssueTimes, d \in IssueDurations : cs' = [kind |-> "issue", t |-> t, d |-> d]
Next == cs.kind = "init" /\ (PickReq \/ PickIssue)
Spec == Init /\ [][Next]_vars

-----------------------------------------------------------------------------
\* shape of VerifyCMSSignedRenewalRequest: ExtractChain, VerifySignature (single signer info,
\* FindCertificate, signer = chain[0], verifyClientChain, signature), processCSR
CodeVerifyChain(ch, T) ==
    /\ Pool[ch[1]].signer = ch[2] /\ Pool[ch[2]].signer \in T.roots
    /\ \A i \in {ch[1], ch[2], Pool[ch[2]].signer} : ValidAt(Pool[i], 0)
CodeAccept(tl, req) ==
    LET ch == NormChain(Certs, req.chain)
        L == LatestT(tl) IN
    /\ Len(req.chain) = 2 /\ Pool[ch[1]].kind = "as" /\ Pool[ch[2]].kind = "ca"
    /\ Pool[ch[2]].nb <= Pool[ch[1]].nb /\ Pool[ch[1]].na <= Pool[ch[2]].na
    /\ Len(req.sis) = 1
    /\ req.sis[1].sid = ch[1]
    /\ L.nb <= 0 /\ 0 <= L.na
    /\ \/ CodeVerifyChain(ch, L)
       \/ /\ ~(0 > L.nb + L.grace) /\ L.serial # L.base
          /\ PredT(tl).nb <= 0 /\ 0 <= PredT(tl).na /\ CodeVerifyChain(ch, PredT(tl))
    /\ req.sis[1].pl = "csr" /\ req.sis[1].key = ch[1]
    /\ req.csr.ia # 0 /\ req.csr.ia = Pool[ch[1]].ia
    /\ req.csr.selfsig

Sound == cs.kind = "renew" =>
           LET tl == Timelines[cs.tl]
               req == [chain |-> cs.chain, sis |-> cs.sis, csr |-> cs.csr] IN
           CodeAccept(tl, req) => RenewRule(Certs, req, LatestT(tl), PredT(tl), tl.two, 0) = ""

Emit == cs.kind # "init" =>
          PrintT(<<"SCN", ToJson(IF cs.kind = "renew" THEN [cs EXCEPT !.tl = Timelines[cs.tl]] ELSE cs)>>)
ASSUME PrintT(<<"POOL", ToJson(Pool)>>)
=============================================================================
