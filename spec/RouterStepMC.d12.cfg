SPECIFICATION Spec
CONSTANTS
  Cfg <- CfgAasfound
  Kinds = {"epic"}
  Shapes <- ShapesXo
  Vias = {0, 1, 3}
  SrcDom = {"L", "F"}
  DstDom = {"L", "F"}
  Faults = {"none"}
  L4Dom = {"udp"}
  InSideDom = {0, 1, 2, 3, 999}
  EgSideDom = {0, 1, 2, 3, 999}
  PeerDom = {FALSE}
  ExpDom = {FALSE}
  AuthDom <- Auth3
  AlertDom <- NoAlert
  EpicDom <- EpicAll
INVARIANTS InvC13
\* no scenarios
CHECK_DEADLOCK FALSE
