SPECIFICATION Spec
CONSTANTS
  Cfg <- CfgAasfound
  Kinds = {"epic"}
  Shapes <- ShapesXo
  Vias = {1}
  SrcDom = {"F"}
  DstDom = {"F"}
  Faults = {"none"}
  L4Dom = {"udp"}
  InSideDom = {1, 999}
  EgSideDom = {2, 3}
  PeerDom = {FALSE}
  ExpDom = {FALSE}
  AuthDom <- Auth3
  AlertDom <- NoAlert
  EpicDom <- EpicAll
INVARIANTS InvC13
\* no scenarios
CHECK_DEADLOCK FALSE
