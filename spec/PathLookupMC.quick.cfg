SPECIFICATION Spec
CONSTANTS
  CoreCfg = "one"
  MaxStore = 5
  MaxDead = 1
  MaxRev = 1
  MaxBad = 0
  MaxExtra = 0
INVARIANTS Sound LocalEmpty Sufficient OnlyVerified
CHECK_DEADLOCK FALSE
