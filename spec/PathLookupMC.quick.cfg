SPECIFICATION Spec
CONSTANTS
  CoreCfg = "one"
  MaxStore = 5
  MaxDead = 1
  MaxRev = 1
INVARIANTS Sound LocalEmpty Sufficient
CHECK_DEADLOCK FALSE
