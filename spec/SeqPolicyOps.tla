---------------------------- MODULE SeqPolicyOps ----------------------------
(* Pure operators for C47 (private/path/pathpol): the language of a path-policy sequence expression,
   hop-predicate matching, ACL and policy filters.  Single source of truth shared by the exhaustive
   model / scenario generator (SeqPolicy.tla) and the trace specification (SeqPolicyTrace.tla).

   Abstract values
     AS      <<g1, g2, g3>>  three 16-bit groups (numeric value g1*2^32 + g2*2^16 + g3);
             <<0,0,0>> is the wildcard.  Equality of triples = numeric equality of AS numbers.
     hop     [isd, as, in, out]          one AS on the path with ingress / egress interface
     pred    [isd, as, sp, form, i1, i2] hop predicate;  form 0: "ISD", 1: "ISD-AS", 2: "ISD-AS#i1",
             3: "ISD-AS#i1,i2";  sp is the *spelling* of the AS in the expression text
             ("dec" decimal, "hexl"/"hexu"/"hexm" hex groups in lower / upper / mixed case): it does
             not take part in the meaning (numeric comparison), only in the code-shaped variant.
     ast     [t |-> "hop", p |-> pred] | [t |-> "cat"|"or", a, b] | [t |-> "opt"|"plus"|"star", a]
             (+ the internal [t |-> "eps"], [t |-> "empty"])                                     *)
EXTENDS Integers, Sequences, FiniteSets

WildAS == <<0, 0, 0>>

IfOk(x, v) == x = 0 \/ x = v

-----------------------------------------------------------------------------
(* Spelling: what IA.String() prints is decimal below 2^32 and lower-case hex groups above. *)
NibbleIsLetter(n) == n >= 10
GroupHasLetter(g) == \/ NibbleIsLetter(g \div 4096)
                     \/ NibbleIsLetter((g \div 256) % 16)
                     \/ NibbleIsLetter((g \div 16) % 16)
                     \/ NibbleIsLetter(g % 16)
HasLetters(as) == GroupHasLetter(as[1]) \/ GroupHasLetter(as[2]) \/ GroupHasLetter(as[3])

IsBgpAS(as) == as[1] = 0

CanonicalSpelling(p) ==
    IF p.form = 0 \/ p.as = WildAS THEN TRUE
    ELSE IF IsBgpAS(p.as) THEN p.sp = "dec"
    ELSE p.sp = "hexl" \/ (p.sp \in {"hexu", "hexm"} /\ ~HasLetters(p.as))

\* the class of a non-canonical spelling (part of the finding key)
SpellingClass(p) ==
    IF CanonicalSpelling(p) THEN "canonical"
    ELSE IF IsBgpAS(p.as) THEN "bgp-as-in-hex"
    ELSE IF p.sp = "dec" THEN "large-as-in-decimal"
    ELSE "hex-upper-case"

-----------------------------------------------------------------------------
(* Hop predicate.  mode "num": the property (numeric comparison of ISD, AS, interfaces);
   mode "txt": shaped like the unrepaired code, where the AS text of the expression is compared with
   the canonical text of the hop's AS, i.e. a non-canonically spelled AS never matches.         *)
HopMatch(p, h, mode) ==
    /\ IfOk(p.isd, h.isd)
    /\ \/ p.form = 0
       \/ p.as = WildAS
       \/ (p.as = h.as /\ (mode = "num" \/ CanonicalSpelling(p)))
    /\ CASE p.form <= 1 -> TRUE
         [] p.form = 2 -> p.i1 = 0 \/ p.i1 = h.in \/ p.i1 = h.out
         [] OTHER      -> IfOk(p.i1, h.in) /\ IfOk(p.i2, h.out)

-----------------------------------------------------------------------------
(* Language membership by Brzozowski derivatives (no regular-expression engine involved). *)
Eps == [t |-> "eps"]
Empty == [t |-> "empty"]

MkCat(a, b) == IF a.t = "empty" \/ b.t = "empty" THEN Empty
               ELSE IF a.t = "eps" THEN b
               ELSE IF b.t = "eps" THEN a
               ELSE [t |-> "cat", a |-> a, b |-> b]
MkOr(a, b) == IF a.t = "empty" THEN b ELSE IF b.t = "empty" THEN a ELSE [t |-> "or", a |-> a, b |-> b]
MkStar(a) == [t |-> "star", a |-> a]

RECURSIVE Nullable(_)
Nullable(r) == CASE r.t = "eps" -> TRUE
                 [] r.t = "empty" -> FALSE
                 [] r.t = "hop" -> FALSE
                 [] r.t = "cat" -> Nullable(r.a) /\ Nullable(r.b)
                 [] r.t = "or" -> Nullable(r.a) \/ Nullable(r.b)
                 [] r.t = "opt" -> TRUE
                 [] r.t = "star" -> TRUE
                 [] r.t = "plus" -> Nullable(r.a)

RECURSIVE Deriv(_, _, _)
Deriv(r, h, mode) ==
    CASE r.t = "eps" -> Empty
      [] r.t = "empty" -> Empty
      [] r.t = "hop" -> IF HopMatch(r.p, h, mode) THEN Eps ELSE Empty
      [] r.t = "cat" -> LET left == MkCat(Deriv(r.a, h, mode), r.b) IN
                        IF Nullable(r.a) THEN MkOr(left, Deriv(r.b, h, mode)) ELSE left
      [] r.t = "or" -> MkOr(Deriv(r.a, h, mode), Deriv(r.b, h, mode))
      [] r.t = "opt" -> Deriv(r.a, h, mode)
      [] r.t = "star" -> MkCat(Deriv(r.a, h, mode), r)
      [] r.t = "plus" -> MkCat(Deriv(r.a, h, mode), MkStar(r.a))

RECURSIVE MatchesFrom(_, _, _, _)
MatchesFrom(r, hops, i, mode) ==
    IF r.t = "empty" THEN FALSE
    ELSE IF i > Len(hops) THEN Nullable(r)
    ELSE MatchesFrom(Deriv(r, hops[i], mode), hops, i + 1, mode)

\* the property: the path is kept iff Matches(ast, hops, "num")
Matches(r, hops, mode) == MatchesFrom(r, hops, 1, mode)

-----------------------------------------------------------------------------
(* The textbook denotational definition, used only in the exhaustive model to validate the oracle
   above (SeqPolicy.tla, invariant SemanticsAgree). *)
RECURSIVE InLang(_, _, _)
InLang(r, w, mode) ==
    LET n == Len(w)
        Pre(k) == SubSeq(w, 1, k)
        Suf(k) == SubSeq(w, k + 1, n) IN
    CASE r.t = "eps" -> n = 0
      [] r.t = "empty" -> FALSE
      [] r.t = "hop" -> n = 1 /\ HopMatch(r.p, w[1], mode)
      [] r.t = "cat" -> \E k \in 0..n : InLang(r.a, Pre(k), mode) /\ InLang(r.b, Suf(k), mode)
      [] r.t = "or" -> InLang(r.a, w, mode) \/ InLang(r.b, w, mode)
      [] r.t = "opt" -> n = 0 \/ InLang(r.a, w, mode)
      [] r.t = "star" -> n = 0 \/ \E k \in 1..n : InLang(r.a, Pre(k), mode) /\ InLang(r, Suf(k), mode)
      [] r.t = "plus" -> \/ InLang(r.a, w, mode)
                         \/ \E k \in 1..(n - 1) : InLang(r.a, Pre(k), mode) /\ InLang(r, Suf(k), mode)

-----------------------------------------------------------------------------
(* AST helpers (keys, statistics). *)
RECURSIVE Preds(_)
Preds(r) == CASE r.t = "hop" -> {r.p}
              [] r.t \in {"cat", "or"} -> Preds(r.a) \cup Preds(r.b)
              [] r.t \in {"opt", "star", "plus"} -> Preds(r.a)
              [] OTHER -> {}

RECURSIVE Ops(_)
Ops(r) == CASE r.t \in {"cat", "or"} -> {r.t} \cup Ops(r.a) \cup Ops(r.b)
            [] r.t \in {"opt", "star", "plus"} -> {r.t} \cup Ops(r.a)
            [] OTHER -> {}

OpsKey(r) == LET o == Ops(r) IN
    (IF "cat" \in o THEN "c" ELSE "") \o (IF "or" \in o THEN "o" ELSE "") \o
    (IF "opt" \in o THEN "q" ELSE "") \o (IF "plus" \in o THEN "p" ELSE "") \o
    (IF "star" \in o THEN "s" ELSE "")

SpellingKey(r) == LET c == {SpellingClass(p) : p \in Preds(r)} IN
    (IF "bgp-as-in-hex" \in c THEN "+bgp-hex" ELSE "") \o
    (IF "large-as-in-decimal" \in c THEN "+large-dec" ELSE "") \o
    (IF "hex-upper-case" \in c THEN "+hex-upper" ELSE "")

-----------------------------------------------------------------------------
(* Paths as the ACL sees them: the interface list of snet.PathMetadata.  A path of n >= 2 hops has
   2(n-1) interfaces: egress of hop 1, (ingress, egress) of the middle hops, ingress of hop n.
   iface = [isd, as, id, ingress]                                                              *)
Ifaces(hops) ==
    LET n == Len(hops)
        One(k) == \* k-th interface, 1-based; interface 2j-1 is the egress of hop j, 2j the ingress of hop j+1
            IF k % 2 = 1
              THEN LET h == hops[(k + 1) \div 2] IN [isd |-> h.isd, as |-> h.as, id |-> h.out, ingress |-> FALSE]
              ELSE LET h == hops[k \div 2 + 1] IN [isd |-> h.isd, as |-> h.as, id |-> h.in, ingress |-> TRUE]
    IN IF n < 2 THEN <<>> ELSE [k \in 1..(2 * (n - 1)) |-> One(k)]

\* ACL entry = [allow |-> BOOLEAN, p |-> pred]; an ACL is a sequence whose last entry matches all.
\* Interface-level reading (hop_pred.go: pathIFMatch): a predicate with two interfaces applies its
\* first to ingress and its second to egress interfaces; with one interface to both.
IfaceMatch(p, f) ==
    /\ IfOk(p.isd, f.isd)
    /\ (p.form = 0 \/ p.as = WildAS \/ p.as = f.as)
    /\ CASE p.form <= 1 -> TRUE
         [] p.form = 2 -> IfOk(p.i1, f.id)
         [] OTHER -> IF f.ingress THEN IfOk(p.i1, f.id) ELSE IfOk(p.i2, f.id)

\* action of the first entry whose predicate satisfies M; deny if none (a valid ACL ends with a catch-all)
FirstAction(acl, M(_)) ==
    LET idx == {i \in 1..Len(acl) : M(acl[i].p)} IN
    IF idx = {} THEN FALSE ELSE acl[CHOOSE i \in idx : \A j \in idx : i <= j].allow

AclAcceptIface(acl, hops) ==
    LET fs == Ifaces(hops) IN
    \A k \in 1..Len(fs) : LET M(p) == IfaceMatch(p, fs[k]) IN FirstAction(acl, M)

\* Hop-level reading of the documentation ("if a deny entry matches any hop ... first matched entry wins")
AclAcceptHop(acl, hops) ==
    \A k \in 1..Len(hops) : LET M(p) == HopMatch(p, hops[k], "num") IN FirstAction(acl, M)

-----------------------------------------------------------------------------
(* Policy definitions with inheritance (pathpol.ExtPolicy -> Policy) and the ISD-AS filters.
   def   [acl (<<>>: unset), seq ([t |-> "none"]: unset), opts (<<>>: unset), local (<<>>: unset; list of
         [isd, as]), remote (<<>>: unset; list of [isd, as, rej]), ext (indices into the pool of named
         definitions, in the order of the `extends` list)]
   An attribute set in the extending policy wins; otherwise the last policy of the extends list that has
   it wins; extended policies are resolved recursively.                                         *)
NoSeqDef == [t |-> "none"]

MergeDef(p, q) == [acl |-> IF Len(p.acl) = 0 THEN q.acl ELSE p.acl,
                   seq |-> IF p.seq.t = "none" THEN q.seq ELSE p.seq,
                   opts |-> IF Len(p.opts) = 0 THEN q.opts ELSE p.opts,
                   local |-> IF Len(p.local) = 0 THEN q.local ELSE p.local,
                   remote |-> IF Len(p.remote) = 0 THEN q.remote ELSE p.remote,
                   ext |-> <<>>]

RECURSIVE ResolveDef(_, _)
RECURSIVE ApplyExt(_, _, _, _)
ResolveDef(p, pool) == ApplyExt(p, p.ext, pool, Len(p.ext))
ApplyExt(p, ext, pool, i) ==      \* traverse the extends list from its end, so that the last entry has precedence
    IF i = 0 THEN [p EXCEPT !.ext = <<>>]
    ELSE ApplyExt(MergeDef(p, ResolveDef(pool[ext[i]], pool)), ext, pool, i - 1)

SrcIA(hops) == [isd |-> hops[1].isd, as |-> hops[1].as]
DstIA(hops) == [isd |-> hops[Len(hops)].isd, as |-> hops[Len(hops)].as]

\* LocalISDAS: the first hop (local AS) belongs to the set; strict = the code also drops paths whose source
\* and destination AS coincide (and the empty path)
LocalAccept(local, hops, strict) ==
    \/ Len(local) = 0
    \/ /\ Len(hops) > 0
       /\ \E k \in 1..Len(local) : local[k].isd = SrcIA(hops).isd /\ local[k].as = SrcIA(hops).as
       /\ (strict => SrcIA(hops) # DstIA(hops))

\* RemoteISDAS: the first rule matching the last hop's ISD-AS (0 = wildcard) wins; no rule: rejected
RemoteAccept(remote, hops) ==
    \/ Len(remote) = 0
    \/ /\ Len(hops) > 0
       /\ LET d == DstIA(hops)
              hit == {k \in 1..Len(remote) : IfOk(remote[k].isd, d.isd) /\ (remote[k].as = WildAS \/ remote[k].as = d.as)} IN
          hit # {} /\ remote[CHOOSE k \in hit : \A j \in hit : k <= j].rej = 0

\* order-preserving filter: the kept indices are ascending and are exactly the accepted ones
StrictlyIncreasing(s) == \A i \in 1..(Len(s) - 1) : s[i] < s[i + 1]
RangeOf(s) == {s[i] : i \in 1..Len(s)}
=============================================================================
