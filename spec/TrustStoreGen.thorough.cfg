SPECIFICATION Spec
CONSTANTS
  Inits = {1, 2}
  MaxSerial = 5
  MaxSteps = 2
  Kinds1 = {"fetcherr", "badsig", "wrongpred", "wrongserial", "stale", "otherbase", "otherisd", "inserterr"}
  Kinds2 = {"badsig", "fetcherr"}
  Variants1 = {"ok", "okb"}
  Variants2 = {"ok"}
  LoadSteps = {1}
  MaxFiles = 4
INVARIANTS Emit
VIEW View
CHECK_DEADLOCK FALSE
