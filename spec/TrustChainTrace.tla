--------------------------- MODULE TrustChainTrace ---------------------------
(* Trace specification for C34.  Table property: every line is an independent observation.
     reset     {pool, trcs}: certificate pool (id = position) and the TRCs of part A
     verify    {chain, trc, t, ok}: cppki.VerifyChain(chain, {trcs[trc]}, CurrentTime = t) = nil iff ok = 1
     provider  {tl, db, remote, ret, errnil}: FetchingProvider.GetChains at now = 0 over a trust DB
               holding the TRCs of time line tl and the chains db, the remote serving the chains remote;
               ret = the chains handed out
   Monitor (only-if): ok => ChainOK;  every chain handed out satisfies ProviderOK and was supplied. *)
EXTENDS TrustStoreOps, TLC, Json

Trace == ndJsonDeserialize("trace.ndjson")

VARIABLES l, pool, trcs, nok, nret, ngrace
vars == <<l, pool, trcs, nok, nret, ngrace>>
R == Trace[l]
RangeOf(s) == {s[i] : i \in 1..Len(s)}
Certs == [i \in 1..Len(pool) |-> pool[i]]
Known(chain) == \A i \in 1..Len(chain) : chain[i] >= 1 /\ chain[i] <= Len(pool)
TRCOf(k) == [trcs[k] EXCEPT !.roots = RangeOf(@)]

Init == l = 1 /\ pool = <<>> /\ trcs = <<>> /\ nok = 0 /\ nret = 0 /\ ngrace = 0
Bad(key) == PrintT(<<"VERIF-BAD", l, key>>)

Verify ==
    LET ok == Known(R.chain) /\ ChainOK(Certs, R.chain, TRCOf(R.trc), R.t) IN
    /\ (R.ok = 1 /\ ~ok) => Bad("verify-accepts:" \o (IF Known(R.chain) THEN ChainRule(Certs, R.chain, TRCOf(R.trc), R.t) ELSE "unknown"))
    /\ (R.ok = 1 /\ ok /\ ~ChainStrict(Certs, R.chain, TRCOf(R.trc), R.t)) => PrintT(<<"VERIF-DRIFT", l, "leaf-not-valid-at-time">>)
    /\ (R.ok = 0 /\ Known(R.chain) /\ ChainStrict(Certs, R.chain, TRCOf(R.trc), R.t)) => PrintT(<<"VERIF-DRIFT", l, "good-chain-refused">>)
    /\ nok' = nok + (IF R.ok = 1 /\ ok THEN 1 ELSE 0)
    /\ UNCHANGED <<nret, ngrace>>

Provider ==
    LET tl == R.tl
        latest == IF tl.two THEN [serial |-> 2, base |-> 1, nb |-> tl.nb2, na |-> tl.na2, grace |-> tl.grace, roots |-> {2}]
                  ELSE [serial |-> 1, base |-> 1, nb |-> tl.nb1, na |-> tl.na1, grace |-> 0, roots |-> {1}]
        pred == [serial |-> 1, base |-> 1, nb |-> tl.nb1, na |-> tl.na1, grace |-> 0, roots |-> {1}]
        supplied == RangeOf(R.db) \cup RangeOf(R.remote)
        rule(ch) == IF ~Known(ch) THEN "unknown-chain"
                    ELSE IF ch \notin supplied THEN "chain-from-nowhere"
                    ELSE ProviderRule(Certs, ch, latest, pred, tl.two, 0)
        bad == {i \in 1..Len(R.ret) : rule(R.ret[i]) # ""}
        viaPred == {i \in 1..Len(R.ret) : rule(R.ret[i]) = "" /\ ~ChainOK(Certs, R.ret[i], latest, 0)} IN
    /\ \A i \in bad : Bad("provider-hands-out:" \o rule(R.ret[i]))
    /\ (\E ch \in supplied : Known(ch) /\ ProviderOK(Certs, ch, latest, pred, tl.two, 0) /\ ValidAt(Certs[ch[1]], 0)
                             /\ ch \notin RangeOf(R.ret) /\ ch \in RangeOf(R.db))
          => PrintT(<<"VERIF-DRIFT", l, "verifiable-chain-withheld">>)
    /\ nret' = nret + Len(R.ret) - Cardinality(bad)
    /\ ngrace' = ngrace + Cardinality(viaPred)
    /\ UNCHANGED nok

Step == /\ l <= Len(Trace)
        /\ l' = l + 1
        /\ CASE R.ev = "reset" -> pool' = R.pool /\ trcs' = R.trcs /\ UNCHANGED <<nok, nret, ngrace>>
             [] R.ev = "verify" -> Verify /\ UNCHANGED <<pool, trcs>>
             [] R.ev = "provider" -> Provider /\ UNCHANGED <<pool, trcs>>
             [] OTHER -> Bad("no-spec-action:" \o R.ev) /\ UNCHANGED <<pool, trcs, nok, nret, ngrace>>

Done == /\ l = Len(Trace) + 1
        /\ PrintT(<<"VERIF-STAT", "verified", nok>>)
        /\ PrintT(<<"VERIF-STAT", "handed_out", nret>>)
        /\ PrintT(<<"VERIF-STAT", "handed_out_via_grace", ngrace>>)
        /\ PrintT(<<"VERIF-DONE", Len(Trace)>>)
        /\ UNCHANGED vars

Next == Step \/ Done
Spec == Init /\ [][Next]_vars
=============================================================================
