--------------------------- MODULE TrustChainTrace ---------------------------
(* Trace specification for C34.  Table property: every line is an independent observation.
     reset     {pool, trcs}: certificate pool (id = position) and the TRCs of part A
     verify    {chain, trc, t, ok}: cppki.VerifyChain(chain, {trcs[trc]}, CurrentTime = t) = nil iff ok = 1
     provider  {tl, db, remote, ret, errnil}: FetchingProvider.GetChains at now = 0 over a trust DB
               holding the TRCs of time line tl and the chains db, the remote serving the chains remote;
               ret = the chains handed out
   Monitor (only-if): ok => ChainOK;  every chain handed out satisfies ProviderOK and was supplied. *)
EXTENDS TrustStoreOps, TLC, Json

Trace == ndJsonDeserialize("trace.ndjson")

VARIABLES l, pool, trcs, nok, nret, ngrace, nhist, nstale
vars == <<l, pool, trcs, nok, nret, ngrace, nhist, nstale>>
R == Trace[l]
RangeOf(s) == {s[i] : i \in 1..Len(s)}
Certs == [i \in 1..Len(pool) |-> pool[i]]
Known(chain) == \A i \in 1..Len(chain) : chain[i] >= 1 /\ chain[i] <= Len(pool)
TRCOf(k) == [trcs[k] EXCEPT !.roots = RangeOf(@)]

Init == l = 1 /\ pool = <<>> /\ trcs = <<>> /\ nok = 0 /\ nret = 0 /\ ngrace = 0 /\ nhist = 0 /\ nstale = 0
Bad(key) == PrintT(<<"VERIF-BAD", l, key>>)

Verify ==
    LET ok == Known(R.chain) /\ ChainOK(Certs, R.chain, TRCOf(R.trc), R.t) IN
    /\ (R.ok = 1 /\ ~ok) => Bad("verify-accepts:" \o (IF Known(R.chain) THEN ChainRule(Certs, R.chain, TRCOf(R.trc), R.t) ELSE "unknown"))
    /\ (R.ok = 1 /\ ok /\ ~ChainStrict(Certs, R.chain, TRCOf(R.trc), R.t)) => PrintT(<<"VERIF-DRIFT", l, "leaf-not-valid-at-time">>)
    /\ (R.ok = 0 /\ Known(R.chain) /\ ChainStrict(Certs, R.chain, TRCOf(R.trc), R.t)) => PrintT(<<"VERIF-DRIFT", l, "good-chain-refused">>)
    /\ nok' = nok + (IF R.ok = 1 /\ ok THEN 1 ELSE 0)
    /\ UNCHANGED <<nret, ngrace, nhist, nstale>>

Provider ==
    LET tl == R.tl
        latest == IF tl.two THEN [serial |-> 2, base |-> 1, nb |-> tl.nb2, na |-> tl.na2, grace |-> tl.grace, roots |-> {2}]
                  ELSE [serial |-> 1, base |-> 1, nb |-> tl.nb1, na |-> tl.na1, grace |-> 0, roots |-> {1}]
        pred == [serial |-> 1, base |-> 1, nb |-> tl.nb1, na |-> tl.na1, grace |-> 0, roots |-> {1}]
        supplied == RangeOf(R.db) \cup RangeOf(R.remote)
        rule(ch) == IF ~Known(ch) THEN "unknown-chain"
                    ELSE IF ch \notin supplied THEN "chain-from-nowhere"
                    ELSE ProviderRule(Certs, ch, latest, pred, tl.two, 0)
        bad == {i \in 1..Len(R.ret) : rule(R.ret[i]) # ""}
        viaPred == {i \in 1..Len(R.ret) : rule(R.ret[i]) = "" /\ ~ChainOK(Certs, R.ret[i], latest, 0)} IN
    /\ \A i \in bad : Bad("provider-hands-out:" \o rule(R.ret[i]))
    /\ (\E ch \in supplied : Known(ch) /\ ProviderOK(Certs, ch, latest, pred, tl.two, 0) /\ ValidAt(Certs[ch[1]], 0)
                             /\ ch \notin RangeOf(R.ret) /\ ch \in RangeOf(R.db))
          => PrintT(<<"VERIF-DRIFT", l, "verifiable-chain-withheld">>)
    /\ nret' = nret + Len(R.ret) - Cardinality(bad)
    /\ ngrace' = ngrace + Cardinality(viaPred)
    /\ UNCHANGED <<nok, nhist, nstale>>

(* TRC update during operation (history): the store holds S1 and the chains db; get1 = chains handed
   out; then NotifyTRC brings S2 of time line tl (latest = serial of the latest TRC afterwards); get2 =
   chains handed out then.  v1 / v2: a verifier with its real chain cache checks a message signed with
   the chain under the old root before / after the update, v3: a fresh verifier without cache after
   the update (-1: not applicable).  Monitor: every hand-out of the provider satisfies ProviderOK for
   the TRCs in the store at that moment; a verifier without cache accepts only such chains.  A hit in
   the verifier's cache after the update is drift (bounded staleness, see ProviderCache.tla).      *)
History ==
    LET tl == R.tl
        S1 == [serial |-> 1, base |-> 1, nb |-> tl.nb1, na |-> tl.na1, grace |-> 0, roots |-> {1}]
        S2 == [serial |-> 2, base |-> 1, nb |-> tl.nb2, na |-> tl.na2, grace |-> tl.grace, roots |-> {2}]
        supplied == RangeOf(R.db)
        rule1(ch) == IF ~Known(ch) THEN "unknown-chain" ELSE IF ch \notin supplied THEN "chain-from-nowhere"
                     ELSE ProviderRule(Certs, ch, S1, S1, FALSE, 0)
        rule2(ch) == IF ~Known(ch) THEN "unknown-chain" ELSE IF ch \notin supplied THEN "chain-from-nowhere"
                     ELSE IF R.latest = 2 THEN ProviderRule(Certs, ch, S2, S1, TRUE, 0)
                     ELSE ProviderRule(Certs, ch, S1, S1, FALSE, 0)
        old == <<7, 4>> IN
    /\ \A i \in 1..Len(R.get1) : rule1(R.get1[i]) # "" => Bad("history-before-update:" \o rule1(R.get1[i]))
    /\ \A i \in 1..Len(R.get2) : rule2(R.get2[i]) # "" => Bad("history-after-update:" \o rule2(R.get2[i]))
    /\ (R.v3 = 1 /\ rule2(old) # "") => Bad("history-verifier-accepts:" \o rule2(old))
    /\ (R.v1 = 1 /\ rule1(old) # "") => Bad("history-verifier-accepts-before-update:" \o rule1(old))
    /\ (R.v2 = 1 /\ rule2(old) # "") => PrintT(<<"VERIF-DRIFT", l, "verifier-cache-hands-out-stale-chain">>)
    /\ R.latest # 2 => PrintT(<<"VERIF-DRIFT", l, "trc-update-not-stored">>)
    /\ nhist' = nhist + Len(R.get2)
    /\ nstale' = nstale + (IF R.v2 = 1 /\ rule2(old) # "" THEN 1 ELSE 0)
    /\ UNCHANGED <<nok, nret, ngrace>>

Step == /\ l <= Len(Trace)
        /\ l' = l + 1
        /\ CASE R.ev = "reset" -> pool' = R.pool /\ trcs' = R.trcs /\ UNCHANGED <<nok, nret, ngrace, nhist, nstale>>
             [] R.ev = "history" -> History /\ UNCHANGED <<pool, trcs>>
             [] R.ev = "verify" -> Verify /\ UNCHANGED <<pool, trcs>>
             [] R.ev = "provider" -> Provider /\ UNCHANGED <<pool, trcs>>
             [] OTHER -> Bad("no-spec-action:" \o R.ev) /\ UNCHANGED <<pool, trcs, nok, nret, ngrace, nhist, nstale>>

Done == /\ l = Len(Trace) + 1
        /\ PrintT(<<"VERIF-STAT", "verified", nok>>)
        /\ PrintT(<<"VERIF-STAT", "handed_out", nret>>)
        /\ PrintT(<<"VERIF-STAT", "handed_out_via_grace", ngrace>>)
        /\ PrintT(<<"VERIF-STAT", "handed_out_after_update", nhist>>)
        /\ PrintT(<<"VERIF-STAT", "stale_cache_accepts", nstale>>)
        /\ PrintT(<<"VERIF-DONE", Len(Trace)>>)
        /\ UNCHANGED vars

Next == Step \/ Done
Spec == Init /\ [][Next]_vars
=============================================================================
