----------------------------- MODULE BFDTrace -----------------------------
(* Trace specification for C16.  trace.ndjson holds reset-delimited traces recorded by
   harness/cmd/bfdfsm from the real router/bfd code:

     (every reset record carries kind, rxms = the session's Required Min RX Interval in ms, lmult = its
      Detect Mult)
     kind = "table"    rows  tr(st, e, next, panic) of the real transition function;
     kind = "session" / "pair"   the life of ONE real Session:
        pkt     a control packet handed to ReceiveMessage + the real admission decision (discard)
        recv    (hook, inside Session.Run) the packet was processed: message state / discriminators,
                local state, recorded remote state and remote discriminator AFTER the step
        timer   (hook) the detection time expired; state after the step; el = ms since the last accepted
                packet was handed in (-1: not tracked)
        send    (hook) a control packet is being sent: its state / discriminators
        notimer the driver sent nothing for 10 s after a packet announcing a 2 ms detection time
                and no expiry happened
        idle-begin / idle-end   the driver left the session alone for `ms` milliseconds
        quiet   (pair) from here on the link is lossless
        settle  (pair) whether the hook's last reported state was Up within 30 s of `quiet`
        stuck   an accepted packet was never processed

   Monitor (VERIF-BAD): every recv / timer step is the RFC 5880 6.8.6 transition (BFDOps!Rfc), RFC
   admission rules, sent packets carry the local state (and a Your Discriminator when Init / Up),
   expiry happens, the session is Up after the quiet period.  Timing is not judged: a timer step is
   accepted at any point.  Details outside the property (packets using unsupported features, the table's own AdminDown/AdminUp events) are VERIF-DRIFT. *)
EXTENDS BFDOps, TLC, Json

Trace == ndJsonDeserialize("trace.ndjson")

VARIABLES local,    \* model state of the session
          rd,       \* remote discriminator as last reported by the implementation
          pend,     \* accepted packets not yet processed (FIFO of [state, my, your, mult, dtxms])
          det,      \* [ms, mult]: detection time announced by the last processed packet (ms = -1: not judged)
          cfg,      \* [kind, rxms, lmult] of the current trace
          idle,     \* -1, or the number of packets sent since the last idle-begin marker
          failed, l
vars == <<local, rd, pend, det, cfg, idle, failed, l>>
kind == cfg.kind
NoDet == [ms |-> -1, mult |-> 0]
R == Trace[l]

Init == /\ local = "Down" /\ rd = 0 /\ pend = <<>> /\ det = NoDet
        /\ cfg = [kind |-> "none", rxms |-> 0, lmult |-> 0] /\ idle = -1 /\ failed = FALSE /\ l = 1

Bad(key) == /\ PrintT(<<"VERIF-BAD", l, key>>)
            /\ failed' = TRUE
            /\ UNCHANGED <<local, rd, pend, det, cfg, idle>>
Drift(ok, key) == IF ok THEN TRUE ELSE PrintT(<<"VERIF-DRIFT", l, key>>)

Reset == /\ local' = "Down" /\ rd' = 0 /\ pend' = <<>> /\ det' = NoDet
         /\ cfg' = [kind |-> R.kind, rxms |-> R.rxms, lmult |-> R.lmult] /\ idle' = -1 /\ failed' = FALSE

-----------------------------------------------------------------------------
(* the transition table: the four received-state events in Down / Init / Up and the timer must be the
   RFC's; the AdminDown row, and the events the RFC does not have as packet events in this
   implementation's reading (a local "admin down" / "admin up"), are outside the property *)
Tr == LET st == StateName(R.st)
          ev == StateName(R.e) IN
      IF st \notin States \/ ev \notin (Events \cup {"AdminUp"})
        THEN /\ Drift(R.panic, "table:unknown-state-or-event-accepted") /\ UNCHANGED <<local, rd, pend, det, cfg, idle, failed>>
      ELSE IF R.panic THEN Bad("table:panic:st=" \o st \o ",ev=" \o ev)
      ELSE IF ev = "AdminUp" \/ ev = "AdminDown" \/ st = "AdminDown"
        THEN /\ Drift(IF ev = "AdminUp" THEN TRUE ELSE StateName(R.next) = Rfc(st, ev),
                      "table:st=" \o st \o ",ev=" \o ev \o ",next=" \o StateName(R.next))
             /\ UNCHANGED <<local, rd, pend, det, cfg, idle, failed>>
      ELSE IF StateName(R.next) # Rfc(st, ev)
        THEN Bad("table:st=" \o st \o ",ev=" \o ev \o ",next=" \o StateName(R.next) \o ",want=" \o Rfc(st, ev))
      ELSE UNCHANGED <<local, rd, pend, det, cfg, idle, failed>>

-----------------------------------------------------------------------------
Unsupported == R.auth \/ R.poll \/ R.final \/ R.echo \/ R.demand
Pkt == LET p == [ver |-> R.ver, lenok |-> TRUE, mult |-> R.mult, multipoint |-> R.multipoint,
                 my |-> R.my, your |-> R.your, state |-> StateName(R.state)] IN
       IF p.state \notin States THEN Bad("pkt:unknown-state")
       ELSE IF RfcDiscard(p) /\ ~R.discard
         THEN Bad("admit:accepted-a-packet-the-rfc-discards:" \o
                  (IF p.ver # 1 THEN "version" ELSE IF p.mult = 0 THEN "detect-mult-zero"
                   ELSE IF p.multipoint THEN "multipoint" ELSE IF p.my = 0 THEN "my-discriminator-zero"
                   ELSE "your-discriminator-zero,state=" \o p.state))
       ELSE IF ~RfcDiscard(p) /\ ~Unsupported /\ R.discard
         THEN Bad("admit:discarded-a-valid-packet:state=" \o p.state \o
                  (IF p.your = 0 THEN ",your=0" ELSE ""))
       ELSE /\ pend' = IF R.discard THEN pend
                       ELSE Append(pend, [state |-> p.state, my |-> R.my, your |-> R.your, mult |-> R.mult, dtxms |-> R.dtxms])
            /\ Drift(~(Unsupported /\ ~RfcDiscard(p) /\ R.discard), "admit:unsupported-feature-discarded")
            /\ UNCHANGED <<local, rd, det, cfg, idle, failed>>

DiscName(d) == CASE d = 0 -> "zero" [] d = 1 -> "own" [] d = 2 -> "peer" [] OTHER -> "other"
Recv == LET ms == StateName(R.state)
            got == StateName(R.local)
            want == Rfc(local, ms) IN
        IF pend = <<>> THEN Bad("recv:no-packet-was-handed-in")
        ELSE IF [state |-> Head(pend).state, my |-> Head(pend).my, your |-> Head(pend).your]
                  # [state |-> ms, my |-> R.my, your |-> R.your] THEN Bad("recv:not-the-next-packet")
        \* a wrong transition is reported and the monitor then follows the implementation's state (no latch),
        \* so that everything after it - later steps, the recovery at the end - is still judged
        ELSE IF got # want
          THEN /\ PrintT(<<"VERIF-BAD", l, "recv:state=" \o ms \o ":local=" \o local \o "->" \o got \o ",want=" \o want>>)
               /\ local' = got /\ rd' = R.rdisc /\ pend' = Tail(pend)
               /\ det' = [ms |-> Head(pend).mult * (IF cfg.rxms > Head(pend).dtxms THEN cfg.rxms ELSE Head(pend).dtxms),
                          mult |-> Head(pend).mult]
               /\ UNCHANGED <<cfg, idle, failed>>
        ELSE IF R.remote # R.state THEN Bad("recv:remote-state-not-recorded:state=" \o ms)
        \* RFC 5880 6.8.6: "Set bfd.RemoteDiscr to the value of My Discriminator" - for every accepted
        \* packet; a session that keeps a stale value echoes a Your Discriminator its (restarted or
        \* spoofed-against) RFC peer must discard, and never comes Up again (BFDMC.stale.cfg)
        ELSE IF R.rdisc # R.my
          THEN Bad("recv:remote-discriminator-not-set-from-packet:had=" \o DiscName(rd) \o ",my=" \o DiscName(R.my))
        ELSE /\ local' = got /\ rd' = R.rdisc /\ pend' = Tail(pend)
             \* RFC 5880 6.8.4: Detection Time = received Detect Mult x max(local Required Min RX
             \* Interval, received Desired Min TX Interval); re-armed by every accepted packet
             /\ det' = [ms |-> Head(pend).mult * (IF cfg.rxms > Head(pend).dtxms THEN cfg.rxms ELSE Head(pend).dtxms),
                        mult |-> Head(pend).mult]
             /\ UNCHANGED <<cfg, idle, failed>>

LateSlackMs == 5000
MultClass == (IF det.mult > cfg.lmult THEN "remote-mult>local-mult"
              ELSE IF det.mult < cfg.lmult THEN "remote-mult<local-mult" ELSE "remote-mult=local-mult")
             \o (IF det.ms = det.mult * cfg.rxms THEN ",local-rx-interval" ELSE ",remote-tx-interval")
Timer == LET got == StateName(R.local)
             want == Rfc(local, "Timer") IN
         IF got # want THEN Bad("timer:local=" \o local \o "->" \o got \o ",want=" \o want)
         \* a timer never fires early, and el is measured from before the timer was armed: an expiry seen
         \* before the detection time is wrong whatever the machine load; lateness is judged with 5 s slack
         ELSE IF R.el >= 0 /\ det.ms >= 0 /\ R.el < det.ms
           THEN Bad("timer:expired-before-detection-time:" \o MultClass)
         ELSE IF R.el >= 0 /\ det.ms >= 0 /\ R.el > det.ms + LateSlackMs
           THEN Bad("timer:expired-long-after-detection-time:" \o MultClass)
         \* RFC 5880 6.8.1: bfd.RemoteDiscr MUST be set to zero when a detection time passes without a packet,
         \* in whatever state: a session that keeps echoing the old value is never answered by a restarted
         \* peer that waits (passive role) for a packet it can accept
         ELSE IF R.rdisc # 0 THEN Bad("timer:remote-discriminator-not-cleared:local=" \o got)
         ELSE /\ local' = got /\ rd' = R.rdisc /\ det' = NoDet
              /\ UNCHANGED <<pend, cfg, idle, failed>>

Send == IF StateName(R.state) # local
          THEN Bad("send:state=" \o StateName(R.state) \o ",local=" \o local)
        ELSE IF R.my # 1 THEN Bad("send:my-discriminator-is-not-the-local-one")
        ELSE IF R.your = 0 /\ local \in {"Init", "Up"} THEN Bad("send:your-discriminator-zero:state=" \o local)
        \* RFC 5880 6.8.7: Your Discriminator is set to bfd.RemoteDiscr (the last My Discriminator received,
        \* zero after a detection-time expiry)
        ELSE IF R.your # rd THEN Bad("send:your-discriminator-not-echoed:sent=" \o DiscName(R.your) \o ",remote=" \o DiscName(rd))
        ELSE /\ idle' = IF idle >= 0 THEN idle + 1 ELSE idle
             /\ UNCHANGED <<local, rd, pend, det, cfg, failed>>

\* AdminDown is reachable only through a reported deviation (Rfc never enters it); a session that sits there
\* at the end was wedged by a received AdminDown (its own, or the one its wedged peer now advertises)
Settle == IF ~R.up \/ local # "Up"
            THEN Bad(IF local = "AdminDown" THEN "recover:not-up:after-received-admindown"
                     ELSE "recover:not-up-after-quiet-period:local=" \o local)
          ELSE /\ Drift(R.isup, "settle:IsUp-differs-from-hook-state")
               /\ UNCHANGED <<local, rd, pend, det, cfg, idle, failed>>

Step == /\ l <= Len(Trace)
        /\ l' = l + 1
        /\ IF R.ev = "reset" THEN Reset
           ELSE IF failed THEN UNCHANGED <<local, rd, pend, det, cfg, idle, failed>>
           ELSE CASE R.ev = "tr" -> Tr
                  [] R.ev = "pkt" -> Pkt
                  [] R.ev = "recv" -> Recv
                  [] R.ev = "timer" -> Timer
                  [] R.ev = "send" -> Send
                  [] R.ev = "quiet" -> UNCHANGED <<local, rd, pend, det, cfg, idle, failed>>
                  [] R.ev = "idle-begin" -> idle' = 0 /\ UNCHANGED <<local, rd, pend, det, cfg, failed>>
                  \* RFC 5880 6.8.7: control packets are transmitted periodically in every state (a session
                  \* that is not Up at least about once per second): nothing at all in 5 s is a violation
                  [] R.ev = "idle-end" -> IF idle = 0 THEN Bad("send:nothing-sent-while-left-alone:local=" \o local)
                                         ELSE idle' = -1 /\ UNCHANGED <<local, rd, pend, det, cfg, failed>>
                  [] R.ev = "settle" -> Settle
                  [] R.ev = "notimer" -> Bad("timer:no-expiry-after-detection-time:local=" \o local)
                  [] R.ev = "stuck" -> Bad("stuck:" \o R.what)
                  [] OTHER -> Bad("no-spec-action:" \o R.ev)

Done == /\ l = Len(Trace) + 1
        /\ PrintT(<<"VERIF-DONE", Len(Trace)>>)
        /\ UNCHANGED vars
Next == Step \/ Done
Spec == Init /\ [][Next]_vars
=============================================================================
