SPECIFICATION Spec
CONSTANTS
  Rel = "rfc"
  Budget = 1
  Foreign = TRUE
  Track = "code"
  Demux = "strict"
INVARIANTS TypeOK
PROPERTIES Recovers
CHECK_DEADLOCK FALSE
