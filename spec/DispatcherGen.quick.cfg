INIT Init
NEXT Next
CONSTANTS
  Datagrams <- BaseSet
  MaxLen = 2
  Modes = {TRUE, FALSE}
CONSTRAINT Emit
CHECK_DEADLOCK FALSE
