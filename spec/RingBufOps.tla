---------------------------- MODULE RingBufOps ----------------------------
(* Pure operators of the bounded-FIFO ring (private/ringbuf.Ring): the single source of truth shared
   by the exhaustive model (RingBuf.tla) and the trace specification (RingBufTrace.tla). *)
EXTENDS Integers, Sequences

Min(a, b) == IF a < b THEN a ELSE b

-----------------------------------------------------------------------------
(* Pure outcome operators: what a call may do given the abstract state (qlen, cap, closed).
   kind = "wait"  : the caller goes to sleep on the condition variable (mutex released)
   kind = "ret"   : the call returns n (and transfers n entries)                                *)
WriteOutcome(qlen, cap, closed, len, block) ==
    IF len > 0 /\ cap - qlen = 0 /\ ~closed
      THEN IF block THEN [kind |-> "wait", n |-> 0] ELSE [kind |-> "ret", n |-> 0]
    ELSE IF closed THEN [kind |-> "ret", n |-> -1]
    ELSE [kind |-> "ret", n |-> Min(cap - qlen, len)]

ReadOutcome(qlen, cap, closed, len, block) ==
    IF len > 0 /\ qlen = 0 /\ ~closed
      THEN IF block THEN [kind |-> "wait", n |-> 0] ELSE [kind |-> "ret", n |-> 0]
    ELSE IF closed /\ qlen = 0 THEN [kind |-> "ret", n |-> -1]
    ELSE [kind |-> "ret", n |-> Min(qlen, len)]

(* A caller blocked in Wait must not be runnable: the lost-wake-up condition. *)
WaiterMayStayBlocked(kind, qlen, cap, closed) ==
    IF kind = "w" THEN cap - qlen = 0 /\ ~closed ELSE qlen = 0 /\ ~closed
=============================================================================
