--------------------------- MODULE TrafficClassGen ---------------------------
(* C43 scenario generator: TrafficClass's listener-shaped builder + the generator alphabets.  Every
   complete expression is printed as <<"SCN", json>>, the packet grid once at start-up. *)
EXTENDS TrafficClass, SequencesExt

Emit == Complete => PrintT(<<"SCN", ToJson(Tree)>>)

N24 == <<10, 0, 0, 0>>
N30 == <<10, 0, 0, 4>>
GenLeaves == {Num("bool", 1), Num("bool", 0),
              Net("src", N24, 24), Net("src", N30, 30), Net("dst", N24, 24), Net("dst", <<0, 0, 0, 0>>, 0),
              Net("dst", <<10, 0, 0, 5>>, 32),
              Num("dscp", 46), Num("tos", 184), Num("tos", 255), Num("dscp", 0),
              Num("tos", 40), Num("dscp", 18),     \* 0x28, 0x12: hex spellings made of decimal digits only
              Num("proto", TCP), Num("proto", UDP),
              Port("sport", 80, 80), Port("sport", 80, 100), Port("dport", 80, 80), Port("dport", 100, 80),
              Port("dport", 0, 65535)}
\* a subset for the complete enumeration of the larger trees
GenLeavesSmall == {Num("bool", 0), Net("src", N24, 24), Net("dst", <<10, 0, 0, 5>>, 32), Num("dscp", 46),
                   Num("proto", UDP), Port("sport", 80, 100), Port("dport", 80, 80)}

Addrs == {<<10, 0, 0, 5>>, <<10, 0, 0, 9>>, <<10, 0, 1, 5>>}
\* both transports with source-only and destination-only hits of the port ranges
L4 == {<<TCP, 1, 80, 100>>, <<TCP, 1, 100, 80>>, <<TCP, 1, 79, 101>>, <<UDP, 1, 100, 80>>, <<UDP, 1, 80, 100>>,
       <<ICMP, 0, 0, 0>>, <<TCP, 0, 0, 0>>, <<SCTP, 0, 0, 0>>}
GenPkts == {Pkt(s, d, tos, l[1], l[2], l[3], l[4]) : s \in Addrs, d \in {<<10, 0, 0, 5>>, <<10, 0, 1, 5>>},
                                                     tos \in {0, 184, 185, 255, 40, 72}, l \in L4}
L4Thorough == L4 \cup {<<TCP, 1, 80, 80>>, <<UDP, 1, 79, 101>>, <<TCP, 1, 81, 79>>, <<UDP, 1, 65535, 0>>, <<UDP, 1, 0, 65535>>, <<TCP, 1, 100, 100>>}
GenPktsThorough == {Pkt(s, d, tos, l[1], l[2], l[3], l[4]) : s \in Addrs \cup {<<10, 0, 0, 4>>, <<10, 0, 0, 8>>, <<11, 0, 0, 5>>},
                                                     d \in Addrs, tos \in {0, 184, 185, 187, 255, 3, 40, 72, 28, 48}, l \in L4Thorough}

PktSet(which) == PrintT(<<"PKTS", ToJson(SetToSeq(IF which = "thorough" THEN GenPktsThorough ELSE GenPkts))>>)
GenInitQuick == Init /\ PktSet("quick")
GenInitThorough == Init /\ PktSet("thorough")
=============================================================================
