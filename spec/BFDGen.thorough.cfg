SPECIFICATION Spec
CONSTANTS
  MaxLen = 3
INVARIANTS Emit
CHECK_DEADLOCK FALSE
