------------------------- MODULE GatewayRoutingGen -------------------------
(* C42 scenario generator: GatewayRouting's builder actions (AddEntry / AddRule; no packets, so the
   route loop is never started) over the generator alphabets.  Every table and every policy is printed
   as <<"SCN", kind, json>>; packets, IA pairs and query prefixes once at start-up.
   Tables live in a 6-bit space (64 destinations), policies in a 4-bit space (16 addresses). *)
EXTENDS GatewayRouting, Json, SequencesExt

Emit == /\ (Len(table) >= 1) => PrintT(<<"SCN", "table", ToJson(table)>>)
        /\ (Len(pol.rules) >= 1) => PrintT(<<"SCN", "pol", ToJson(pol)>>)

\* three-entry tables only with one class list (keeps the number of tables in the 10^3 range)
Prune == Len(table) = 3 => (table[1].cls = table[2].cls /\ table[2].cls = table[3].cls)

Def4 == Pfx(4, 0, 0 - 26)       \* 0.0.0.0/0 (W = 6)
Def6 == Pfx(6, 0, 0 - 122)      \* ::/0
GenPrefixes == {Def4, Pfx(4, 0, 0), Pfx(4, 0, 1), Pfx(4, 32, 1), Pfx(4, 16, 2), Pfx(4, 20, 4), Pfx(4, 23, 4),
                Pfx(4, 21, 6), Pfx(6, 0, 1)}
GenPrefixesQuick == GenPrefixes \ {Pfx(4, 16, 2)}
GenPrefixesThorough == GenPrefixes \cup {Def6, Pfx(4, 16, 3), Pfx(6, 21, 6), Pfx(6, 0, 0)}
GenClassLists == {<<Cl("true", 1)>>, <<Cl("tos", 0), Cl("true", 1)>>, <<Cl("tos", 1), Cl("false", 1)>>,
                  <<Cl("false", 1), Cl("true", 0)>>}
GenPkts == {P(4, d, 0, 0) : d \in 0..63} \cup {P(4, d, 184, 0) : d \in {0, 5, 15, 16, 19, 20, 21, 22, 23, 24, 31, 32, 40, 63}} \cup
           {P(4, 21, 0, 1), P(4, 21, 184, 2), P(4, 0, 0, 2), P(4, 40, 184, 1)} \cup
           {P(6, d, t, 0) : d \in {0, 21, 31, 32, 63}, t \in {0, 184}} \cup
           {P(4, 0 - 1, 0, 0), P(4, 0 - 1, 184, 0), P(4, 0 - 2, 0, 1), P(6, 0 - 1, 0, 0)} \cup  \* outside the embedded space
           {P(6, 21, 0, 3), P(6, 32, 184, 3), P(6, 21, 0, 4), P(6, 0, 184, 4)}       \* IPv6 fragment / extension headers

\* policies (W = 4)
A1 == 1
A2 == 2
GenFrom == {AnyIA, IAM(1, 0, 0), IAM(0, A1, 0), IAM(1, A1, 1)}
GenNets == {<<<<Pfx(4, 0, 0 - 28)>>, 0>>, <<<<Pfx(4, 0, 1)>>, 0>>, <<<<Pfx(4, 4, 2), Pfx(4, 12, 3)>>, 0>>, <<<<Pfx(4, 4, 2)>>, 1>>,
            <<<<Pfx(4, 5, 4), Pfx(6, 0, 1)>>, 0>>}
GenRules == {Rule(a, f, AnyIA, n[1], n[2]) : a \in {"accept", "reject", "advertise"}, f \in GenFrom, n \in GenNets}
            \cup {Rule(a, AnyIA, t, <<Pfx(4, 8, 1)>>, 0) : a \in {"accept", "reject", "advertise"},
                                                           t \in {IAM(2, 0, 1), IAM(2, A2, 0)}}
GenRulesQuick == {Rule(a, f, AnyIA, n[1], n[2]) : a \in {"accept", "reject", "advertise"}, f \in {AnyIA, IAM(1, A1, 1), IAM(0, A1, 0)},
                    n \in {<<<<Pfx(4, 0, 1)>>, 0>>, <<<<Pfx(4, 4, 2), Pfx(4, 12, 3)>>, 0>>, <<<<Pfx(4, 4, 2)>>, 1>>}}
            \cup {Rule(a, AnyIA, t, <<Pfx(4, 8, 1)>>, 0) : a \in {"accept", "reject", "advertise"},
                                                           t \in {IAM(2, 0, 1), IAM(2, A2, 0)}}
GenRulesThorough == GenRules \cup
            {Rule(a, f, IAM(2, 0, 1), n[1], n[2]) : a \in {"accept", "reject"}, f \in {IAM(1, 0, 0), IAM(1, A1, 1)},
                                                    n \in {<<<<Pfx(4, 0, 1), Pfx(4, 12, 3)>>, 1>>, <<<<Pfx(6, 0, 1)>>, 1>>}}
\* thorough, second generator run: policies of up to three rules over a small alphabet (no tables)
GenRules3 == {Rule(a, f, AnyIA, n[1], n[2]) : a \in {"accept", "reject"}, f \in {AnyIA, IAM(1, A1, 1), IAM(0, A1, 0)},
                    n \in {<<<<Pfx(4, 0, 1)>>, 0>>, <<<<Pfx(4, 4, 2), Pfx(4, 12, 3)>>, 1>>}}
             \cup {Rule("advertise", AnyIA, IAM(2, 0, 1), <<Pfx(4, 8, 1)>>, 0), Rule("reject", AnyIA, IAM(2, A2, 0), <<Pfx(4, 0, 0 - 28)>>, 0)}
GenPairs == <<<<IA(1, A1), IA(2, A2)>>, <<IA(1, A2), IA(2, A2)>>, <<IA(2, A1), IA(1, A1)>>, <<IA(2, A2), IA(2, A1)>>>>
GenQueries == <<Pfx(4, 0, 0), Pfx(4, 4, 1), Pfx(6, 0, 0), Pfx(4, 13, 4)>>

Lists(u) == /\ PrintT(<<"LIST", "pkts", ToJson(SetToSeq(GenPkts))>>)
            /\ PrintT(<<"LIST", "pairs", ToJson(GenPairs)>>)
            /\ PrintT(<<"LIST", "queries", ToJson(GenQueries)>>)
GenInit == Init /\ Lists(0)
=============================================================================
