-------------------------- MODULE SeqPolicyTrace --------------------------
(* Trace specification for C47.  Every line after a reset is an independent case: a sequence
   expression / ACL / policy that the driver handed to the real pathpol code together with the list
   of paths it kept.  The oracle is SeqPolicyOps: language membership by Brzozowski derivatives with
   numeric comparison (sequences), first-match ACLs, weighted options (policies), and
   "the result is the sub-list of accepted inputs, in input order".

   VERIF-BAD keys (abstract failure classes):
     seq:as-spelling:+<classes>   the kept set is exactly what a *textual* AS comparison gives (D8);
            classes among bgp-hex (BGP-range AS written in hex), large-dec (AS >= 2^32 written in
            decimal), hex-upper (upper-case hex digits)
     seq:accepted-path-dropped:ops=<ops> | seq:unaccepted-path-kept:ops=<ops> | seq:both:ops=..
     seq:valid-expression-rejected..., <fam>:input-order-not-preserved, <fam>:result-not-an-input-path,
     acl:..., pol:..., ext:... (policy with inheritance and ISD-AS filters), <fam>:panic
   VERIF-DRIFT: an ACL evaluated hop-wise (reading of the documentation) instead of interface-wise
   (reading of the code) where the two differ: both readings satisfy the property as stated.   *)
EXTENDS SeqPolicyOps, TLC, Json

Trace == ndJsonDeserialize("trace.ndjson")

VARIABLES l, paths, nbad
vars == <<l, paths, nbad>>
R == Trace[l]

Init == l = 1 /\ paths = <<>> /\ nbad = 0

Bad(key) == PrintT(<<"VERIF-BAD", l, key>>) /\ nbad' = nbad + 1 /\ UNCHANGED paths
Drift(key) == PrintT(<<"VERIF-DRIFT", l, key>>) /\ UNCHANGED <<paths, nbad>>
Ok == UNCHANGED <<paths, nbad>>

\* "" if kept is the ascending list of exactly the positions in want (a subset of 1..n), else the
\* failure class.  (Expensive sets are bound through singleton quantifiers so TLC evaluates them once.)
CheckKept(kept, n, want) ==
    IF \E i \in 1..Len(kept) : kept[i] \notin 1..n THEN ":result-not-an-input-path"
    ELSE IF ~StrictlyIncreasing(kept) THEN ":input-order-not-preserved"
    ELSE LET got == RangeOf(kept) IN
         IF got = want THEN ""
         ELSE IF got \subseteq want THEN ":accepted-path-dropped"
         ELSE IF want \subseteq got THEN ":unaccepted-path-kept"
         ELSE ":both"

SeqAccept(ast, hops, mode) == ast.t = "none" \/ Matches(ast, hops, mode)
AclAccept(acl, hops, reading) ==
    Len(acl) = 0 \/ (IF reading = "iface" THEN AclAcceptIface(acl, hops) ELSE AclAcceptHop(acl, hops))

SeqWant(mode) == {i \in 1..Len(paths) : Matches(R.ast, paths[i], mode)}

SeqEv ==
    IF R.panic = 1 THEN Bad("seq:panic")
    ELSE IF R.err = 1 THEN Bad("seq:valid-expression-rejected" \o SpellingKey(R.ast))
    ELSE \E v \in {CheckKept(R.kept, Len(paths), SeqWant("num"))} :
         IF v = "" THEN Ok
         ELSE IF SpellingKey(R.ast) # "" /\ CheckKept(R.kept, Len(paths), SeqWant("txt")) = ""
           THEN Bad("seq:as-spelling:" \o SpellingKey(R.ast))
         ELSE Bad("seq" \o v \o ":ops=" \o OpsKey(R.ast))

HopsAt(i) == paths[R.inp[i]]
AclWant(reading) == {i \in 1..Len(R.inp) : AclAccept(R.acl, HopsAt(i), reading)}

AclEv ==
    IF R.panic = 1 THEN Bad("acl:panic")
    ELSE IF R.err = 1 THEN Bad("acl:valid-acl-rejected")
    ELSE \E v \in {CheckKept(R.kept, Len(R.inp), AclWant("iface"))} :
         IF v = "" THEN Ok
         ELSE IF CheckKept(R.kept, Len(R.inp), AclWant("hop")) = "" THEN Drift("acl:hop-level-reading")
         ELSE Bad("acl" \o v)

\* policy: ACL and sequence, then the options of the highest weight that keep anything
\* what a resolved policy definition keeps of the input list: ISD-AS filters, ACL and sequence, then the
\* options of the highest weight that keep anything
PolWantOf(pol, reading, strict) ==
    LET n == Len(R.inp)
        Base(i) == /\ LocalAccept(pol.local, HopsAt(i), strict) /\ RemoteAccept(pol.remote, HopsAt(i))
                   /\ AclAccept(pol.acl, HopsAt(i), reading) /\ SeqAccept(pol.seq, HopsAt(i), "num")
        Opt(o, i) == AclAccept(o.acl, HopsAt(i), reading) /\ SeqAccept(o.seq, HopsAt(i), "num")
        W == {pol.opts[k].w : k \in 1..Len(pol.opts)}
        B == {i \in 1..n : Base(i)}
        \* S[w]: what the options of weight w keep (a function, so every set is computed once)
        S == [w \in W |-> {i \in B : \E k \in 1..Len(pol.opts) : pol.opts[k].w = w /\ Opt(pol.opts[k], i)}]
        live == {w \in W : S[w] # {}}
    IN IF Len(pol.opts) = 0 THEN B
       ELSE IF live = {} THEN {}
       ELSE S[CHOOSE w \in live : \A x \in live : x <= w]

PolWantSet(reading) ==
    PolWantOf([acl |-> R.acl, seq |-> R.seq, opts |-> R.opts, local |-> <<>>, remote |-> <<>>], reading, TRUE)

\* a policy with inheritance: resolve the extends lists, then filter
ExtEv ==
    IF R.panic = 1 THEN Bad("ext:panic")
    ELSE IF R.err = 1 THEN Bad("ext:valid-policy-rejected")
    ELSE \E pol \in {ResolveDef(R.top, R.pool)} :
         \E v \in {CheckKept(R.kept, Len(R.inp), PolWantOf(pol, "iface", TRUE))} :
         IF v = "" THEN Ok
         ELSE IF CheckKept(R.kept, Len(R.inp), PolWantOf(pol, "hop", TRUE)) = "" THEN Drift("ext:hop-level-reading")
         ELSE IF CheckKept(R.kept, Len(R.inp), PolWantOf(pol, "iface", FALSE)) = "" THEN Drift("ext:local-filter-keeps-src-equal-dst")
         ELSE Bad("ext" \o v \o (IF Len(R.top.ext) > 1 THEN ":extends-two" ELSE ":extends-one"))

PolEv ==
    IF R.panic = 1 THEN Bad("pol:panic")
    ELSE IF R.err = 1 THEN Bad("pol:valid-policy-rejected")
    ELSE \E v \in {CheckKept(R.kept, Len(R.inp), PolWantSet("iface"))} :
         IF v = "" THEN Ok
         ELSE IF CheckKept(R.kept, Len(R.inp), PolWantSet("hop")) = "" THEN Drift("pol:hop-level-reading")
         ELSE Bad("pol" \o v \o (IF Len(R.opts) > 0 THEN ":options" ELSE ""))

Step == /\ l <= Len(Trace)
        /\ l' = l + 1
        /\ CASE R.ev = "reset" -> paths' = R.paths /\ UNCHANGED nbad
             [] R.ev = "seq" -> SeqEv
             [] R.ev = "acl" -> AclEv
             [] R.ev = "pol" -> PolEv
             [] R.ev = "ext" -> ExtEv
             [] OTHER -> Bad("no-spec-action:" \o R.ev)

Done == /\ l = Len(Trace) + 1
        /\ PrintT(<<"VERIF-STAT", "bad", nbad>>)
        /\ PrintT(<<"VERIF-DONE", Len(Trace)>>)
        /\ UNCHANGED vars

Next == Step \/ Done
Spec == Init /\ [][Next]_vars
=============================================================================
