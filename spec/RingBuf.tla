------------------------------ MODULE RingBuf ------------------------------
(* private/ringbuf.Ring (also used as gateway pktRing/frame ring): a bounded FIFO with blocking and
   non-blocking batch Read/Write and Close, protected by one mutex and two condition variables.

   The module has two layers that share the pure operators below (one source of truth):
     * the implementation-shaped state machine (entries array, write/read index, writable/readable
       counters, explicit cond-var wait sets, Broadcast) explored exhaustively by TLC (RingBufMC.cfg);
     * the abstract queue operators (WriteOutcome/ReadOutcome) that RingBufTrace.tla applies to the
       events recorded from the real code.                                                      *)
EXTENDS RingBufOps, FiniteSets, TLC

CONSTANTS Cap,        \* capacity of the ring
          Callers,    \* set of caller ids
          MaxCalls,   \* calls per caller
          MaxBatch    \* largest batch length

Nil == -1
NoCall == [op |-> "n", len |-> 0, block |-> FALSE]

-----------------------------------------------------------------------------
(* Implementation-shaped state machine. *)
VARIABLES ents,      \* [0..Cap-1 -> value]   the slice
          wi, ri,    \* writeIndex, readIndex (0..Cap; Cap means "wrap on next use")
          writable, readable, closed,
          pc,        \* [Callers -> {"idle","waitw","waitr","wokew","woker","done"}]
          cur,       \* [Callers -> current call record or Nil]
          ncalls,    \* [Callers -> calls made]
          nextv,     \* next fresh value to write (global counter => unique values)
          wlog, rlog \* history variables: all values written / read, in linearization order

vars == <<ents, wi, ri, writable, readable, closed, pc, cur, ncalls, nextv, wlog, rlog>>

Calls == [op : {"w", "r"}, len : 0..MaxBatch, block : BOOLEAN] \cup {[op |-> "c", len |-> 0, block |-> FALSE]}

Init == /\ ents = [i \in 0..Cap-1 |-> Nil]
        /\ wi = 0 /\ ri = 0 /\ writable = Cap /\ readable = 0 /\ closed = FALSE
        /\ pc = [c \in Callers |-> "idle"] /\ cur = [c \in Callers |-> NoCall]
        /\ ncalls = [c \in Callers |-> 0] /\ nextv = 1 /\ wlog = <<>> /\ rlog = <<>>

\* the queue the implementation state represents
Q == [i \in 1..readable |-> ents[(ri + i - 1) % Cap]]

\* r.write(entries[:n]) with wrap-around, as in the code (copy to the end, then from the start)
DoWrite(vals) ==
    LET n == Len(vals)
        first == Min(n, Cap - wi)
        e1 == [i \in 0..Cap-1 |-> IF i >= wi /\ i < wi + first THEN vals[i - wi + 1] ELSE ents[i]]
        rest == n - first
        e2 == [i \in 0..Cap-1 |-> IF i < rest THEN vals[first + i + 1] ELSE e1[i]]
    IN  /\ ents' = IF rest > 0 THEN e2 ELSE e1
        /\ wi' = IF rest > 0 THEN rest ELSE wi + first

DoRead(n) ==
    LET first == Min(n, Cap - ri)
        rest == n - first
        out == [i \in 1..n |-> IF i <= first THEN ents[ri + i - 1] ELSE ents[i - first - 1]]
        e1 == [i \in 0..Cap-1 |-> IF i >= ri /\ i < ri + first THEN Nil ELSE ents[i]]
        e2 == [i \in 0..Cap-1 |-> IF i < rest THEN Nil ELSE e1[i]]
    IN  /\ ents' = IF rest > 0 THEN e2 ELSE e1
        /\ ri' = IF rest > 0 THEN rest ELSE ri + first
        /\ rlog' = rlog \o out

Broadcast(p, from, to) == [c \in Callers |-> IF p[c] = from THEN to ELSE p[c]]

\* ncalls' is assigned by Begin/Resume before the body is evaluated
Finish(c, p) == [p EXCEPT ![c] = IF ncalls'[c] >= MaxCalls THEN "done" ELSE "idle"]

\* body of Write executed with the mutex held (first entry or after a wake-up)
WriteBody(c, call) ==
    LET o == WriteOutcome(readable, Cap, closed, call.len, call.block) IN
    IF o.kind = "wait"
      THEN /\ pc' = [pc EXCEPT ![c] = "waitw"]
           /\ UNCHANGED <<ents, wi, ri, writable, readable, closed, nextv, wlog, rlog>>
    ELSE IF o.n <= 0
      THEN /\ pc' = Finish(c, pc)
           /\ UNCHANGED <<ents, wi, ri, writable, readable, closed, nextv, wlog, rlog>>
    ELSE LET vals == [i \in 1..o.n |-> nextv + i - 1] IN
           /\ DoWrite(vals)
           /\ writable' = writable - o.n /\ readable' = readable + o.n
           /\ nextv' = nextv + call.len          \* the values not written are dropped by the caller
           /\ wlog' = wlog \o vals
           /\ pc' = Finish(c, Broadcast(pc, "waitr", "woker"))     \* readableC.Broadcast()
           /\ UNCHANGED <<ri, closed, rlog>>

ReadBody(c, call) ==
    LET o == ReadOutcome(readable, Cap, closed, call.len, call.block) IN
    IF o.kind = "wait"
      THEN /\ pc' = [pc EXCEPT ![c] = "waitr"]
           /\ UNCHANGED <<ents, wi, ri, writable, readable, closed, nextv, wlog, rlog>>
    ELSE IF o.n <= 0
      THEN /\ pc' = Finish(c, pc)
           /\ UNCHANGED <<ents, wi, ri, writable, readable, closed, nextv, wlog, rlog>>
    ELSE   /\ DoRead(o.n)
           /\ writable' = writable + o.n /\ readable' = readable - o.n
           /\ pc' = Finish(c, Broadcast(pc, "waitw", "wokew"))     \* writableC.Broadcast()
           /\ UNCHANGED <<wi, closed, nextv, wlog>>

CloseBody(c) == /\ closed' = TRUE
                /\ pc' = Finish(c, Broadcast(Broadcast(pc, "waitw", "wokew"), "waitr", "woker"))
                /\ UNCHANGED <<ents, wi, ri, writable, readable, nextv, wlog, rlog>>

\* a call starts: the caller takes the mutex and runs the body once
Begin(c) == /\ pc[c] = "idle" /\ ncalls[c] < MaxCalls
            /\ \E call \in Calls :
                 /\ cur' = [cur EXCEPT ![c] = call]
                 /\ ncalls' = [ncalls EXCEPT ![c] = @ + 1]
                 /\ CASE call.op = "w" -> WriteBody(c, call)
                      [] call.op = "r" -> ReadBody(c, call)
                      [] call.op = "c" -> CloseBody(c)

\* a woken caller re-acquires the mutex and re-evaluates its loop condition
Resume(c) == /\ pc[c] \in {"wokew", "woker"}
             /\ UNCHANGED <<cur, ncalls>>
             /\ IF pc[c] = "wokew" THEN WriteBody(c, cur[c]) ELSE ReadBody(c, cur[c])

Next == \E c \in Callers : Begin(c) \/ Resume(c)

Spec == Init /\ [][Next]_vars /\ \A c \in Callers : WF_vars(Begin(c) \/ Resume(c))

-----------------------------------------------------------------------------
(* Properties (C48). *)
TypeOK == /\ wi \in 0..Cap /\ ri \in 0..Cap /\ writable \in 0..Cap /\ readable \in 0..Cap
          /\ pc \in [Callers -> {"idle", "waitw", "waitr", "wokew", "woker", "done"}]

Conservation == writable + readable = Cap

\* FIFO, each entry read at most once, none lost: everything written = everything read ++ queue
Fifo == rlog \o Q = wlog

IndexCoherent == wi % Cap = (ri + readable) % Cap

\* no lost wake-up: a caller asleep on a condition variable is never runnable
NoLostWakeup == \A c \in Callers :
                  /\ pc[c] = "waitw" => WaiterMayStayBlocked("w", readable, Cap, closed)
                  /\ pc[c] = "waitr" => WaiterMayStayBlocked("r", readable, Cap, closed)

\* slots outside the readable window hold no stale reference (read() clears them)
NoStale == \A i \in 0..Cap-1 :
             (\A k \in 1..readable : (ri + k - 1) % Cap # i) => ents[i] = Nil

\* liveness: once closed, every caller that is blocked or woken finishes its call
ClosedReleases == \A c \in Callers : (closed /\ pc[c] \in {"waitw", "waitr", "wokew", "woker"}) ~> (pc[c] \in {"idle", "done"})
=============================================================================
