---------------------------- MODULE BeaconStore ----------------------------
(* C25: beacon handling and propagation of one AS as a (small) state machine shaped like the code:
     Handle(b, inIf): the pipeline of Handler.HandleBeacon (interface lookup, PreFilter,
                      validateASEntry, verifySegment, InsertBeacon with Usage) decides "stored" or drops;
     Propagate:       Propagator.beaconsPerInterface: every stored beacon with usage Prop is sent over
                      every propagation interface unless shouldIgnore (FilterLoop over beacon ASes, local AS, neighbour).
   Every behaviour handles one beacon case and then propagates: the cases are independent (the store
   semantics across beacons is C27's), so TLC enumerates the complete table
       configurations x beacons (all ISD-AS sequences incl. loops) x next x bad signatures x ingress interface
   and checks the statement's clauses, spelled out directly, on everything stored / sent.
   With Gen = TRUE every case is printed (SCN) and executed by harness/cmd/beaconstore.        *)
EXTENDS BeaconStoreOps, TLC, Json

CONSTANTS MaxLen,     \* beacons up to MaxLen AS entries, full cross product with next / bad / interface
          ExtraLen,   \* beacons of length MaxLen+1..ExtraLen only with next = local and good signatures
          NCfg,       \* number of configurations used
          LocalInLoopCheck,  \* TRUE: the design (local AS part of the loop test); FALSE: the code before the fix
          Gen

VARIABLES cfg, stored, sent, regd, pc, last
vars == <<cfg, stored, sent, regd, pc, last>>

F(u, max, asB, isdB, loop) == [u |-> u, max |-> max, asBlack |-> asB, isdBlack |-> isdB, isdLoop |-> loop]
I(id, nbr, lt) == [id |-> id, nbr |-> nbr, lt |-> lt]

Local == 13
IAs == {11, 12, 13, 21, 22}
NonCoreIfs == <<I(1, 11, 2), I(2, 21, 1), I(3, 12, 3), I(4, 22, 4), I(5, 12, 2), I(6, 22, 3)>>
CoreIfs == <<I(1, 11, 1), I(2, 21, 1), I(3, 12, 3), I(4, 22, 4), I(5, 22, 1), I(6, 12, 1)>>
InIfs == {1, 2, 3, 4, 5, 6, 9}        \* 9 does not exist

\* configurations (JSON friendly: sequences instead of sets / functions)
Cfgs == <<
  [local |-> Local, core |-> FALSE, ifs |-> NonCoreIfs, pIsdLoop |-> TRUE,
   pols |-> <<F(8, 3, <<>>, <<>>, TRUE), F(1, 2, <<>>, <<>>, TRUE), F(2, 3, <<2>>, <<>>, FALSE)>>],
  [local |-> Local, core |-> TRUE, ifs |-> CoreIfs, pIsdLoop |-> FALSE,
   pols |-> <<F(8, 3, <<>>, <<>>, FALSE), F(4, 2, <<1>>, <<>>, TRUE)>>],
  [local |-> Local, core |-> FALSE, ifs |-> NonCoreIfs, pIsdLoop |-> FALSE,
   pols |-> <<F(8, 2, <<>>, <<2>>, TRUE), F(1, 4, <<1>>, <<>>, FALSE), F(2, 1, <<>>, <<>>, TRUE)>>],
  [local |-> Local, core |-> TRUE, ifs |-> CoreIfs, pIsdLoop |-> TRUE,
   pols |-> <<F(8, 1, <<>>, <<>>, TRUE), F(4, 4, <<>>, <<2>>, TRUE)>>],
  [local |-> Local, core |-> FALSE, ifs |-> NonCoreIfs, pIsdLoop |-> TRUE,
   pols |-> <<F(8, 4, <<3>>, <<>>, TRUE), F(1, 1, <<>>, <<1>>, TRUE), F(2, 4, <<>>, <<>>, TRUE)>>],
  [local |-> Local, core |-> TRUE, ifs |-> CoreIfs, pIsdLoop |-> FALSE,
   pols |-> <<F(8, 4, <<2>>, <<>>, TRUE), F(4, 3, <<>>, <<>>, FALSE)>>]
>>

Range(s) == {s[i] : i \in 1..Len(s)}
\* per-configuration tables, computed once (constant level)
IfsOf == [c \in 1..Len(Cfgs) |-> Range(Cfgs[c].ifs)]
PolsOf == [c \in 1..Len(Cfgs) |->
             [u \in {Cfgs[c].pols[i].u : i \in 1..Len(Cfgs[c].pols)} |->
                LET p == CHOOSE q \in Range(Cfgs[c].pols) : q.u = u IN
                [max |-> p.max, asBlack |-> Range(p.asBlack), isdBlack |-> Range(p.isdBlack), isdLoop |-> p.isdLoop]]]
C == Cfgs[cfg]
Ifs == IfsOf[cfg]
Pols == PolsOf[cfg]
PropIfs == {x \in Ifs : x.lt = IF C.core THEN 1 ELSE 3}

HopSeqs(a, b) == UNION {[1..k -> IAs] : k \in a..b}
B(h, n, bad) == [hops |-> h, next |-> n, bad |-> bad]
\* JSON form of a case
CaseJson(b, inIf) == [cfg |-> cfg, hops |-> b.hops, next |-> b.next,
                      bad |-> IF b.bad = {} THEN <<>> ELSE <<CHOOSE x \in b.bad : TRUE>>, inIf |-> inIf]

Init == /\ cfg \in 1..NCfg /\ stored = {} /\ sent = {} /\ regd = {} /\ pc = "handle"
        /\ last = [res |-> "none"]
        /\ (Gen /\ cfg = 1) => PrintT(<<"CFGS", ToJson(SubSeq(Cfgs, 1, NCfg))>>)

Handle(b, inIf) ==
    /\ pc = "handle"
    /\ LET res == Pipeline(C.local, Ifs, Pols, b, inIf) IN
       /\ stored' = IF res = "stored"
                      THEN {[b |-> b, inIf |-> inIf, usage |-> AcceptingUsages(Pols, b.hops)]} ELSE {}
       /\ last' = [res |-> res, b |-> b, inIf |-> inIf]
    /\ pc' = "prop"
    /\ Gen => PrintT(<<"SCN", ToJson(CaseJson(b, inIf))>>)
    /\ UNCHANGED <<cfg, sent, regd>>

HandleFull == \E h \in HopSeqs(1, MaxLen), n \in {Local, 12}, inIf \in InIfs :
                 \E bad \in {{}, {1}, {Len(h)}} : Handle(B(h, n, bad), inIf)
HandleExtra == \E h \in HopSeqs(MaxLen + 1, ExtraLen), inIf \in InIfs : Handle(B(h, Local, {}), inIf)

Propagate ==
    /\ pc = "prop"
    /\ sent' = UNION {{[b |-> e.b, eg |-> x.id] : x \in {y \in PropIfs : IF LocalInLoopCheck THEN MayPropagate(e.b.hops, C.local, y.nbr, C.pIsdLoop)
                                                              ELSE MayPropagateNoLocal(e.b.hops, y.nbr, C.pIsdLoop)}}
                       : e \in {s \in stored : 8 \in s.usage}}
    /\ pc' = "reg"
    /\ UNCHANGED <<cfg, stored, regd, last>>

\* WriteScheduler.Run for every segment type (1 up, 2 down, 3 core): Store.SegmentsToRegister hands out
\* the beacons stored with the usage of that type (bit 1, 2, 4); a store that does not serve the type
\* (core store: up/down, non-core store: core) registers nothing
UsageOf(t) == CASE t = 1 -> 1 [] t = 2 -> 2 [] t = 3 -> 4
Register ==
    /\ pc = "reg"
    /\ regd' = {r \in [b : {e.b : e \in stored}, t : {1, 2, 3}] :
                   \E e \in stored : e.b = r.b /\ UsageOf(r.t) \in e.usage}
    /\ pc' = "done"
    /\ UNCHANGED <<cfg, stored, sent, last>>

Next == HandleFull \/ HandleExtra \/ Propagate \/ Register
Spec == Init /\ [][Next]_vars

-----------------------------------------------------------------------------
(* The statement, clause by clause, spelled out without the operators used to compute the state. *)
NoRepeat(s) == \A i, j \in 1..Len(s) : i # j => s[i] # s[j]
NoIsdReentry(s) == \A i, k \in 1..Len(s) : (i < k /\ Isd(s[i]) = Isd(s[k])) => \A j \in i..k : Isd(s[j]) = Isd(s[i])

\* stored only if: parent or core link, last entry = neighbour of that interface and names the local
\* AS as next, all signatures verify, at least one policy accepts; stored with exactly those usages
StoredOnlyIf ==
    \A e \in stored :
        /\ \E x \in Ifs : x.id = e.inIf /\ x.lt \in {1, 2} /\ e.b.hops[Len(e.b.hops)] = x.nbr
        /\ e.b.next = C.local
        /\ e.b.bad = {}
        /\ e.usage # {}
        /\ e.usage = {u \in DOMAIN Pols : FilterAccepts(Pols[u], e.b.hops)}

\* no stored beacon exceeds a policy's maximum length or contains a blocked AS or ISD (or a loop the
\* policy forbids) for the usages it is stored with
StoredConforms ==
    \A e \in stored : \A u \in e.usage :
        /\ Len(e.b.hops) <= Pols[u].max
        /\ \A i \in 1..Len(e.b.hops) : As(e.b.hops[i]) \notin Pols[u].asBlack /\ Isd(e.b.hops[i]) \notin Pols[u].isdBlack
        /\ NoRepeat(e.b.hops)
        /\ Pols[u].isdLoop \/ NoIsdReentry(e.b.hops)

\* no beacon is propagated over an interface where it would create an AS loop (or an ISD loop when
\* those are disallowed)
SentNoLoop ==
    \A s \in sent :
        LET x == CHOOSE y \in Ifs : y.id = s.eg
            path == Append(Append(s.b.hops, C.local), x.nbr) IN
        /\ NoRepeat(path)
        /\ C.pIsdLoop \/ NoIsdReentry(path)

\* every beacon registered as a segment of some type conforms to the registration policy of that type
RegisteredConform ==
    \A r \in regd :
        LET u == UsageOf(r.t) IN
        /\ u \in DOMAIN Pols
        /\ Len(r.b.hops) <= Pols[u].max
        /\ \A i \in 1..Len(r.b.hops) : As(r.b.hops[i]) \notin Pols[u].asBlack /\ Isd(r.b.hops[i]) \notin Pols[u].isdBlack
        /\ NoRepeat(r.b.hops)
        /\ Pols[u].isdLoop \/ NoIsdReentry(r.b.hops)

\* the pipeline stores exactly when every only-if clause holds (the code is not stricter either)
PipelineExact ==
    last.res # "none" => ((last.res = "stored") <=> MayStore(C.local, Ifs, Pols, last.b, last.inIf))

\* the two loop formulations agree
ASSUME LoopDefs == \A h \in HopSeqs(1, MaxLen) : (AsLoop(h) <=> ~NoRepeat(h)) /\ (IsdLoop(h) <=> ~NoIsdReentry(h))
=============================================================================
