SPECIFICATION Spec
CONSTANTS
  N = 4
  MaxMut = 3
INVARIANTS OnlyPrefixesVerify PrefixesVerify
CHECK_DEADLOCK FALSE
