SPECIFICATION Spec
CONSTANTS
  Framing = "concat"
  MaxAttack = 1
INVARIANTS TypeOK Sound Complete ReturnsSigned
CHECK_DEADLOCK FALSE
