---------------------------- MODULE LocalDelivery ----------------------------
(* C11 — the two stages of local delivery, shaped like the code:
     stage 1  dataPlane.dstScionPort / getDstPortSCMP : packet kind -> port (or drop)
     stage 2  udpip internalLink.Resolve              : service lookup, range test, redirect
   over all packet kinds x a port grid around the range bounds x a set of ranges, for IP and
   service destinations.  Invariant: the delivered (address, port) is allowed by the statement
   (LocalDeliveryOps).  Variant selects the range test of stage 2:
     "ip-or"   ports of IP destinations outside [lo,hi] are redirected          (intended)
     "and"     `port < lo && port > hi` — never true                           (code before repair)
     "all-or"  the `||` test applied to service ports as well (a tempting minimal repair that
               breaks service delivery whenever the instance's port is outside the range)
     "nexthdr" stage 1 looks at the next-header field of the SCION common header instead of the one of
               the last extension header: packets behind a hop-by-hop / end-to-end extension are
               treated as unknown layer 4 and go to 30041 although their port is in range
   Packets may carry extension headers (ext): the port derivation must not depend on them.       *)
EXTENDS LocalDeliveryOps, TLC

CONSTANTS Variant, RangeSet    \* RangeSet: "small" | "large"

\* ranges in force: 1024-65535, the recommended 31000-32767, the empty range "-", "all", a single
\* port; and (large) inverted / low / around-30041 ranges as router-config overrides can produce
Ranges == {<<1024, 65535>>, <<31000, 32767>>, <<0, 0>>, <<1, 65535>>, <<40000, 40000>>} \cup
          (IF RangeSet = "large"
             THEN {<<2000, 0>>, <<1, 1023>>, <<30041, 30100>>, <<1, 30040>>, <<30042, 65535>>, <<0, 65535>>}
             ELSE {})

SvcInst == {<<"cs1", 30252>>, <<"cs2", 31000>>}     \* registered instances (address, port)

VARIABLES pc, pkt, range, port, out
vars == <<pc, pkt, range, port, out>>

Grid(r) == {p \in {0, 1, r[1] - 1, r[1], (r[1] + r[2]) \div 2, r[2], r[2] + 1, EndhostPort, 65535, 30252} :
               p >= 0 /\ p <= 65535}
NoPkt == [kind |-> "-", field |-> 0, dst |-> "-", ext |-> "-"]
Exts == {"none", "hbh", "e2e", "hbh+e2e"}
NoOut == <<"-", -1>>

Init == pc = "recv" /\ pkt = NoPkt /\ range = <<0, 0>> /\ port = -1 /\ out = NoOut

Recv == /\ pc = "recv"
        /\ \E r \in Ranges : \E k \in Kinds, f \in Grid(r), d \in {"ip", "svc"}, x \in Exts :
              /\ (d = "svc" => k = "udp")
              /\ range' = r /\ pkt' = [kind |-> k, field |-> f, dst |-> d, ext |-> x]
        /\ pc' = "stage1" /\ UNCHANGED <<port, out>>

\* dstScionPort: only evaluated for IP destinations; 0 is passed for service destinations
Stage1 == /\ pc = "stage1"
          /\ IF pkt.dst = "svc" THEN port' = 0 /\ pc' = "stage2"
             ELSE IF pkt.kind = "err-udp" /\ pkt.field = 0 THEN port' = -1 /\ pc' = "dropped"
             \* getDstPortSCMP: a quote that does not decode down to a complete UDP / SCMP header is an error
             ELSE IF pkt.kind \in NoPort \cup Partial THEN port' = -1 /\ pc' = "dropped"
             ELSE /\ port' = IF pkt.kind \in Defaults \/ (Variant = "nexthdr" /\ pkt.ext # "none")
                             THEN EndhostPort ELSE pkt.field
                  /\ pc' = "stage2"
          /\ UNCHANGED <<pkt, range, out>>

Redirect(p) == IF Variant = "and" THEN (IF p < range[1] /\ p > range[2] THEN EndhostPort ELSE p)
               ELSE (IF p < range[1] \/ p > range[2] THEN EndhostPort ELSE p)

\* internalLink.Resolve
Stage2 == /\ pc = "stage2"
          /\ IF pkt.dst = "svc"
               THEN \E i \in SvcInst :
                      out' = <<i[1], IF Variant = "all-or" THEN Redirect(i[2]) ELSE i[2]>>
               ELSE out' = <<"host", Redirect(port)>>
          /\ pc' = "delivered" /\ UNCHANGED <<pkt, range, port>>

Next == Recv \/ Stage1 \/ Stage2
Spec == Init /\ [][Next]_vars

-----------------------------------------------------------------------------
DeliveredToAllowedPort ==
    (pc = "delivered" /\ pkt.dst = "ip") =>
        out[1] = "host" /\ out[2] \in AllowedPorts(pkt.kind, pkt.field, range[1], range[2])
ServiceToRegisteredInstance == (pc = "delivered" /\ pkt.dst = "svc") => out \in SvcInst
=============================================================================
