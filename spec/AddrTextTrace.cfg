SPECIFICATION Spec
CONSTANTS
  Fallback = TRUE
CHECK_DEADLOCK FALSE
