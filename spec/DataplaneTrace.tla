--------------------------- MODULE DataplaneTrace ---------------------------
(* Trace specification for the journey properties of the border-router data plane.

   The driver (harness/cmd/dp) builds real beacons, real combined paths and one real data plane per
   border router, walks packets from router to router and logs, per router visit, the projection
   of the packet before and after, the disposition, the egress, the byte diff.  This module
   re-computes what the listed property demands and reports <<"VERIF-BAD", line, key>>.

   Prop selects the property monitor (one TLC run per property):
     "C02"  request leg of honest journeys follows meta.Interfaces and is delivered at dst
     "C03"  reply leg (real reversal code) is accepted everywhere, crosses the same interfaces in
            reverse and is delivered at the source host
     "C22"  the accumulator in force at every validation = construction-time accumulator
     "C07"  forwarded bytes differ only in the path's mutable state
     "C10"  SCMP answers travel back; traceroute answered by the owner of the flagged interface
     "C04"  tampered packets are not delivered and die no later than the first dependent validation
   Everything else (full conformance post = RouterStep(pre)) is reported as VERIF-DRIFT only.   *)
EXTENDS DataplaneOps, TLC, Json

CONSTANT Prop

Trace == ndJsonDeserialize("trace.ndjson")

VARIABLES topo,     \* current topology record
          J,        \* current journey (reset record)
          leg,      \* "req" | "rep" | "scmp" | "done"
          k,        \* inter-AS links crossed on the current leg
          at,       \* expected next arrival [as, scope, inif, r, from]
          st,       \* journey bookkeeping record
          failed, l

vars == <<topo, J, leg, k, at, st, failed, l>>
R == Trace[l]

Bits(n) == IF n < 0 THEN {-1} ELSE {i \in 0..15 : (n \div (2^i)) % 2 = 1}
ToHop(h) == [in |-> h.in, eg |-> h.eg, as |-> h.as, bc |-> Bits(h.bc), ok |-> h.ok, ia |-> h.ia,
             ea |-> h.ea, sig |-> Bits(h.sig), x |-> h.x]
ToInf(i) == [c |-> i.c, p |-> i.p, sid |-> Bits(i.sid)]
ToPkt(j) == [src |-> j.src, dst |-> j.dst, ci |-> j.ci, ch |-> j.ch, sl |-> j.sl, mo |-> j.mo, pt |-> j.pt,
             infos |-> [i \in DOMAIN j.infos |-> ToInf(j.infos[i])],
             hops |-> [i \in (j.hw + 1)..(j.hw + Len(j.hops)) |-> ToHop(j.hops[i - j.hw])]]

NoAt == [as |-> "", scope |-> "none", inif |-> 0, r |-> -1, from |-> -1]
St0 == [refVisits |-> <<>>, refOK |-> FALSE, reqDelivered |-> FALSE, repDelivered |-> FALSE, died |-> 0, hopsSeen |-> 0,
        answered |-> 0, answer |-> "", scmpDelivered |-> FALSE]
EmptyJ == [id |-> 0, mode |-> "", src |-> "", dst |-> "", sh |-> "", dh |-> "", ifs |-> <<>>,
           pt |-> "", l4 |-> "", rev |-> ""]
EmptyT == [name |-> "", ases |-> <<>>, links |-> <<>>, ends |-> {}]

Init == /\ topo = EmptyT /\ J = EmptyJ /\ leg = "done" /\ k = 0 /\ at = NoAt /\ st = St0
        /\ failed = FALSE /\ l = 1

Bad(key) == /\ PrintT(<<"VERIF-BAD", l, key>>)
            /\ failed' = TRUE
            /\ UNCHANGED <<topo, J, leg, k, at, st>>
Drift(key) == PrintT(<<"VERIF-DRIFT", l, key>>)

B2S(b) == IF b THEN "T" ELSE "F"

\* ------------------------------------------------------------------ the walk (harness integrity)
\* where a packet leaving (as, r) arrives, computed from the topology in the trace
NextAt(as, r, out, egress, dstaddr) ==
    IF out = "ext" THEN
        IF HasIf(topo, as, egress)
        THEN LET e == EndOf(topo, as, egress) IN
             [as |-> e.pas, scope |-> "ext", inif |-> e.pif, r |-> e.pr, from |-> -1]
        ELSE NoAt
    ELSE IF out = "sib" THEN
        IF HasIf(topo, as, egress)
        THEN [as |-> as, scope |-> "sib", inif |-> 0, r |-> EndOf(topo, as, egress).r, from |-> r]
        ELSE NoAt
    ELSE NoAt

AtMatches == /\ R.as = at.as /\ R.scope = at.scope /\ R.inif = at.inif
             /\ (at.r >= 0 => R.r = at.r)
             /\ (at.scope = "sib" => R.sibfrom = at.from)

\* interface list of the current leg: request = meta.Interfaces, reply = its reverse
Ifs == IF leg = "rep" THEN Rev(J.ifs) ELSE J.ifs
NLinks == Len(J.ifs) \div 2
LegDst == IF leg = "rep" THEN J.src ELSE J.dst
LegHost == IF leg = "rep" THEN J.sh ELSE J.dh

Shape(p) == ToString(p.sl[1]) \o "-" \o ToString(p.sl[2]) \o "-" \o ToString(p.sl[3])
HopKey(pre) ==
    LET p == ToPkt(pre) IN
    PosClass(p) \o (IF WellFormedPtr(p) THEN (IF CurInf(p).c THEN ":cons" ELSE ":noncons") ELSE "")
OutcomeKey == R.disp \o (IF R.disp = "slow" THEN ":t" \o ToString(R.slow.type) \o "c" \o ToString(R.slow.code)
                         ELSE IF R.disp = "forward" THEN ":" \o R.out ELSE "")

\* ------------------------------------------------------------------ C02 / C03: honest legs
\* what the statement demands of a router visit on an honest leg; "" = fine, else a key
HonestHopVerdict ==
    IF R.disp # "forward" THEN "not-forwarded:" \o OutcomeKey \o "@" \o HopKey(R.pre)
    ELSE IF R.out = "int" THEN
        IF k # NLinks \/ R.as # LegDst THEN "delivered-early-or-elsewhere@" \o HopKey(R.pre)
        ELSE IF R.dst # LegHost THEN "delivered-to-wrong-underlay-address"
        ELSE ""
    ELSE IF k >= NLinks THEN "forwarded-beyond-destination@" \o HopKey(R.pre)
    ELSE IF R.as # Ifs[2 * k + 1].as \/ R.egress # Ifs[2 * k + 1]["if"]
        THEN "egress-differs-from-path-metadata@" \o HopKey(R.pre)
    ELSE IF R.out = "ext" THEN
        LET n == NextAt(R.as, R.r, "ext", R.egress, R.dst) IN
        IF n.as # Ifs[2 * k + 2].as \/ n.inif # Ifs[2 * k + 2]["if"]
        THEN "next-ingress-differs-from-path-metadata@" \o HopKey(R.pre) ELSE ""
    ELSE IF R.out = "sib" THEN ""
    ELSE "forwarded-to-unknown-link@" \o HopKey(R.pre)

\* ------------------------------------------------------------------ C22
\* accumulator the router had in force when it validated: in construction direction the value that
\* arrived, against it the value it wrote back (observed bytes; no arithmetic)
C22V(p, q) ==
    IF ~WellFormedPtr(p) THEN "" ELSE
    LET i1 == CurInf(p)  h1 == CurHop(p)
        used1 == IF i1.c THEN i1.sid ELSE q.infos[p.ci + 1].sid
        macerr == R.disp = "slow" /\ R.slow.type = 4 /\ R.slow.code = 51
        xo == IsXover(p) /\ ~PeerOf(p) /\ p.dst # R.as
        cls == PosClass(p) \o (IF i1.c THEN ":cons" ELSE ":noncons")
    IN
    IF ~h1.ok THEN "hop-not-authentic-under-construction-beta@" \o cls
    ELSE IF macerr /\ R.post.ch = R.pre.ch THEN "router-rejects-mac-of-authentic-hop@" \o cls
    ELSE IF used1 # h1.bc THEN "segid-in-force-differs-from-construction-beta@" \o cls
    ELSE IF xo THEN
        LET i2 == p.infos[p.ci + 2]  h2 == p.hops[p.ch + 2] IN
        IF ~h2.ok THEN "xover-hop-not-authentic@" \o cls
        ELSE IF macerr THEN "router-rejects-mac-of-authentic-xover-hop@" \o cls
        ELSE IF i2.sid # h2.bc THEN "xover-segid-differs-from-construction-beta@" \o cls
        ELSE ""
    ELSE ""

\* Force(S) evaluates its argument once (TLC evaluates LET definitions lazily, at every use)
Force(S) == CHOOSE v \in S : TRUE
C22Verdict == Force({C22V(Force({ToPkt(R.pre)}), Force({ToPkt(R.post)}))})

\* ------------------------------------------------------------------ C07
C07V(p, q) ==
    IF R.disp # "forward" THEN ""
    ELSE IF R.lenout # R.pre.len THEN "length-changed"
    ELSE LET bad == {i \in DOMAIN R.diff : ~DiffAllowed(p, q, R.diff[i])} IN
         IF bad = {} THEN ""
         ELSE LET d == R.diff[CHOOSE i \in bad : \A j \in bad : i <= j]
                  off == d[1] - p.mo
                  where == IF p.pt = "ohp" THEN (IF off < 0 THEN "before-path" ELSE IF off < 32 THEN "one-hop-path" ELSE "after-path")
                           ELSE IF off < 0 THEN "before-path"
                           ELSE IF off < 4 THEN "path-meta"
                           ELSE IF off < 4 + 8 * NumInf(p) THEN "info-field"
                           ELSE IF off < 4 + 8 * NumInf(p) + 12 * NumHops(p) THEN "hop-field"
                           ELSE "after-path"
              IN "changed-bytes-in:" \o where \o "@" \o HopKey(R.pre)

C07Verdict == Force({C07V(Force({ToPkt(R.pre)}), Force({ToPkt(R.post)}))})

\* ------------------------------------------------------------------ drift: full conformance
DriftCheck ==
    \* bound variables force one evaluation of each conversion (TLC evaluates LET lazily)
    \E p \in {ToPkt(R.pre)}, q \in {ToPkt(R.post)} :
    \E s \in {RouterStep(topo, R.as, R.r, R.scope, R.inif, R.sibfrom, {}, p)} :
    LET same == /\ s.disp = R.disp
                /\ (s.disp = "forward" => s.out = R.out /\ s.egress = R.egress)
                /\ (s.disp = "slow" => s.type = R.slow.type /\ s.code = R.slow.code)
                /\ (s.disp = "forward" => s.pkt.ch = q.ch /\ s.pkt.ci = q.ci
                        /\ \A i \in DOMAIN q.infos : s.pkt.infos[i].sid = q.infos[i].sid)
    IN IF same THEN TRUE
       ELSE Drift("router-step:model=" \o s.disp \o ",impl=" \o OutcomeKey \o "@" \o HopKey(R.pre))

\* ------------------------------------------------------------------ C04: single-value tampering
\* first hop field (0-based) whose MAC input depends on the altered value: the hop itself for
\* ConsIngress / ConsEgress / ExpTime / MAC, the first hop of the segment for SegID / Timestamp
\* (in either direction the first hop traversed is validated against the info field as sent)
DepHop(kind, pos, sl) ==
    IF kind \in {"hop.in", "hop.eg", "hop.exp", "hop.mac"} THEN pos
    ELSE IF pos = 0 THEN 0 ELSE IF pos = 1 THEN sl[1] ELSE sl[1] + sl[2]
\* hop fields validated by the router visit that receives the packet with CurrHF = c
ValidatedAt(p0, c) ==
    LET p == [p0 EXCEPT !.ch = c, !.ci = InfIdx(p0, c)] IN
    IF IsXover(p) /\ ~PeerOf(p) THEN {c, c + 1} ELSE {c}
C04V(p0) ==
    LET h == DepHop(R.kind, R.pos, p0.sl)
        vs == {v \in DOMAIN st.refVisits : h \in ValidatedAt(p0, st.refVisits[v])}
        bound == IF vs = {} THEN 0 ELSE CHOOSE v \in vs : \A u \in vs : v <= u
        p == [p0 EXCEPT !.ch = h, !.ci = InfIdx(p0, h)]
        cls == PosClass(p) \o (IF CurInf(p).c THEN ":cons" ELSE ":noncons")
    IN IF R.delivered THEN R.kind \o ":delivered-to-destination@" \o cls
       ELSE IF R.hostas # -1 THEN R.kind \o ":handed-to-a-host@" \o cls
       ELSE IF bound = 0 THEN "harness:dependent-hop-never-validated"
       ELSE IF R.died + 1 > bound THEN R.kind \o ":survives-first-dependent-validation@" \o cls
       ELSE ""
Ref == /\ st' = [st EXCEPT !.refVisits = R.visits, !.refOK = R.delivered]
       /\ UNCHANGED <<topo, J, leg, k, at, failed>>
\* every tamper line is an independent case: no latch
Tamper == /\ IF Prop = "C04" /\ st.refOK
             THEN LET v == Force({C04V(Force({ToPkt(J.pkt)}))}) IN
                  IF v = "" THEN TRUE ELSE PrintT(<<"VERIF-BAD", l, v>>)
             ELSE TRUE
          /\ UNCHANGED <<topo, J, leg, k, at, st, failed>>

\* ------------------------------------------------------------------ C10
\* C10: an answer on its way back must be forwarded by every router and handed to the source host
C10HopVerdict ==
    IF R.disp # "forward" THEN "not-forwarded:" \o OutcomeKey \o "@" \o HopKey(R.pre)
    ELSE IF R.out = "int" /\ (R.as # J.src \/ R.dst # J.sh) THEN "delivered-elsewhere@" \o HopKey(R.pre)
    ELSE IF R.out \notin {"int", "ext", "sib"} THEN "forwarded-to-unknown-link@" \o HopKey(R.pre)
    ELSE ""

ScmpKey == "t" \o ToString(R.m.type) \o "c" \o ToString(R.m.code)
\* traceroute: answered by the router that owns the flagged interface, with (local IA, interface)
AlertVerdict ==
    IF ~R.built \/ ~R.m.is THEN "traceroute:no-reply-built"
    ELSE IF R.m.type # 131 THEN "traceroute:answered-with-" \o ScmpKey
    ELSE IF st.answered >= 1 THEN "traceroute:answered-twice"
    ELSE IF R.as # J.desc.as THEN "traceroute:answered-by-another-as:" \o J.desc.side
    ELSE IF ~HasIf(topo, R.as, J.desc["if"]) \/ EndOf(topo, R.as, J.desc["if"]).r # R.r
         THEN "traceroute:answered-by-router-not-owning-the-interface:" \o J.desc.side
    ELSE IF R.m.ia # R.as \/ R.m["if"] # J.desc["if"] THEN "traceroute:reply-reports-other-interface:" \o J.desc.side
    ELSE ""

\* ------------------------------------------------------------------ events
TopoEv == /\ topo' = WithEnds(R.t) /\ UNCHANGED <<J, leg, k, at, st, failed>>

\* a journey that ends without the delivery its property demands
JourneyEnd ==
    IF failed THEN ""
    ELSE IF Prop = "C10" /\ J.mode \in {"fault", "alert"} THEN
        IF st.answered >= 1 /\ ~st.scmpDelivered THEN "answer:" \o st.answer \o ":not-delivered-to-source"
        ELSE IF J.mode = "alert" /\ st.answered = 0 THEN "traceroute:not-answered:" \o J.desc.side
        ELSE ""
    ELSE IF J.mode \notin {"honest", "ohp"} THEN ""
    ELSE IF Prop = "C02" /\ J.mode = "honest" /\ J.pt = "scion" /\ ~st.reqDelivered /\ Len(J.ifs) > 0
         THEN "req:journey-ends-without-delivery"
    ELSE IF Prop = "C03" /\ st.reqDelivered /\ J.rev # "none" /\ ~st.repDelivered
         THEN "rep:journey-ends-without-delivery"
    ELSE ""
\* outside the listed properties (C03 speaks about delivered requests only): an honest EPIC or
\* one-hop request that does not arrive is reported as drift
EndNote == IF ~failed /\ J.mode \in {"honest", "ohp"} /\ J.pt # "scion" /\ ~st.reqDelivered /\ Len(J.ifs) > 0
           THEN Drift("request-not-delivered:" \o J.pt) ELSE TRUE
EndOK == /\ EndNote
         /\ IF JourneyEnd = "" THEN TRUE ELSE PrintT(<<"VERIF-BAD", l - 1, JourneyEnd>>)

Reset == /\ EndOK
         /\ J' = R /\ leg' = "req" /\ k' = 0 /\ st' = St0 /\ failed' = FALSE
         /\ at' = [as |-> R.src, scope |-> "int", inif |-> 0, r |-> -1, from |-> -1]
         /\ UNCHANGED topo

Advance ==
    \* bookkeeping after an accepted router visit
    /\ k' = IF R.disp = "forward" /\ R.out = "ext" THEN k + 1 ELSE k
    /\ at' = IF R.disp = "forward" THEN NextAt(R.as, R.r, R.out, R.egress, R.dst) ELSE NoAt
    /\ st' = [st EXCEPT !.hopsSeen = @ + 1,
                        !.reqDelivered = @ \/ (leg = "req" /\ R.disp = "forward" /\ R.out = "int"
                                               /\ R.as = J.dst /\ R.dst = J.dh),
                        !.repDelivered = @ \/ (leg = "rep" /\ R.disp = "forward" /\ R.out = "int"
                                               /\ R.as = J.src /\ R.dst = J.sh),
                        !.scmpDelivered = @ \/ (leg = "scmp" /\ R.disp = "forward" /\ R.out = "int"
                                               /\ R.as = J.src /\ R.dst = J.sh)]
    /\ UNCHANGED <<topo, J, leg, failed>>

Hop ==
    IF ~AtMatches THEN Bad("harness:walk-does-not-follow-topology")
    ELSE IF leg # "scmp" /\ R.j # leg THEN Bad("harness:leg-tag")
    ELSE
    LET honest == J.mode = "honest"
        v == IF Prop = "C02" /\ honest /\ J.pt = "scion" /\ leg = "req" THEN HonestHopVerdict
             ELSE IF Prop = "C03" /\ J.mode \in {"honest", "ohp"} /\ leg = "rep" THEN HonestHopVerdict
             ELSE IF Prop = "C22" /\ honest /\ leg \in {"req", "rep"} THEN C22Verdict
             ELSE IF Prop = "C07" THEN C07Verdict
             ELSE IF Prop = "C10" /\ leg = "scmp" /\ J.mode \in {"fault", "alert"} THEN C10HopVerdict
             ELSE ""
    IN IF v # "" THEN Bad((IF leg = "scmp" THEN "answer:" \o st.answer ELSE leg) \o ":" \o v)
       ELSE /\ (honest /\ leg \in {"req", "rep"} /\ R.pre.pt \in {"scion", "epic"} => DriftCheck)
            /\ Advance

Host == \* a host received a packet (observation; delivery was judged at the hop event)
    UNCHANGED <<topo, J, leg, k, at, st, failed>>

Reply == \* the destination host answers along the reversed path (real reversal code)
    IF ~st.reqDelivered THEN Bad("harness:reply-without-delivery")
    ELSE /\ leg' = "rep" /\ k' = 0
         /\ at' = [as |-> J.dst, scope |-> "int", inif |-> 0, r |-> -1, from |-> -1]
         /\ UNCHANGED <<topo, J, st, failed>>

Scmp == \* the slow path produced (or not) an answer
    IF ((Prop = "C02" /\ leg = "req" /\ J.mode = "honest" /\ J.pt = "scion")
        \/ (Prop = "C03" /\ leg = "rep" /\ J.mode \in {"honest", "ohp"}))
    THEN Bad(leg \o ":slow-path-on-honest-journey")
    ELSE IF Prop = "C10" /\ J.mode = "alert" /\ leg = "req" /\ ~R.err /\ AlertVerdict # "" THEN Bad(AlertVerdict)
    ELSE LET ans == ~R.err /\ R.built /\ R.m.is IN
         /\ leg' = "scmp" /\ k' = 0
         /\ at' = IF R.err THEN NoAt
                  ELSE IF R.out = "ext" THEN NextAt(R.as, R.r, "ext", R.inif, R.dst)
                  ELSE IF R.out = "sib" THEN [as |-> R.as, scope |-> "sib", inif |-> 0, r |-> -1, from |-> R.r]
                  ELSE NoAt
         /\ st' = IF ans /\ leg # "scmp"
                  THEN [st EXCEPT !.answered = @ + 1, !.answer = ScmpKey,
                                  !.scmpDelivered = R.out = "int" /\ R.as = J.src /\ R.dst = J.sh]
                  ELSE st
         /\ UNCHANGED <<topo, J, failed>>

HostErr ==
    IF Prop = "C03" /\ J.mode \in {"honest", "ohp"} THEN Bad("rep:host-cannot-reverse:" \o J.pt)
    ELSE UNCHANGED <<topo, J, leg, k, at, st, failed>>

Step == /\ l <= Len(Trace)
        /\ l' = l + 1
        /\ IF R.ev = "topo" THEN TopoEv
           ELSE IF R.ev = "skip" THEN
                \* the combinator returned a path that cannot be put on the wire (not serializable /
                \* not decodable): no router can accept it
                /\ IF Prop = "C02" THEN PrintT(<<"VERIF-BAD", l, "req:combined-path-cannot-be-sent">>) ELSE TRUE
                /\ UNCHANGED <<topo, J, leg, k, at, st, failed>>
           ELSE IF R.ev = "panic" THEN   \* the real code crashed: there is no specification action for that
                /\ PrintT(<<"VERIF-BAD", l, "panic-in:" \o R.where>>)
                /\ UNCHANGED <<topo, J, leg, k, at, st, failed>>
           ELSE IF R.ev = "reset" THEN Reset
           ELSE IF failed THEN UNCHANGED <<topo, J, leg, k, at, st, failed>>
           ELSE CASE R.ev = "hop" -> Hop
                  [] R.ev = "host" -> Host
                  [] R.ev = "reply" -> Reply
                  [] R.ev = "ref" -> Ref
                  [] R.ev = "tamper" -> Tamper
                  [] R.ev = "scmp" -> Scmp
                  [] R.ev = "hosterr" -> HostErr
                  [] R.ev = "stuck" -> Bad("packet-loops")
                  [] R.ev = "skip" -> UNCHANGED <<topo, J, leg, k, at, st, failed>>
                  [] OTHER -> Bad("no-spec-action:" \o R.ev)

Done == /\ l = Len(Trace) + 1
        /\ EndOK
        /\ PrintT(<<"VERIF-DONE", Len(Trace)>>)
        /\ UNCHANGED vars

Next == Step \/ Done
Spec == Init /\ [][Next]_vars
=============================================================================
