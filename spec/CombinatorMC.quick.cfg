SPECIFICATION Spec
CONSTANTS
  TopoId = "T1"
  Runs = {0}
  MaxSegs = 2
  MaxLen = 3
  HopLimit = 6
  SegLimit = 3
INVARIANTS TypeOK GraphEqualsDefinition WeightIsLinks PathsAreWalks HopFieldsVerify MtuIsTopologyMinimum ResultOK
CHECK_DEADLOCK FALSE
