SPECIFICATION Spec
CONSTANTS
  MaxOps = 3
  Cascade = FALSE
INVARIANTS Represents QueriesAgree
CHECK_DEADLOCK FALSE
