-------------------------- MODULE WireAuthTrace --------------------------
(* Trace specification for C21.  Every line is one base packet (path kind `pk`, segment lengths
   `segs`, SPI kind `spi`, path representation `rep`) handed to the real spao.ComputeAuthCMAC, with
     flips = <<field, offset, bit, changed, built>> :
       the authenticator the real code computes after flipping that single bit of that single field
       differs (changed = 1) or not (0) from the base authenticator; built = 0: the flipped value
       could not be turned into a packet (e.g. the path no longer decodes) -- not judged.
   Fields: version tc flowid nexthdr hdrlen payloadlen pathtype dt dl st sl dstia srcia dsthost
   srchost path l4type payload payloadsize alg ts spi.  For `path` the offset is the byte offset in
   the raw path and TLC classifies it with the documented layout (WireOps!PathFieldAt).

   Monitor: changed <=> WireOps!AuthClass(...) = "covered" for every classified bit.             *)
EXTENDS WireOps, TLC, Json

Trace == ndJsonDeserialize("trace.ndjson")
VARIABLE l
vars == <<l>>
R == Trace[l]

Bad(key) == PrintT(<<"VERIF-BAD", l, key>>)

Label(f) == IF f[1] = "tc" THEN "tc:bit" \o ToString(f[3])
            ELSE IF f[1] = "path" THEN "path:" \o PathFieldAt(R.pk, R.segs, f[2], f[3])
            ELSE f[1]

AuthCheck ==
    \A j \in 1..Len(R.flips) :
       LET f == R.flips[j]
           cls == AuthClass(R.pk, R.segs, R.spi, f[1], f[2], f[3])
           k == "auth:" \o R.pk \o ":" \o R.spi \o ":" \o Label(f) IN
       IF f[5] = 0 \/ cls = "unspecified" THEN TRUE
       ELSE IF cls = "covered" /\ f[4] = 0 THEN Bad(k \o ":covered-but-unchanged")
       ELSE IF cls = "excluded" /\ f[4] = 1 THEN Bad(k \o ":excluded-but-changed")
       ELSE TRUE

Init == l = 1
Step == /\ l <= Len(Trace)
        /\ l' = l + 1
        /\ CASE R.ev = "auth" -> AuthCheck
             [] R.ev = "reset" -> TRUE
             [] R.ev = "error" -> Bad("mac-error:" \o R.pk \o ":" \o R.spi)
             [] OTHER -> Bad("no-spec-action:" \o R.ev)
Done == /\ l = Len(Trace) + 1
        /\ PrintT(<<"VERIF-DONE", Len(Trace)>>)
        /\ UNCHANGED vars
Next == Step \/ Done
Spec == Init /\ [][Next]_vars
=============================================================================
