SPECIFICATION Spec
CONSTANTS
  Cap = 2
  Callers = {1, 2, 3}
  MaxCalls = 2
  MaxBatch = 3
INVARIANTS TypeOK Conservation Fifo IndexCoherent NoLostWakeup NoStale
PROPERTIES ClosedReleases
CHECK_DEADLOCK FALSE
