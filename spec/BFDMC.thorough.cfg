SPECIFICATION Spec
CONSTANTS
  Rel = "rfc"
  Budget = 3
INVARIANTS TypeOK NeverAdminDown UpMeansPeerAlive KnowsPeer
PROPERTIES SilenceMeansDown Recovers
CHECK_DEADLOCK FALSE
