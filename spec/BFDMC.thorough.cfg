SPECIFICATION Spec
CONSTANTS
  Rel = "rfc"
  Budget = 3
  Foreign = FALSE
INVARIANTS TypeOK NeverAdminDown UpMeansPeerAlive KnowsPeer
PROPERTIES SilenceMeansDown Recovers
CHECK_DEADLOCK FALSE
