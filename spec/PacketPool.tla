------------------------------ MODULE PacketPool ------------------------------
(* C14 -- every packet buffer of the router's pool has exactly one owner at a time.

   Implementation-shaped model of the buffer flow in router/dataplane.go and
   router/underlayproviders/udpip/udpip.go, one action per channel operation / pool operation:

     receiver c   udpConnection.receive: pre-fetch (pool.Get into packets[i]), ReadBatch returning
                  k <= batch messages, per message the link's receive (procQ send | Put when the queue
                  is busy | Put when invalid; on the internal connection invalid packets go to the
                  internal link's own queue), return of the unused pre-fetch at exit
     processor p  dataPlane.runProcessor: take from procQ; Put (done / discard / nil egress) |
                  slow path (slowQ send | Put when busy) | forward (link.Send | Put when busy)
     slow s       dataPlane.runSlowPathProcessor: error -> Put | reply: ingress link Send | Put
     int          udpip.internalLink.runProcessor (STUN): error / drop -> Put | Send | Put; drains its
                  queue into the pool on stop
     sender c     udpConnection.send: readUpTo, WriteBatch returning w in 0..toWrite (error = 0),
                  Put of pkts[:w], drop (Put) of pkts[w] on a partial write, shift of the rest
     bfd k        bfdSend.Send: Get, link.Send | Put
     stop         provider.Stop: connections one after the other (running=false, socket and queue
                  closed, wait for receiver and sender), then the internal link's processor

   The pool is a counter per buffer (a channel holding the same pointer twice is count 2).  Get takes
   the smallest free buffer: free buffers are indistinguishable (they occur nowhere else as long as
   OwnerUnique holds, and the first state violating it is reported), so every behaviour of the FIFO
   channel is a renaming of a behaviour of this model; no SYMMETRY set is needed.
   Ownership is structural: Count(b) sums the places that currently own b; nothing is
   tracked by a history variable, so a forgotten Put shows as Count = 0 and a second Put (or a
   stage that keeps using a buffer it passed on) as Count = 2.

   Constants select small variants:
     StopMode  "none"  : no shutdown
               "quiet" : shutdown only after the environment has quiesced the pipeline between
                         receivers and egress queues (what the driver does); packets in egress
                         queues / sender batches at that time stay "owned by the queue" (DESIGN D10)
               "any"   : Shutdown at any time, as dataPlane.Shutdown permits: a processor / BFD sender
                         may then Send on a closed channel (panic); only used to *show* that, never
                         for a verdict
     BfdSerErr TRUE    : bfdSend.Send may fail to serialize and return without Put (DESIGN D10,
                         believed unreachable); only used to show the leak in the model           *)
EXTENDS PacketPoolOps, FiniteSets, TLC

CONSTANTS NBuf,      \* pool size; buffers are 1..NBuf
          NC,        \* connections 1..NC; 1 = internal (unconnected) one, the others external
          Batch,     \* RunConfig.BatchSize
          NP, NS,    \* processors, slow-path processors
          QProc, QSlow, QInt, QEg,    \* channel capacities
          MaxPkts,   \* packets the environment delivers through ReadBatch
          MaxBfd,    \* BFD packets the sessions send
          StopMode, BfdSerErr

Bufs == 1..NBuf
NoBuf == 0
Conns == 1..NC
Procs == 1..NP
Slows == 1..NS
Slots == 1..Batch
BfdConns == 2..NC

VARIABLES pool,      \* [Bufs -> 0..2]  number of times the buffer is inside PacketPool.pool
          run,       \* [Conns -> BOOLEAN]  udpConnection.running (FALSE: socket and queue closed too)
          rpc, rslots, ra, rb,           \* receivers
          procQ, pcur, slowQ, scur,      \* processors, slow-path processors
          intQ, icur, ipc, istop,        \* internal link processor
          egQ, spc, spk, stw, swr, si,   \* egress queues and senders
          bcur,      \* [Conns -> buffer held by the BFD sender of that link]
          inj, nbfd, \* environment budgets
          stp,       \* provider.Stop progress: 0 not started, c waiting for connection c,
                     \* NC+1 waiting for the internal link, NC+2 stopped
          panicked   \* a goroutine sent on a closed channel

rvars == <<rpc, rslots, ra, rb>>
pvars == <<procQ, pcur>>
svars == <<slowQ, scur>>
ivars == <<intQ, icur, ipc, istop>>
evars == <<egQ, spc, spk, stw, swr, si>>
vars == <<pool, run, rvars, pvars, svars, ivars, evars, bcur, inj, nbfd, stp, panicked>>

Init == /\ pool = [b \in Bufs |-> 1]
        /\ run = [c \in Conns |-> TRUE]
        /\ rpc = [c \in Conns |-> "top"] /\ rslots = [c \in Conns |-> [i \in Slots |-> NoBuf]]
        /\ ra = [c \in Conns |-> Batch] /\ rb = [c \in Conns |-> 0]
        /\ procQ = [p \in Procs |-> <<>>] /\ pcur = [p \in Procs |-> NoBuf]
        /\ slowQ = [s \in Slows |-> <<>>] /\ scur = [s \in Slows |-> NoBuf]
        /\ intQ = <<>> /\ icur = NoBuf /\ ipc = "run" /\ istop = FALSE
        /\ egQ = [c \in Conns |-> <<>>] /\ spc = [c \in Conns |-> "top"]
        /\ spk = [c \in Conns |-> [i \in Slots |-> NoBuf]]
        /\ stw = [c \in Conns |-> 0] /\ swr = [c \in Conns |-> 0] /\ si = [c \in Conns |-> 1]
        /\ bcur = [c \in Conns |-> NoBuf]
        /\ inj = 0 /\ nbfd = 0 /\ stp = 0 /\ panicked = FALSE

-----------------------------------------------------------------------------
Free == {b \in Bufs : pool[b] > 0}
FirstFree == CHOOSE b \in Free : \A x \in Free : b <= x
PoolGet(b) == pool' = [pool EXCEPT ![b] = @ - 1]                 \* pkt := <-p.pool
PoolPut(b) == pool' = [pool EXCEPT ![b] = Min(@ + 1, 2)]         \* p.pool <- pkt

(* link.Send(p) on the link of connection l from a stage that gives the buffer up:
   non-blocking channel send; FALSE (caller Puts) when the queue is full; panic when closed. *)
SendOrPut(l, b) ==
    IF ~run[l] THEN /\ panicked' = TRUE /\ UNCHANGED <<pool, egQ>>
    ELSE IF Len(egQ[l]) < QEg
           THEN /\ egQ' = [egQ EXCEPT ![l] = Append(@, b)] /\ UNCHANGED <<pool, panicked>>
           ELSE /\ PoolPut(b) /\ UNCHANGED <<egQ, panicked>>

-----------------------------------------------------------------------------
(* Receiver of connection c.
   ra = numPkts of the last ReadBatch (slots 1..ra are to be re-filled), rb = running index. *)
RTop(c) == /\ rpc[c] = "top"
           /\ IF run[c]
                THEN IF ra[c] = 0 THEN rpc' = [rpc EXCEPT ![c] = "read"] /\ UNCHANGED rb
                     ELSE rpc' = [rpc EXCEPT ![c] = "fill"] /\ rb' = [rb EXCEPT ![c] = 0]
                ELSE IF ra[c] = Batch THEN rpc' = [rpc EXCEPT ![c] = "done"] /\ UNCHANGED rb
                     ELSE rpc' = [rpc EXCEPT ![c] = "drain"] /\ rb' = [rb EXCEPT ![c] = ra[c] + 1]
           /\ UNCHANGED <<pool, run, rslots, ra, pvars, svars, ivars, evars, bcur, inj, nbfd, stp, panicked>>

RFill(c) == /\ rpc[c] = "fill"
            /\ Free # {}
            /\ PoolGet(FirstFree)
            /\ rslots' = [rslots EXCEPT ![c][rb[c] + 1] = FirstFree]
            /\ IF rb[c] + 1 = ra[c]       \* (ra, rb are dead in "read": normalised to 0)
                 THEN rpc' = [rpc EXCEPT ![c] = "read"] /\ rb' = [rb EXCEPT ![c] = 0] /\ ra' = [ra EXCEPT ![c] = 0]
                 ELSE rb' = [rb EXCEPT ![c] = @ + 1] /\ UNCHANGED <<rpc, ra>>
            /\ UNCHANGED <<run, pvars, svars, ivars, evars, bcur, inj, nbfd, stp, panicked>>

RRead(c) == /\ rpc[c] = "read"
            /\ IF ~run[c]
                 THEN \* socket closed: ReadBatch fails, nothing consumed, loop condition re-checked
                      /\ ra' = [ra EXCEPT ![c] = 0] /\ rpc' = [rpc EXCEPT ![c] = "top"]
                      /\ UNCHANGED <<rb, inj>>
                 ELSE /\ (StopMode = "quiet" => stp = 0)
                      /\ \E k \in 1..Min(Batch, MaxPkts - inj) :
                           /\ inj' = inj + k
                           /\ ra' = [ra EXCEPT ![c] = k] /\ rb' = [rb EXCEPT ![c] = 1]
                           /\ rpc' = [rpc EXCEPT ![c] = "demux"]
            /\ UNCHANGED <<pool, run, rslots, pvars, svars, ivars, evars, bcur, nbfd, stp, panicked>>

(* link.receive for message rb of ra *)
RDemux(c) ==
    /\ rpc[c] = "demux"
    /\ LET b == rslots[c][rb[c]] IN
       \/ \E p \in Procs :                    \* computeProcID ok
            IF Len(procQ[p]) < QProc
              THEN procQ' = [procQ EXCEPT ![p] = Append(@, b)] /\ UNCHANGED <<pool, intQ>>
              ELSE PoolPut(b) /\ UNCHANGED <<procQ, intQ>>           \* busy processor
       \/ IF c = 1                            \* not a SCION packet
            THEN IF Len(intQ) < QInt
                   THEN intQ' = Append(intQ, b) /\ UNCHANGED <<pool, procQ>>
                   ELSE PoolPut(b) /\ UNCHANGED <<procQ, intQ>>
            ELSE PoolPut(b) /\ UNCHANGED <<procQ, intQ>>
    /\ rslots' = [rslots EXCEPT ![c][rb[c]] = NoBuf]    \* (stale pointer, overwritten by the next fill)
    /\ IF rb[c] = ra[c] THEN rpc' = [rpc EXCEPT ![c] = "top"] /\ rb' = [rb EXCEPT ![c] = 0]
                        ELSE rb' = [rb EXCEPT ![c] = @ + 1] /\ UNCHANGED rpc
    /\ UNCHANGED <<run, ra, pcur, svars, icur, ipc, istop, evars, bcur, inj, nbfd, stp, panicked>>

RDrain(c) == /\ rpc[c] = "drain"
             /\ PoolPut(rslots[c][rb[c]])
             /\ rslots' = [rslots EXCEPT ![c][rb[c]] = NoBuf]
             /\ IF rb[c] = Batch THEN rpc' = [rpc EXCEPT ![c] = "done"] /\ rb' = [rb EXCEPT ![c] = 0]
                                 ELSE rb' = [rb EXCEPT ![c] = @ + 1] /\ UNCHANGED rpc
             /\ UNCHANGED <<run, ra, pvars, svars, ivars, evars, bcur, inj, nbfd, stp, panicked>>

-----------------------------------------------------------------------------
(* Processor p *)
PTake(p) == /\ pcur[p] = NoBuf /\ procQ[p] # <<>>
            /\ pcur' = [pcur EXCEPT ![p] = Head(procQ[p])]
            /\ procQ' = [procQ EXCEPT ![p] = Tail(@)]
            /\ UNCHANGED <<pool, run, rvars, svars, ivars, evars, bcur, inj, nbfd, stp, panicked>>

PDone(p) ==
    /\ pcur[p] # NoBuf
    /\ pcur' = [pcur EXCEPT ![p] = NoBuf]
    /\ LET b == pcur[p]
           s == ((p - 1) % NS) + 1 IN
       \/ PoolPut(b) /\ UNCHANGED <<slowQ, egQ, panicked>>        \* pDone | pDiscard | nil egress
       \/ IF Len(slowQ[s]) < QSlow                                \* pSlowPath
            THEN slowQ' = [slowQ EXCEPT ![s] = Append(@, b)] /\ UNCHANGED <<pool, egQ, panicked>>
            ELSE PoolPut(b) /\ UNCHANGED <<slowQ, egQ, panicked>>
       \/ \E l \in Conns : SendOrPut(l, b) /\ UNCHANGED slowQ     \* pForward
    /\ UNCHANGED <<run, rvars, procQ, scur, ivars, spc, spk, stw, swr, si, bcur, inj, nbfd, stp>>

(* Slow-path processor s *)
STake(s) == /\ scur[s] = NoBuf /\ slowQ[s] # <<>>
            /\ scur' = [scur EXCEPT ![s] = Head(slowQ[s])]
            /\ slowQ' = [slowQ EXCEPT ![s] = Tail(@)]
            /\ UNCHANGED <<pool, run, rvars, pvars, ivars, evars, bcur, inj, nbfd, stp, panicked>>

SDone(s) ==
    /\ scur[s] # NoBuf
    /\ scur' = [scur EXCEPT ![s] = NoBuf]
    /\ LET b == scur[s] IN
       \/ PoolPut(b) /\ UNCHANGED <<egQ, panicked>>               \* error | no ingress link
       \/ \E l \in Conns : SendOrPut(l, b)                        \* reply on the ingress link
    /\ UNCHANGED <<run, rvars, pvars, slowQ, ivars, spc, spk, stw, swr, si, bcur, inj, nbfd, stp>>

(* Internal link processor *)
ITake == /\ ipc = "run" /\ icur = NoBuf /\ intQ # <<>>
         /\ icur' = Head(intQ) /\ intQ' = Tail(intQ)
         /\ UNCHANGED <<pool, run, rvars, pvars, svars, ipc, istop, evars, bcur, inj, nbfd, stp, panicked>>

IDone == /\ icur # NoBuf
         /\ icur' = NoBuf
         /\ \/ PoolPut(icur) /\ UNCHANGED <<egQ, panicked>>       \* error | dropped (Link = nil)
            \/ SendOrPut(1, icur)                                 \* STUN response
         /\ UNCHANGED <<run, rvars, pvars, svars, intQ, ipc, istop, spc, spk, stw, swr, si, bcur, inj, nbfd, stp>>

IStop == /\ ipc = "run" /\ icur = NoBuf /\ istop
         /\ ipc' = "drain"
         /\ UNCHANGED <<pool, run, rvars, pvars, svars, intQ, icur, istop, evars, bcur, inj, nbfd, stp, panicked>>

IDrain == /\ ipc = "drain"
          /\ IF intQ # <<>>
               THEN PoolPut(Head(intQ)) /\ intQ' = Tail(intQ) /\ UNCHANGED ipc
               ELSE ipc' = "done" /\ UNCHANGED <<pool, intQ>>
          /\ UNCHANGED <<run, rvars, pvars, svars, icur, istop, evars, bcur, inj, nbfd, stp, panicked>>

-----------------------------------------------------------------------------
(* Sender of connection c *)
SndTop(c) == /\ spc[c] = "top"
             /\ spc' = [spc EXCEPT ![c] = IF run[c] THEN "take" ELSE "done"]
             /\ UNCHANGED <<pool, run, rvars, pvars, svars, ivars, egQ, spk, stw, swr, si, bcur, inj, nbfd, stp, panicked>>

SndTake(c) ==
    /\ spc[c] = "take"
    /\ LET n == ReadUpTo(Len(egQ[c]), Batch - stw[c], stw[c] = 0, ~run[c]) IN
       /\ n >= 0
       /\ spk' = [spk EXCEPT ![c] = [i \in Slots |-> IF i > stw[c] /\ i <= stw[c] + n
                                                        THEN egQ[c][i - stw[c]] ELSE @[i]]]
       /\ egQ' = [egQ EXCEPT ![c] = SubSeq(@, n + 1, Len(@))]
       /\ stw' = [stw EXCEPT ![c] = @ + n]
       /\ spc' = [spc EXCEPT ![c] = IF stw[c] + n = 0 THEN "top" ELSE "write"]
    /\ UNCHANGED <<pool, run, rvars, pvars, svars, ivars, swr, si, bcur, inj, nbfd, stp, panicked>>

(* WriteBatch: w of toWrite messages written (an error counts as 0) *)
SndWrite(c) == /\ spc[c] = "write"
               /\ \E w \in 0..stw[c] : swr' = [swr EXCEPT ![c] = w]
               /\ si' = [si EXCEPT ![c] = 1]
               /\ spc' = [spc EXCEPT ![c] = "put"]
               /\ UNCHANGED <<pool, run, rvars, pvars, svars, ivars, egQ, spk, stw, bcur, inj, nbfd, stp, panicked>>

SndPut(c) ==
    /\ spc[c] = "put"
    /\ IF si[c] <= swr[c]
         THEN /\ PoolPut(spk[c][si[c]])
              /\ spk' = [spk EXCEPT ![c][si[c]] = NoBuf]       \* (stale pointer)
              /\ si' = [si EXCEPT ![c] = @ + 1]
              /\ UNCHANGED <<stw, spc, swr>>
         ELSE /\ IF swr[c] # stw[c] THEN PoolPut(spk[c][swr[c] + 1]) ELSE UNCHANGED pool
              /\ spk' = [spk EXCEPT ![c] = SendShift(@, swr[c], stw[c], NoBuf)]
              /\ stw' = [stw EXCEPT ![c] = SendLeft(swr[c], @)]
              /\ spc' = [spc EXCEPT ![c] = "top"]
              /\ si' = [si EXCEPT ![c] = 1] /\ swr' = [swr EXCEPT ![c] = 0]    \* dead outside "put"
    /\ UNCHANGED <<run, rvars, pvars, svars, ivars, egQ, bcur, inj, nbfd, stp, panicked>>

-----------------------------------------------------------------------------
(* BFD sender of the link of connection k *)
BGet(k) == /\ bcur[k] = NoBuf /\ nbfd < MaxBfd
           /\ (StopMode = "quiet" => stp = 0)
           /\ Free # {}
           /\ PoolGet(FirstFree) /\ bcur' = [bcur EXCEPT ![k] = FirstFree]
           /\ nbfd' = nbfd + 1
           /\ UNCHANGED <<run, rvars, pvars, svars, ivars, evars, inj, stp, panicked>>

BSend(k) == /\ bcur[k] # NoBuf
            /\ bcur' = [bcur EXCEPT ![k] = NoBuf]
            /\ \/ SendOrPut(k, bcur[k])
               \/ BfdSerErr /\ UNCHANGED <<pool, egQ, panicked>>   \* serialize error: return err
            /\ UNCHANGED <<run, rvars, pvars, svars, ivars, spc, spk, stw, swr, si, inj, nbfd, stp>>

-----------------------------------------------------------------------------
(* provider.Stop *)
PipelineQuiet == /\ \A c \in Conns : rpc[c] \in {"top", "fill", "read"}
                 /\ \A p \in Procs : procQ[p] = <<>> /\ pcur[p] = NoBuf
                 /\ \A s \in Slows : slowQ[s] = <<>> /\ scur[s] = NoBuf
                 /\ intQ = <<>> /\ icur = NoBuf
                 /\ \A k \in Conns : bcur[k] = NoBuf

StopStart == /\ stp = 0 /\ StopMode # "none"
             /\ (StopMode = "quiet" => PipelineQuiet)
             /\ run' = [run EXCEPT ![1] = FALSE] /\ stp' = 1
             /\ UNCHANGED <<pool, rvars, pvars, svars, ivars, evars, bcur, inj, nbfd, panicked>>

StopNext == /\ stp \in Conns /\ rpc[stp] = "done" /\ spc[stp] = "done"
            /\ IF stp < NC THEN run' = [run EXCEPT ![stp + 1] = FALSE] /\ UNCHANGED istop
                           ELSE istop' = TRUE /\ UNCHANGED run
            /\ stp' = stp + 1
            /\ UNCHANGED <<pool, rvars, pvars, svars, intQ, icur, ipc, evars, bcur, inj, nbfd, panicked>>

StopInt == /\ stp = NC + 1 /\ ipc = "done"
           /\ stp' = NC + 2
           /\ UNCHANGED <<pool, run, rvars, pvars, svars, ivars, evars, bcur, inj, nbfd, panicked>>

-----------------------------------------------------------------------------
(* (after a panic nothing matters: NoSendOnClosed stops TLC at that state) *)
Next == \/ \E c \in Conns : RTop(c) \/ RFill(c) \/ RRead(c) \/ RDemux(c) \/ RDrain(c)
        \/ \E p \in Procs : PTake(p) \/ PDone(p)
        \/ \E s \in Slows : STake(s) \/ SDone(s)
        \/ ITake \/ IDone \/ IStop \/ IDrain
        \/ \E c \in Conns : SndTop(c) \/ SndTake(c) \/ SndWrite(c) \/ SndPut(c)
        \/ \E k \in BfdConns : BGet(k) \/ BSend(k)
        \/ StopStart \/ StopNext \/ StopInt

Spec == Init /\ [][Next]_vars
(* fairness: every goroutine of the router keeps running; the environment (packets arriving,
   BFD timers firing, Shutdown) is not forced to do anything *)
FairSpec == /\ Spec
            /\ \A c \in Conns : WF_vars(RTop(c) \/ RFill(c) \/ RDemux(c) \/ RDrain(c))
            /\ \A c \in Conns : WF_vars(RRead(c) /\ ~run[c])
            /\ \A p \in Procs : WF_vars(PTake(p) \/ PDone(p))
            /\ \A s \in Slows : WF_vars(STake(s) \/ SDone(s))
            /\ WF_vars(ITake \/ IDone \/ IStop \/ IDrain)
            /\ \A c \in Conns : WF_vars(SndTop(c) \/ SndTake(c) \/ SndWrite(c) \/ SndPut(c))
            /\ \A k \in BfdConns : WF_vars(BSend(k))

-----------------------------------------------------------------------------
(* Properties *)
RecvIdx(c) == CASE rpc[c] = "top" -> RecvReusable(Batch, ra[c])
                [] rpc[c] = "fill" -> (1..rb[c]) \cup RecvReusable(Batch, ra[c])
                [] rpc[c] = "read" -> Slots
                [] rpc[c] \in {"demux", "drain"} -> rb[c]..Batch
                [] OTHER -> {}
SendIdx(c) == IF spc[c] = "put" THEN si[c]..stw[c] ELSE 1..stw[c]
One(tag, k, x) == IF x = NoBuf THEN {} ELSE {<<tag, k, 0, x>>}

(* every place that owns a buffer right now: <<kind of place, instance, index, buffer>> *)
Entries ==
    UNION {{<<"recv", c, i, rslots[c][i]>> : i \in RecvIdx(c)}
           \cup {<<"send", c, i, spk[c][i]>> : i \in SendIdx(c)}
           \cup {<<"egQ", c, i, egQ[c][i]>> : i \in DOMAIN egQ[c]}
           \cup One("bfd", c, bcur[c]) : c \in Conns}
    \cup UNION {{<<"procQ", p, i, procQ[p][i]>> : i \in DOMAIN procQ[p]} \cup One("proc", p, pcur[p]) : p \in Procs}
    \cup UNION {{<<"slowQ", s, i, slowQ[s][i]>> : i \in DOMAIN slowQ[s]} \cup One("slow", s, scur[s]) : s \in Slows}
    \cup {<<"intQ", 0, i, intQ[i]>> : i \in DOMAIN intQ} \cup One("int", 0, icur)

Count(b) == pool[b] + Cardinality({e \in Entries : e[4] = b})   \* number of owners of b
RecvHolds(c, b) == \E i \in RecvIdx(c) : rslots[c][i] = b
SendHolds(c, b) == \E i \in SendIdx(c) : spk[c][i] = b

(* OwnerUnique: every buffer has exactly one owner (Count(b) = 1 for all b), phrased so that TLC
   evaluates it with one pass over the places: the owned buffers are pairwise different places,
   none of them is also in the pool, together with the pool they are all buffers.               *)
OwnerUniqueOf(es) == LET owned == {e[4] : e \in es} IN
                     /\ Cardinality(owned) = Cardinality(es)
                     /\ owned \cap Free = {}
                     /\ owned \cup Free = Bufs
                     /\ \A b \in Bufs : pool[b] <= 1
OwnerUnique == OwnerUniqueOf(Entries)          \* never two owners, never none (leak)
NoDoublePut == \A b \in Bufs : pool[b] <= 1
Conservation == Cardinality(Free) + Cardinality(Entries) = NBuf

(* VIEW: buffers are interchangeable.  A state that satisfies OwnerUnique is determined, up to a
   renaming of the buffers, by its shape (control state, which places are occupied); the view is that
   shape plus the truth value of OwnerUnique, so a state that breaks the invariant never collides
   with one that satisfies it (TLC stops at the first violation).                                *)
View == <<run, rpc, ra, rb, ipc, istop, spc, stw, swr, si, inj, nbfd, stp, panicked,
          [p \in Procs |-> <<Len(procQ[p]), pcur[p] # NoBuf>>],
          [s \in Slows |-> <<Len(slowQ[s]), scur[s] # NoBuf>>],
          Len(intQ), icur # NoBuf,
          [c \in Conns |-> <<Len(egQ[c]), bcur[c] # NoBuf>>],
          OwnerUnique>>

TypeOK == /\ pool \in [Bufs -> 0..2]
          /\ \A c \in Conns : stw[c] \in 0..Batch /\ swr[c] \in 0..Batch /\ Len(egQ[c]) <= QEg
          /\ \A p \in Procs : Len(procQ[p]) <= QProc
          /\ \A s \in Slows : Len(slowQ[s]) <= QSlow
          /\ Len(intQ) <= QInt /\ inj \in 0..MaxPkts /\ nbfd \in 0..MaxBfd

NoSendOnClosed == ~panicked

(* Nothing can move any more except the environment delivering packets / BFD timers firing. *)
Quiescent == /\ stp = 0
             /\ \A c \in Conns : /\ rpc[c] = "read" \/ (rpc[c] = "fill" /\ Free = {})
                                 /\ spc[c] = "take" /\ stw[c] = 0 /\ egQ[c] = <<>>
             /\ \A p \in Procs : procQ[p] = <<>> /\ pcur[p] = NoBuf
             /\ \A s \in Slows : slowQ[s] = <<>> /\ scur[s] = NoBuf
             /\ intQ = <<>> /\ icur = NoBuf
             /\ \A k \in Conns : bcur[k] = NoBuf
Prefetched(b) == \E c \in Conns : RecvHolds(c, b)
QuiescentHome == Quiescent => \A b \in Bufs : pool[b] = 1 \/ Prefetched(b)

(* After provider.Stop returned: receivers and the internal link processor hold nothing; what is not
   in the pool is stranded in an egress queue or a dead sender's batch (owned by the queue, D10). *)
Stranded(b) == \E c \in Conns : SendHolds(c, b) \/ \E i \in DOMAIN egQ[c] : egQ[c][i] = b
StoppedHome == stp = NC + 2 =>
                 /\ \A c \in Conns : RecvIdx(c) = {}
                 /\ (StopMode = "quiet" => \A b \in Bufs : pool[b] = 1 \/ Stranded(b))

(* Liveness (FairSpec, StopMode = "none"): whatever the environment does, every buffer eventually
   stays in the pool or in a receiver's pre-fetch: no buffer is held forever by a stage. *)
AllHome == \A b \in Bufs : pool[b] = 1 \/ Prefetched(b)
EventuallyHome == <>[]AllHome

=============================================================================
