--------------------------- MODULE RouterWireTrace ---------------------------
(* Trace specification for C08.  The driver feeds byte strings (mutated valid packets, random bytes,
   STUN messages) to the real router code on every kind of ingress link and records
     batch    n inputs processed, how many were dropped / emitted something (statistics only)
     out      one packet the router forwards, delivers or emits: kind "fwd" (fast path, incl. local
              delivery), "scmp" (slow path reply on the ingress link), "stun" (internal link's STUN
              response); len = its length, b = its first bytes as integers
     panic    the processing of an input panicked, reproduced 3/3 on a fresh router
   Every out event is judged by RouterWireOps!WhyNot; there is no action for panic.
   Each line is an independent case (no failed latch).                                          *)
EXTENDS RouterWireOps, Json

Trace == ndJsonDeserialize("trace.ndjson")

VARIABLES l, nout
vars == <<l, nout>>
R == Trace[l]

Init == l = 1 /\ nout = 0

Bad(key) == PrintT(<<"VERIF-BAD", l, key>>)

Out ==
    IF R.kind = "stun"
      THEN LET w == StunWhyNot(R.b, R.len) IN
           IF w # "" THEN Bad("malformed-output:" \o w) ELSE TRUE
    ELSE IF R.len >= CmnHdrLen /\ Len(R.b) < Min2(R.len, Needed(R.b, R.len))
      THEN PrintT(<<"VERIF-DRIFT", l, "recorded-prefix-too-short-to-judge">>)
    ELSE LET w == WhyNot(R.b, R.len) IN
         IF w # "" THEN Bad("malformed-output:" \o R.kind \o ":" \o w)
         ELSE IF ~PathExact(R.b) THEN PrintT(<<"VERIF-DRIFT", l, "header-length-leaves-slack-after-the-path">>)
         ELSE TRUE

Step == /\ l <= Len(Trace)
        /\ l' = l + 1
        /\ nout' = IF R.ev = "out" THEN nout + 1 ELSE nout
        /\ CASE R.ev = "reset" -> TRUE
             [] R.ev = "batch" -> TRUE
             [] R.ev = "out" -> Out
             [] R.ev = "panic-unreproduced" -> PrintT(<<"VERIF-DRIFT", l, "panic-not-reproduced-3-of-3:" \o R.where>>)
             [] R.ev = "panic" -> Bad("no-spec-action:panic:" \o R.where)
             [] OTHER -> Bad("no-spec-action:" \o R.ev)

Done == /\ l = Len(Trace) + 1
        /\ PrintT(<<"VERIF-STAT", "outputs-judged", nout>>)
        /\ PrintT(<<"VERIF-DONE", Len(Trace)>>)
        /\ UNCHANGED vars

Next == Step \/ Done
Spec == Init /\ [][Next]_vars
=============================================================================
