INIT Init
NEXT Next
CONSTANTS
  Datagrams <- WideSet
  MaxLen = 3
  Modes = {TRUE, FALSE}
INVARIANTS NoStaleInfluence NoReflection OffOnlyRequests RepliesOnlyToRequests
CHECK_DEADLOCK FALSE
