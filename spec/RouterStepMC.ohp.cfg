SPECIFICATION Spec
CONSTANTS
  Cfg <- CfgA
  Kinds = {"ohp"}
  Shapes <- ShapesQ
  Vias = {0, 1, 2, 3, 4, 5}
  SrcDom = {"L", "F", "N1", "N2", "N3"}
  DstDom = {"L", "F", "N1", "N2", "N3"}
  Faults = {"none"}
  L4Dom = {"udp"}
  InSideDom = {0}
  EgSideDom = {0, 1, 2, 3, 4, 5, 999}
  PeerDom = {FALSE}
  ExpDom = {FALSE}
  AuthDom <- Auth3
  AlertDom <- NoAlert
  EpicDom <- EpicOK
INVARIANTS TypeOK InvC01 InvC05 InvC06 InvC12 InvC13 InvC15 InvC15Answer InvPtr
CONSTRAINT Emit
CHECK_DEADLOCK FALSE
