------------------------ MODULE GatewayRoutingTrace ------------------------
(* Trace specification for C42.  Independent cases after a reset:
     table: a routing table built with the real NewRoutingTable/SetSession and the sessions that the
            real IPForwarder.Run handed every packet of the grid to (out[k] = session id, 0 = dropped);
            lead[i] = entry whose traffic matchers entry i shares (entries of one routing chain).
     pol:   a policy parsed from text by the real UnmarshalText; m0 = Policy.Match results (accepted
            addresses per (IA pair, query prefix)), adv0 = AdvertiseList per IA pair; m1 / adv1 the same
            after MarshalText -> UnmarshalText; x0 / x1 = accepted probe addresses outside the query.
   VERIF-BAD keys:
     route:session-instead-of-drop | route:drop-instead-of-session | route:wrong-session  (+ :frag, :v6)
     match:accepts-rejected | match:rejects-accepted | match:both | match:outside-query-prefix
     roundtrip:match-changed | roundtrip:advertise-changed | roundtrip:text-rejected | policy:text-rejected
   VERIF-DRIFT: advertise:list-differs (the statement only requires that advertised prefixes survive
   serialisation; the list itself is compared with the model for drift only).                    *)
EXTENDS GatewayRoutingOps, TLC, Json

Trace == ndJsonDeserialize("trace.ndjson")

VARIABLES l, cfg, nbad
vars == <<l, cfg, nbad>>
R == Trace[l]
NoCfg == [W |-> 1]

Init == l = 1 /\ cfg = NoCfg /\ nbad = 0

Bad(key) == PrintT(<<"VERIF-BAD", l, key>>) /\ nbad' = nbad + 1 /\ UNCHANGED cfg
Drift(key) == PrintT(<<"VERIF-DRIFT", l, key>>) /\ UNCHANGED <<cfg, nbad>>
Ok == UNCHANGED <<cfg, nbad>>
SetOf(s) == {s[i] : i \in 1..Len(s)}
AW == cfg.W
Mod(a, b) == a % b

\* expected session id with shared traffic matchers: class j of entry i is session 10*lead[i]+j
Want(k) == LET r == Route(R.table, cfg.pkts[k], AW) IN
           IF r = 0 THEN 0 ELSE 10 * R.lead[r \div 10] + Mod(r, 10)

TableEv ==
    IF R.panic = 1 THEN Bad("route:panic")
    ELSE IF Len(R.out) # Len(cfg.pkts) THEN Bad("route:packets-lost-by-harness")
    ELSE \E bad \in {{k \in 1..Len(cfg.pkts) : R.out[k] # Want(k)}} :
         IF bad = {} THEN Ok
         ELSE LET k == CHOOSE x \in bad : \A y \in bad : x <= y
                  p == cfg.pkts[k]
                  cls == IF Want(k) = 0 THEN "route:session-instead-of-drop"
                         ELSE IF R.out[k] = 0 THEN "route:drop-instead-of-session"
                         ELSE "route:wrong-session" IN
              Bad(cls \o (IF p.frag # 0 THEN ":frag" ELSE "") \o (IF p.fam = 6 THEN ":v6" ELSE ""))

NP == Len(cfg.pairs)
NQ == Len(cfg.queries)
Idx(pi, qi) == (pi - 1) * NQ + qi
SpecMatch(pi, qi) == MatchSet(R.pol, cfg.pairs[pi][1], cfg.pairs[pi][2], cfg.queries[qi], AW)

PolEv ==
    IF R.panic = 1 THEN Bad("policy:panic")
    ELSE IF R.err0 = 1 THEN Bad("policy:text-rejected")
    ELSE \E want \in {[x \in 1..(NP * NQ) |-> SpecMatch((x - 1) \div NQ + 1, Mod(x - 1, NQ) + 1)]} :
         LET wrong == {x \in 1..(NP * NQ) : SetOf(R.m0[x]) # want[x]} IN
         IF wrong # {} THEN
            LET x == CHOOSE y \in wrong : \A z \in wrong : y <= z
                got == SetOf(R.m0[x]) IN
            Bad(IF want[x] \subseteq got THEN "match:accepts-rejected"
                ELSE IF got \subseteq want[x] THEN "match:rejects-accepted" ELSE "match:both")
         ELSE IF R.x0 # 0 THEN Bad("match:outside-query-prefix")
         ELSE IF R.err1 = 1 THEN Bad("roundtrip:text-rejected")
         ELSE IF \E x \in 1..(NP * NQ) : SetOf(R.m1[x]) # want[x] THEN Bad("roundtrip:match-changed")
         ELSE IF R.x1 # 0 THEN Bad("roundtrip:match-changed")
         ELSE IF R.adv1 # R.adv0 THEN Bad("roundtrip:advertise-changed")
         ELSE IF \E pi \in 1..NP : R.adv0[pi] # Advertise(R.pol, cfg.pairs[pi][1], cfg.pairs[pi][2])
           THEN Drift("advertise:list-differs")
         ELSE Ok

Step == /\ l <= Len(Trace)
        /\ l' = l + 1
        /\ CASE R.ev = "reset" -> cfg' = R /\ UNCHANGED nbad
             [] R.ev = "table" -> TableEv
             [] R.ev = "pol" -> PolEv
             [] OTHER -> Bad("no-spec-action:" \o R.ev)

Done == /\ l = Len(Trace) + 1
        /\ PrintT(<<"VERIF-STAT", "bad", nbad>>)
        /\ PrintT(<<"VERIF-DONE", Len(Trace)>>)
        /\ UNCHANGED vars

Next == Step \/ Done
Spec == Init /\ [][Next]_vars
=============================================================================
