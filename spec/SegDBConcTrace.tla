--------------------------- MODULE SegDBConcTrace ---------------------------
(* C27, concurrent callers: a history is a set of completed calls issued by 2-3 goroutines on ONE real
   sqlite-backed database (file based, as deployed), each with invocation / response stamps (ti, tr) taken from a
   global atomic counter.  The history is accepted iff SOME linearization explains it: repeatedly pick
   a call that was invoked before every other pending call returned, apply it to the abstract store
   (SegDBOps) and require its logged result.  TLC searches the interleavings (depth first); a file holds
   several histories ({"ev":"reset","n":k,...} followed by k calls); VERIF-DONE is printed only when every
   history has been linearized, VERIF-HIST marks each linearized history.                          *)
EXTENDS SegDBOps, TLC, Json

Trace == ndJsonDeserialize("trace.ndjson")

VARIABLES store, rl, done
vars == <<store, rl, done>>
pool == Trace[rl].pool
Calls == (rl + 1)..(rl + Trace[rl].n)

Init == store = {} /\ rl = 1 /\ done = {}

Stat(ins, upd) == IF ins = 1 /\ upd = 0 THEN "ins" ELSE IF ins = 0 /\ upd = 1 THEN "upd"
                  ELSE IF ins = 0 /\ upd = 0 THEN "ign" ELSE "other"

Eligible(i) == /\ i \in Calls \ done
               /\ \A j \in Calls \ done : j # i => Trace[j].tr > Trace[i].ti

\* effect and required result of call R on the abstract store; an erroring call has no effect
Effect(R) ==
    IF R.err # 0 THEN store' = store
    ELSE CASE R.ev = "pins" -> /\ Stat(R.ins, R.upd) = InsertOutcome(store, pool, "p", R.p)
                               /\ store' = PInsert(store, pool, R.p, R.type, Range(R.groups))
           [] R.ev = "bins" -> /\ Stat(R.ins, R.upd) = InsertOutcome(store, pool, "b", R.p)
                               /\ store' = BInsert(store, pool, R.p, R.inIf, Range(R.usage))
           [] R.ev \in {"pdel", "bdel"} -> store' = DeletePrefix(store, pool, R.pre)
           [] R.ev \in {"pexp", "bexp"} -> /\ R.ret = Cardinality(Expired(store, pool, R.now))
                                           /\ store' = store \ Expired(store, pool, R.now)
           [] R.ev = "pget" ->             \* unfiltered query: everything, with exact groups
                /\ {<<R.res[k].p, R.res[k].type, Range(R.res[k].groups)>> : k \in 1..Len(R.res)}
                     = UNION {{<<e.p, t, e.groups>> : t \in e.types} : e \in store}
                /\ Len(R.res) = Cardinality(PGet(store, pool, NoFilter))
                /\ store' = store
           [] R.ev = "bget" ->
                /\ {[p |-> R.res[k].p, types |-> {}, groups |-> {}, inIf |-> R.res[k].inIf,
                     usage |-> Range(R.res[k].usage)] : k \in 1..Len(R.res)} = store
                /\ Len(R.res) = Cardinality(store)
                /\ store' = store

Lin == \E i \in Calls : /\ Eligible(i)
                        /\ Effect(Trace[i])
                        /\ done' = done \cup {i}
                        /\ UNCHANGED rl

NextHist == /\ done = Calls
            /\ rl + Trace[rl].n < Len(Trace)
            /\ PrintT(<<"VERIF-HIST", rl>>)
            /\ rl' = rl + Trace[rl].n + 1 /\ store' = {} /\ done' = {}

Done == /\ done = Calls
        /\ rl + Trace[rl].n = Len(Trace)
        /\ PrintT(<<"VERIF-DONE", Len(Trace)>>)
        /\ UNCHANGED vars

Next == Lin \/ NextHist \/ Done
Spec == Init /\ [][Next]_vars
=============================================================================
