---------------------------- MODULE BeaconingOps ----------------------------
(* Beacon extension (control/beaconing DefaultExtender.Extend) as pure operators — C23.
   Times are milliseconds on an arbitrary origin; relative hop expiry `exp` counts units of
   24 h / 256 = 337.5 s: a hop field with exp = e created at ts expires at ts + (e+1) units.    *)
EXTENDS Integers, Sequences, FiniteSets

Unit == 337500
MaxTTL == 256 * Unit
Dur(exp) == (exp + 1) * Unit

\* path.ExpTimeFromDuration: the largest e with Dur(e) <= d; -1 stands for "out of range"
ExpFromDuration(d) == IF d < Unit \/ d > MaxTTL THEN -1 ELSE (d \div Unit) - 1

\* signers: sequence of [nb, na]; trust.LastExpiring over those covering [ts, now]
Covering(signers, ts, now) == {i \in DOMAIN signers : signers[i].nb <= ts /\ now <= signers[i].na}
LastExpiring(signers, ts, now) ==
    LET c == Covering(signers, ts, now) IN
    IF c = {} THEN 0
    ELSE CHOOSE i \in c : \A j \in c : signers[j].na < signers[i].na \/ (signers[j].na = signers[i].na /\ i <= j)

\* the hop expiry Extend uses with signer [nb, na]: the configured maximum, shortened so that the
\* hop field does not outlive the signer; -1 if not even one unit fits
HopExp(maxExp, ts, na) == IF ts + Dur(maxExp) > na THEN ExpFromDuration(na - ts) ELSE maxExp

\* position consistency of (ingress, egress) with the number of entries already in the segment
PositionError(n, in, eg) ==
    IF in = 0 /\ n > 0 THEN "zero-ingress-in-later-entry"
    ELSE IF in # 0 /\ n = 0 THEN "nonzero-ingress-in-first-entry"
    ELSE IF in = 0 /\ eg = 0 THEN "ingress-and-egress-zero"
    ELSE ""

(* ifs: set of [id, ia, rid, mtu] (the interfaces the AS knows).  Returns [err, exp, signer]. *)
Known(ifs, id) == \E f \in ifs : f.id = id
IfOf(ifs, id) == CHOOSE f \in ifs : f.id = id

ExtendOutcome(n, in, eg, mtu, ifs, signers, maxExp, ts, now) ==
    LET s == LastExpiring(signers, ts, now)
        e == IF s = 0 THEN -1 ELSE HopExp(maxExp, ts, signers[s].na) IN
    IF mtu = 0 THEN [err |-> "mtu-not-set", exp |-> -1, signer |-> 0]
    ELSE IF PositionError(n, in, eg) # "" THEN [err |-> PositionError(n, in, eg), exp |-> -1, signer |-> 0]
    ELSE IF s = 0 THEN [err |-> "no-signer-covers", exp |-> -1, signer |-> 0]
    ELSE IF e < 0 THEN [err |-> "signer-expires-too-early", exp |-> -1, signer |-> s]
    ELSE IF in # 0 /\ ~Known(ifs, in) THEN [err |-> "unknown-ingress", exp |-> -1, signer |-> s]
    ELSE IF eg # 0 /\ ~Known(ifs, eg) THEN [err |-> "unknown-egress", exp |-> -1, signer |-> s]
    ELSE [err |-> "", exp |-> e, signer |-> s]

\* peer interfaces that produce a peer entry: known, with a known remote interface id
PeersKept(ifs, peers) == SelectSeq(peers, LAMBDA p : Known(ifs, p) /\ IfOf(ifs, p).rid # 0)
=============================================================================
