SPECIFICATION Spec
CONSTANTS
  Cfg <- CfgA
  Kinds = {"scion"}
  Shapes <- ShapesQ
  Vias = {0, 1, 3}
  SrcDom = {"L", "F"}
  DstDom = {"L", "F"}
  Faults = {"none"}
  L4Dom = {"udp"}
  InSideDom = {0, 1, 3, 4, 999}
  EgSideDom = {0, 2, 3, 4, 999}
  PeerDom = {FALSE, TRUE}
  ExpDom = {FALSE, TRUE}
  AuthDom <- Auth3
  AlertDom <- NoAlert
  EpicDom <- EpicOK
INVARIANTS TypeOK InvC01 InvC05 InvC06 InvC12 InvC13 InvC15 InvC15Answer InvPtr
CONSTRAINT Emit
CHECK_DEADLOCK FALSE
