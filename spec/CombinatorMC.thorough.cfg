SPECIFICATION Spec
CONSTANTS
  TopoId = "T1"
  Runs = {0, 1}
  MaxSegs = 2
  MaxLen = 3
  HopLimit = 5
  SegLimit = 3
INVARIANTS TypeOK GraphEqualsDefinition WeightIsLinks PathsAreWalks HopFieldsVerify MtuIsTopologyMinimum ResultOK
CHECK_DEADLOCK FALSE
