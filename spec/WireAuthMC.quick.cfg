SPECIFICATION Spec
CONSTANTS
  TcCode = FALSE
  Fills = {90}
INVARIANTS TypeOK Exact
CHECK_DEADLOCK FALSE
