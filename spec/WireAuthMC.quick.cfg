SPECIFICATION Spec
CONSTANTS
  TcCode = FALSE
  PathKinds = {"empty", "onehop", "scion2", "epic2"}
  Fills = {90}
INVARIANTS TypeOK Exact
CHECK_DEADLOCK FALSE
