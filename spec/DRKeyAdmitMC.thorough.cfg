SPECIFICATION Spec
CONSTANTS
  Variant = "code"
  OnlyRpc = "all"
  Emit = TRUE
INVARIANTS TypeOK ServedOnlyIfAdmitted KeyForBoundEntity RejectedAsksNothing
CHECK_DEADLOCK FALSE
