--------------------------- MODULE SigFramingOps ---------------------------
(* Pure operators for C41 (gateway/dataplane: encoder, frameBuf, reassemblyList, worker).

   The stream.  The valid IP packets handed to the sender, concatenated, form a byte stream; packet k
   occupies [starts[k], starts[k] + lens[k]).  `starts`, `lens`, `vers` are sequences (one entry per
   valid packet).  All positions below are stream offsets.

   A frame is abstracted as [seq, index, n, c]: sequence number, index field (65535: no packet starts
   in the frame), payload length, and the stream offset of its first payload byte.

   Sender: FrameOk is the rule of encoder.Read.  Receiver: Insert / InsertFirst / TryReassemble /
   CollectAndWrite / ProcessCompletePkts transcribe rlist.go and framebuf.go on abstract frames; what
   they write to the tunnel device is a sequence of emissions, each a sequence of stream ranges
   [a, b); an emission is a packet iff its ranges join to exactly one packet's extent.        *)
EXTENDS Integers, Sequences, FiniteSets

NoIdx == 65535
Hdr == 16

Min2(a, b) == IF a < b THEN a ELSE b
MinOf(S) == CHOOSE x \in S : \A y \in S : x <= y

\* packet whose first byte is at stream offset pos (0: none)
PktAt(starts, pos) ==
    LET S == {k \in 1..Len(starts) : starts[k] = pos} IN IF S = {} THEN 0 ELSE CHOOSE k \in S : TRUE

-----------------------------------------------------------------------------
(* Sender (encoder.Read).  c: stream offset already framed; wr: valid bytes written to the encoder so
   far; F: payload capacity (mtu - 16).  A frame [index idx, n payload bytes at c] is what Read returns iff:
     - it carries the next n stream bytes, 1 <= n <= F, nothing unwritten;
     - idx is the offset of the first packet starting inside the frame, 65535 if none;
     - a packet starts in the frame only where at least 40 bytes of room remain;
     - it ends because it is full, or at a packet boundary where less than 40 bytes remain, or at a
       packet boundary because the input ring was empty (everything written so far is framed).  *)
FrameOk(c, n, idx, wr, F, starts) ==
    LET inFrame == {k \in 1..Len(starts) : c <= starts[k] /\ starts[k] < c + n}
        boundary == (c + n = wr) \/ PktAt(starts, c + n) # 0 IN
    /\ n >= 1 /\ n <= F /\ c + n <= wr
    /\ idx = (IF inFrame = {} THEN NoIdx ELSE MinOf({starts[k] : k \in inFrame}) - c)
    /\ \A k \in inFrame : F - (starts[k] - c) >= 40
    /\ (n = F \/ (boundary /\ (F - n < 40 \/ c + n = wr)))

-----------------------------------------------------------------------------
(* Receiver.  Frame buffer (frameBuf): offsets frag0Start / flen are frame offsets including the 16-byte
   header, as in the code (frag0Start = 0: no trailing fragment). *)
NewBuf(fr) == [seq |-> fr.seq, index |-> fr.index, flen |-> fr.n + Hdr, c |-> fr.c,
               frag0Start |-> 0, frag0P |-> FALSE,
               fragNP |-> (fr.index = 0),          \* worker.processFrame
               cpp |-> (fr.index = NoIdx), pktLen |-> 0]

Rng(a, b) == [a |-> a, b |-> b]
StreamPos(fb, off) == fb.c + (off - Hdr)

\* frameBuf.ProcessCompletePkts: result [fb, out, garbage]; garbage = a header was read at a stream
\* position that is not the start of a packet (cannot happen with genuine frames: invariant)
RECURSIVE PcpLoop(_, _, _, _, _, _, _)
PcpLoop(fb, off, plenAcc, out, starts, lens, vers) ==
    LET done(f, o) == [fb |-> f, out |-> o, garbage |-> FALSE] IN
    IF off >= fb.flen
      THEN done([fb EXCEPT !.cpp = TRUE, !.frag0P = (fb.frag0Start = 0)], out)
    ELSE LET k == PktAt(starts, StreamPos(fb, off)) IN
      IF k = 0 THEN [fb |-> [fb EXCEPT !.cpp = TRUE], out |-> out, garbage |-> TRUE]
      ELSE IF vers[k] = 4 /\ fb.flen - off < 20 THEN done([fb EXCEPT !.cpp = TRUE], out)
      ELSE IF vers[k] = 6 /\ fb.flen - off < 40 THEN done([fb EXCEPT !.cpp = TRUE], out)
      ELSE IF fb.flen - off < lens[k]
        THEN done([fb EXCEPT !.frag0Start = off, !.pktLen = lens[k], !.cpp = TRUE, !.frag0P = FALSE], out)
      ELSE PcpLoop(fb, off + lens[k], lens[k],
                   Append(out, <<Rng(StreamPos(fb, off), StreamPos(fb, off) + lens[k])>>), starts, lens, vers)

Pcp(fb, starts, lens, vers) ==
    IF fb.cpp \/ fb.index = NoIdx THEN [fb |-> [fb EXCEPT !.cpp = TRUE], out |-> <<>>, garbage |-> FALSE]
    ELSE PcpLoop(fb, fb.index + Hdr, 0, <<>>, starts, lens, vers)

Processed(fb) == fb.cpp /\ fb.fragNP /\ (fb.frag0Start = 0 \/ fb.frag0P)

Res(l, out, g) == [list |-> l, out |-> out, garbage |-> g]

InsertFirst(fb, starts, lens, vers) ==
    LET r == Pcp(fb, starts, lens, vers) IN
    Res(IF r.fb.frag0Start # 0 THEN <<r.fb>> ELSE <<>>, r.out, r.garbage)

\* the scan of tryReassemble: "can" | "err" | "wait"
RECURSIVE Scan(_, _, _)
Scan(l, e, bytes) ==
    IF e > Len(l) THEN "wait"
    ELSE LET b == bytes + (l[e].flen - Hdr) IN
         IF b >= l[1].pktLen THEN "can"
         ELSE IF l[e].index # NoIdx THEN "err"
         ELSE Scan(l, e + 1, b)

\* the collection loop of collectAndWrite: returns [list, buf (ranges), have, last (index of last frame touched)]
RECURSIVE Collect(_, _, _, _, _)
Collect(l, e, buf, have, last) ==
    IF have >= l[1].pktLen \/ e > Len(l) THEN [list |-> l, buf |-> buf, have |-> have, last |-> last]
    ELSE LET missing == l[1].pktLen - have
             take == Min2(missing + Hdr, l[e].flen) - Hdr IN
         Collect([l EXCEPT ![e].fragNP = TRUE], e + 1, Append(buf, Rng(l[e].c, l[e].c + take)), have + take, e)

SelectUnprocessed(l) == SelectSeq(l, LAMBDA f : ~Processed(f))

CollectAndWrite(l, starts, lens, vers) ==
    LET s == l[1]
        l1 == [l EXCEPT ![1].cpp = TRUE, ![1].fragNP = TRUE, ![1].frag0P = TRUE]
        col == Collect(l1, 2, <<Rng(StreamPos(s, s.frag0Start), StreamPos(s, s.flen))>>, s.flen - s.frag0Start, 1)
        emit == IF col.have = s.pktLen THEN <<col.buf>> ELSE <<>>
        r == Pcp(col.list[col.last], starts, lens, vers)
        l2 == [col.list EXCEPT ![col.last] = r.fb] IN
    Res(SelectUnprocessed(l2), emit \o r.out, r.garbage)

TryReassemble(l, starts, lens, vers) ==
    IF Len(l) < 2 THEN Res(l, <<>>, FALSE)
    ELSE IF l[1].frag0Start = 0 THEN Res(<<>>, <<>>, FALSE)
    ELSE LET v == Scan(l, 2, l[1].flen - l[1].frag0Start) IN
         IF v = "can" THEN CollectAndWrite(l, starts, lens, vers)
         ELSE IF v = "err" THEN Res(<<l[Len(l)]>>, <<>>, FALSE)
         ELSE Res(l, <<>>, FALSE)

\* reassemblyList.Insert; "why" names the branch taken (drift keys, coverage)
Insert(l, fr, cap, starts, lens, vers) ==
    LET fb == NewBuf(fr) IN
    IF Len(l) = 0 THEN InsertFirst(fb, starts, lens, vers)
    ELSE IF fb.seq < l[1].seq THEN Res(l, <<>>, FALSE)                      \* too old
    ELSE IF fb.seq <= l[Len(l)].seq THEN Res(l, <<>>, FALSE)                \* duplicate
    ELSE IF fb.seq > l[Len(l)].seq + 1 THEN InsertFirst(fb, starts, lens, vers)   \* gap: flush
    ELSE IF Len(l) = cap THEN InsertFirst(fb, starts, lens, vers)           \* capacity: flush
    ELSE TryReassemble(Append(l, fb), starts, lens, vers)

-----------------------------------------------------------------------------
(* Emissions *)
RECURSIVE Join(_, _)
Join(rs, i) ==      \* [ok, a, b]: the ranges i.. are contiguous
    IF i = Len(rs) THEN [ok |-> TRUE, a |-> rs[i].a, b |-> rs[i].b]
    ELSE LET t == Join(rs, i + 1) IN [ok |-> t.ok /\ rs[i].b = t.a, a |-> rs[i].a, b |-> t.b]

\* packet number an emission reproduces exactly, 0 if it is a splice / truncation
EmittedPkt(rs, starts, lens) ==
    IF Len(rs) = 0 THEN 0
    ELSE LET j == Join(rs, 1)
             k == PktAt(starts, j.a) IN
         IF j.ok /\ k # 0 /\ j.b - j.a = lens[k] THEN k ELSE 0
=============================================================================
