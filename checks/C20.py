"""C20 -- UDP and SCMP checksums verify and detect corruption.

1. TLC explores the code-shaped computation (WireCsum.tla: pseudoHeaderChecksum ; upperLayerChecksum
   with its safe boundary and odd tail ; foldChecksum) exhaustively for all payloads up to 2 (quick) /
   4 (thorough) bytes over a boundary alphabet x address vectors x UDP/SCMP, against the *documented*
   pseudo-header layout: the total folds to 0xFFFF and every single-bit flip of the covered data
   changes it.  The variant that drops the odd last byte is run to show the counterexample (note).
2. The driver serializes UDP and every SCMP message type with the real slayers code for all 16
   address-length combinations, payload lengths 0..64, 255..257, 1231, 1232, 8999, 9000 + seeded ones,
   and re-serializes each packet with single bits of the covered data flipped (and with the
   upper-layer length alone changed), logging the bytes / checksums the real code wrote.
3. TLC recomputes the one's-complement sum from the logged bytes (WireCsumTrace.tla).
"""
import json

import vlib
import _wire


def run(c):
    drv = c.build("wire")
    if not c.replay:
        _wire.mc(c, "WireCsumMC", "WireCsumMC.%s.cfg" % c.tier, timeout=3000)
        r0 = c.tlc("WireCsumMC", "WireCsumMC.oddtail.cfg", workers=2, timeout=600)
        if "FlipsDetected" in r0.inv_violated:
            c.notes.append("model variant OddTail=FALSE (odd last byte dropped): FlipsDetected violated, as expected")
        else:
            raise vlib.Infra("the odd-tail model variant did not produce the expected counterexample:\n" + r0.out[-2000:])
    if c.replay:
        trace = c.replay
    else:
        trace = c.scratch + "/csum.ndjson"
        c.run_driver(drv, ["-mode", "csum", "-out", trace, "-n", 600 if c.thorough else 110])
    r = _wire.validate_table(c, "WireCsumTrace", "WireCsumTrace.cfg", trace, chunks=6 if c.thorough else 2, min_chunk=20)
    _wire.judge_table(c, r, trace, maxlen=200)
    n = flips = 0
    shapes = set()
    with open(trace) as f:
        for line in f:
            e = json.loads(line)
            n += 1
            if e["ev"] != "csum":
                continue
            flips += len(e["flips"]) + len(e["lens"])
            shapes.add((e["kind"], len(e["upper"]), len(e["dst"]), len(e["src"])))
            for fl in e["flips"]:
                shapes.add((e["kind"], len(e["upper"]) % 2, fl[0], min(fl[1], 40), fl[2]))
    c.cov["traces_validated_against_impl"] += 1
    c.cov["evaluations"] += n + flips
    c.cov["distinct_nontrivial"] += len(shapes)
    c.cov["rule"] = ("one evaluation = one serialized packet whose sum TLC recomputed, or one single-bit flip / length "
                     "change re-serialized by the real code; distinct = (kind, upper-layer length, address lengths) of "
                     "the packets plus (kind, length parity, region, byte offset capped at 40, bit) of the flips")
    c.notes.append("packets=%d flips=%d" % (n, flips))
    c.sample({"first_record_kinds": sorted(set(s[0] for s in shapes if isinstance(s[0], str)))})
    c.assumptions += ["the code has no verification routine: 'the flip changes the sum' is observed as 'the checksum the "
                      "real code computes over the flipped data differs from the one in the packet', and TLC checks that "
                      "the re-written checksum again makes the documented sum 0xFFFF",
                      "bit flips of long payloads are sampled (all bits of the first/last 16 bytes + seeded positions)"]
