"""C29 — path combination finds every valid segment combination (see _combine.py)."""
import _combine


def run(c):
    _combine.run(c, "C29:")
