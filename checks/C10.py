"""C10 — SCMP replies and traceroute answers travel back to the sender.

Binding: every path of T1-T3 (sampled in quick) x every AS position x fault kind — egress interface
down (real bfd.Session configured and not up), sibling link down, egress interface not configured,
all hop fields of one AS expired (real beacons with a short ExpTime), a later hop field with a flipped
MAC bit — and x every on-path interface flagged by a router alert on a real SCMP traceroute request.
The answer built by the real slow-path processor is walked back through the real routers.
DataplaneTrace.tla (Prop = C10): every router forwards the answer, it is handed to the source host's
underlay address; a traceroute request is answered exactly once, by the router that owns the flagged
interface, reporting (local ISD-AS, that interface).
Exhaustive: Dataplane.tla — InjectFault (an on-path egress interface down, all hop fields of an on-path
AS expired, a router-alert flag on an on-path interface) + DataplaneOps!ScmpReply (transcription of the
path part of prepareSCMP: reverse, revert the cross-over, SegID update + increment on external links);
invariant AnswersComeBack.  (With the pre-fix check order — SCMP 'path expired' raised before the
ingress SegID update — TLC produces the counterexample of /repo a0b7ee6.)"""
import _dp


def run(c):
    drv = c.build("dp")
    if c.replay:
        trace = c.replay
    else:
        _dp.model(c)
        trace = c.scratch + "/c10.ndjson"
        t1, t2 = c.scratch + "/fault.ndjson", c.scratch + "/alert.ndjson"
        rnd = ["-random", 8] if c.thorough else []
        c.run_driver(drv, ["-mode", "fault", "-out", t1, "-topos", "T1,T2,T3"] + rnd)
        c.run_driver(drv, ["-mode", "alert", "-out", t2, "-topos", "T1,T2,T3"] + rnd)
        with open(trace, "w") as g:
            for p in (t1, t2):
                g.write(open(p).read())
    _dp.validate(c, "C10", trace)
    answered = sum(1 for r, evs in _dp.journeys(trace)
                   if any(e["ev"] == "scmp" and not e["err"] and e["built"] for e in evs))
    if answered == 0:
        raise __import__("vlib").Infra("no journey produced an SCMP answer: vacuous")
    _dp.coverage(c, trace, lambda r, evs: any(e["ev"] == "scmp" and not e["err"] and e["built"]
                                              for e in evs),
                 "fault and router-alert journeys on T1-T3; a journey is non-trivial if a router "
                 "answered (SCMP error or traceroute reply) and the answer was walked back; distinct = "
                 "distinct (topology, path shape, fault kind/position or flagged hop/side)")
    c.assumptions += [
        "alert flags are only set on real SCMP traceroute requests and only for interfaces the packet "
        "really crosses (meta.Interfaces)",
        "interface down = bfd.Session configured and never brought up (Link.IsUp() = false)",
        "expired = hop fields of one AS issued with ExpTime 0 (337 s) on segments 10 min old"]
