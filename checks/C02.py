"""C02 — paths built from beacons are accepted hop by hop and reach the destination.

Exhaustive: Dataplane.tla (honest mode) — beaconing by definition with symbolic MACs, path
combination by definition, RouterStep = transcription of the router; invariant: every combination of
every topology family is forwarded along its interface list and delivered.
Binding: real DefaultExtender beacons -> real combinator.Combine (all identical constructions) ->
real routers (router export H1), every (src, dst, path) of T1-T3 plus seeded random topologies;
DataplaneTrace.tla (Prop = C02) judges every router visit against the path metadata and topology."""
import _dp


def run(c):
    drv = c.build("dp")
    if c.replay:
        trace = c.replay
    else:
        _dp.model(c)
        trace = c.scratch + "/dp.ndjson"
        c.run_driver(drv, ["-mode", "honest", "-out", trace, "-topos", "T1,T2,T3",
                           "-random", 40 if c.thorough else 3])
    _dp.validate(c, "C02", trace)
    if not c.replay:
        # segments produced by concurrent origination / propagation / registration: several goroutines
        # extend through the one DefaultExtender of an AS at the same time (as Originator, Propagator and
        # Writer do), with overlapping beaconing intervals, on a wide fan-out topology; the hashes the
        # harness' MAC factory hands out yield the processor inside every operation (schedule perturbation)
        conc = c.scratch + "/conc.ndjson"
        c.run_driver(drv, ["-mode", "conc", "-out", conc])
        _dp.validate(c, "C02", conc)
        n = sum(1 for line in open(conc) if '"ev":"reset"' in line)
        c.cov["traces_validated_against_impl"] += n
        c.cov["evaluations"] += sum(1 for line in open(conc) if '"ev":"hop"' in line)
        c.notes.append("%d journeys over segments produced by concurrent beacon extension" % n)
        # the limits of the path header: a segment of 64 AS entries (the 6-bit SegLen field holds 63, a path 64
        # hop fields): whatever the combinator returns there must be sendable and accepted
        lim = c.scratch + "/limit.ndjson"
        c.run_driver(drv, ["-mode", "line", "-ns", "64", "-out", lim])
        _dp.validate(c, "C02", lim)
        c.cov["traces_validated_against_impl"] += sum(1 for line in open(lim) if '"ev":"reset"' in line)
        c.cov["evaluations"] += sum(1 for line in open(lim) if '"ev":"hop"' in line)
    _dp.coverage(c, trace, lambda r, evs: r["mode"] == "honest" and any(
        e["ev"] == "hop" and e["j"] == "req" for e in evs),
        "every path returned by the real combinator (findAllIdentical) for every ordered AS pair of "
        "T1-T3 and a sample for seeded random topologies, walked through the real routers; a journey "
        "is non-trivial if at least one router processed the request; distinct = distinct (topology, "
        "segment lengths, ConsDir/Peer flags, path type) shapes")
    c.assumptions += [
        "packets are injected into the real packet processors through the router export (no sockets)",
        "time: segment timestamps 10 min in the past, hop expiry 6 h (no boundary cases)",
        "model and driver use the same topology families (emitted by the driver, read by TLC)"]
