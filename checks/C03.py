"""C03 — reversed paths carry replies back to the source.

Same journeys as C02; at the destination the real reversal code (snet.DefaultReplyPather.ReplyPath,
alternately scion.Raw.Reverse) is applied to the delivered bytes, addresses are swapped and the reply is
walked through the real routers.  DataplaneTrace.tla (Prop = C03) demands acceptance at every router,
the request's interfaces in reverse order, delivery at the original source host.  The exhaustive model
(Dataplane.tla) contains HostReverse (DataplaneOps!Reverse) and the reply leg."""
import _dp


def run(c):
    drv = c.build("dp")
    if c.replay:
        trace = c.replay
    else:
        _dp.model(c)
        trace = c.scratch + "/dp.ndjson"
        c.run_driver(drv, ["-mode", "honest", "-out", trace, "-topos", "T1,T2,T3",
                           "-random", 40 if c.thorough else 3])
    _dp.validate(c, "C03", trace)
    _dp.coverage(c, trace, lambda r, evs: r["mode"] == "honest" and any(
        e["ev"] == "hop" and e["j"] == "rep" for e in evs),
        "every path returned by the real combinator (findAllIdentical) for every ordered AS pair of "
        "T1-T3 and a sample for seeded random topologies, walked through the real routers; a journey "
        "is non-trivial if at least one router processed the reply; distinct = distinct (topology, "
        "segment lengths, ConsDir/Peer flags, path type) shapes")
    c.assumptions += [
        "packets are injected into the real packet processors through the router export (no sockets)",
        "time: segment timestamps 10 min in the past, hop expiry 6 h (no boundary cases)",
        "model and driver use the same topology families (emitted by the driver, read by TLC)"]
