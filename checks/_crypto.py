"""Helpers shared by the checks of bld-crypto (C11, C17, C38, C39, C40).

TLC pretty-prints a PrintT tuple over several lines when it is wider than ~80 columns; vlib's
TlcResult only recognises the one-line form.  bad_lines()/drift_keys() re-parse the output with
whitespace-tolerant patterns so that a long key can never hide a violation.
"""
import os
import re

_BAD = re.compile(r'<<\s*"VERIF-BAD",\s*(\d+),\s*"((?:[^"\\]|\\.)*)"\s*>>', re.S)
_DRIFT = re.compile(r'<<\s*"VERIF-DRIFT",\s*(\d+),\s*"((?:[^"\\]|\\.)*)"\s*>>', re.S)
_STAT = re.compile(r'<<\s*"VERIF-STAT",\s*"([^"]+)",\s*(-?\d+)\s*>>', re.S)
_DONE = re.compile(r'<<\s*"VERIF-DONE",\s*(\d+)\s*>>', re.S)


def bad_lines(r):
    return sorted(set((int(m.group(1)), m.group(2)) for m in _BAD.finditer(r.out)))


def drift_keys(r):
    return sorted(set(m.group(2) for m in _DRIFT.finditer(r.out)))


def stats(r):
    return {m.group(1): int(m.group(2)) for m in _STAT.finditer(r.out)}


def done(r):
    m = _DONE.findall(r.out)
    return max(int(x) for x in m) if m else None


def judge_cases(c, r, trace, vlib, sidecar=None, whole_trace=False):
    """Report every VERIF-BAD line. Table-like traces: the replay file is the single line (plus the
    lines listed by `whole_trace` = a function line_index -> list of line indices to include)."""
    lines = open(trace).read().splitlines()
    if done(r) != len(lines):
        raise vlib.Infra("trace validation consumed %s of %d lines\n%s" % (done(r), len(lines), r.out[-3000:]))
    side = open(sidecar).read().splitlines() if sidecar and os.path.exists(sidecar) else []
    for (l, key) in bad_lines(r):
        p = os.path.join(c.scratch, "replay-%d.ndjson" % l)
        idx = whole_trace(lines, l) if whole_trace else [l]
        with open(p, "w") as f:
            f.write("\n".join(lines[i - 1] for i in idx) + "\n")
        c.report(key, "trace line %d: %s %s" % (l, lines[l - 1][:400], side[l - 1] if l <= len(side) else ""), p)
    for d in drift_keys(r):
        c.notes.append("MODEL-DRIFT " + d)
    return lines


def reset_slice(lines, l):
    """Indices (1-based) of the reset-delimited trace containing line l."""
    a = l - 1
    while a > 0 and '"ev":"reset"' not in lines[a].replace(" ", ""):
        a -= 1
    b = l
    while b < len(lines) and '"ev":"reset"' not in lines[b].replace(" ", ""):
        b += 1
    return list(range(a + 1, b + 1))
