"""C13 - EPIC packets need fresh timestamps and valid hop validation fields.

TLC explores RouterStep.tla for EPIC paths (every shape, position, ingress kind, hop validity, and
every combination of {fresh, PHVF valid, LHVF valid}); invariant InvC13 = C13Key + C13TwinKey of
RouterStepOps.tla: a router that validates hop field n-2 (as current hop or as the hop reached by
its own cross-over) or n-1 and lets the packet pass => fresh and the respective HVF valid; at every
other hop the EPIC packet is treated exactly like its embedded SCION path.  The assemblies are
concretised (HVFs by the harness's own CBC-MAC written from scion-header.rst, keyed with the hop
authenticator; stale = 4 s or 60 s old, 15 s or 60 s in the future; bad HVF = one flipped bit), run through one
real router together with their SCION twins, and judged by TLC.
"""
import _dpadv


def run(c):
    th = c.thorough
    _dpadv.pipeline(
        c, "C13",
        explores=[("epic.%s" % c.tier, False)],
        asfounds=[("d12", ["InvC13"])],
        prefer=("fresh", "hvf"),
        budget=50000 if th else 9000,
        rand={"rand": 30000 if th else 1500, "maxhops": 4, "kinds": ["epic"]},
        flags=["-variants", "2"],
        nontrivial=lambda e: e["p"]["kind"] == "epic" and (e["o"]["disp"] in ("forward", "deliver") or
                                                           e["tw"]["disp"] in ("forward", "deliver")))
    c.cov["rule"] = ("one event = one real EPIC packet (and its SCION twin) through the real router, judged by "
                     "C13Key / C13TwinKey; non-trivial = the EPIC packet or its twin passed; distinct = distinct "
                     "(abstract packet, disposition, egress, scope, SCMP cause) tuples")
