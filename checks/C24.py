"""C24 — segment verification detects any alteration of signed content.

1. TLC explores SegVerify.tla exhaustively: a segment signed entry by entry, then up to 2 (quick) /
   3 (thorough) adversarial steps (alter info / body / signature, swap, remove, insert replayed or
   duplicated entries, drop the tail, re-sign with a key certified for another AS, with another AS's
   key under the right name, with a certificate not covering the hop lifetime); verification shaped
   like segverifier.VerifySegment; invariant: verifies <=> unaltered non-empty prefix of the signed
   segment with properly certified signers.
2. The driver builds REAL segments (1..10 entries, real trust.Signers, real x509 chains), applies the
   same manipulation classes on the wire form, runs the REAL decoder + segverifier + trust.Verifier
   over a real trust DB, and logs provenance tags + verdicts.
3. SegVerifyTrace.tla: verdict must equal SegVerifyOps!SegmentVerifies(tags) in both directions.
"""
import json

import vlib
import _tlcout


def run(c):
    drv = c.build("segverify")
    c.mc("SegVerify", "SegVerifyMC.%s.cfg" % c.tier, timeout=3000)
    if c.replay:
        trace = c.replay
    else:
        trace = c.scratch + "/segverify.ndjson"
        args = ["-n", 800, "-flips", 48, "-exhaustive", 4] if c.thorough else ["-n", 72, "-flips", 20]
        c.run_driver(drv, args + ["-out", trace])
    r = c.validate("SegVerifyTrace", "SegVerifyTrace.cfg", trace, timeout=3000)
    drift = _tlcout.renorm(r)
    c.judge_trace(r, trace)
    st = r.stats
    if not c.replay and (st.get("accepted", 0) == 0 or st.get("rejected", 0) == 0):
        raise vlib.Infra("vacuous run: %s" % st)
    classes = set()
    with open(trace) as f:
        for line in f:
            ev = json.loads(line)
            if ev.get("ev") == "verify":
                bad = [i for i, e in enumerate(ev["ents"]) if e["hb"] or e["sg"]]
                classes.add((ev["mut"], len(ev["ents"]), bad[0] if bad else -1, ev["accepted"]))
    c.cov["traces_validated_against_impl"] += st.get("cases", 0)
    c.cov["evaluations"] += st.get("cases", 0)
    c.cov["distinct_nontrivial"] += len(classes)
    c.cov["rule"] = ("an evaluation is one (manipulated) segment verified by the real code and judged by TLC; "
                     "distinct = distinct (manipulation class, number of entries, first altered position, verdict); "
                     "%d accepted / %d rejected, %d AS entries in total"
                     % (st.get("accepted", 0), st.get("rejected", 0), st.get("entries", 0)))
    c.notes.append("trace stats: %s" % st)
    c.sample_trace(trace, nevents=2)
    c.assumptions += [
        "signatures are symbolic in the model; on the implementation side bit flips of ECDSA signatures are "
        "expected to invalidate them (algebraic malleability of ECDSA is outside C24, DESIGN.md section 8)",
        "segments are live (now inside every hop lifetime, margins >= 2 min): trust.FetchingProvider verifies "
        "chains at the current time, so a certificate that covered the hop lifetime but has expired since is "
        "outside the generated space",
        "bit-flip positions are sampled (seeded), not enumerated, on the implementation side",
    ]
