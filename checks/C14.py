"""C14 — every packet buffer of the router's pool has exactly one owner at a time.

1. TLC explores PacketPool.tla exhaustively: receivers with pre-fetch, link demux (busy / invalid),
   processors (forward / discard / slow path), slow-path processors, the internal link's STUN
   processor, senders with partial writes and write errors, BFD senders, provider.Stop; invariants
   OwnerUnique (never two owners, never none), NoDoublePut, Conservation, QuiescentHome, StoppedHome.
   Two constant-selected variants only *show* known weaknesses of the design in the model (never a
   verdict): Shutdown at an arbitrary moment lets a processor / BFD sender send on a closed channel;
   a serialize error in bfdSend.Send would leak the buffer (DESIGN D10).
2. The real dataPlane.Run (race detector on) is driven through in-memory sockets following seeded
   fault scripts; the verif hook in PacketPool.Get/Put reports every pool operation (and poisons
   returned packets); the merged trace is validated step by step against PacketPoolTrace.tla.
   Data races reported by the race detector are appended to the trace as events without a
   specification action.
"""
import glob
import json
import os
import re

import vlib

SCION = "github.com/scionproto/scion/"


def parse_races(paths):
    """[(fnA, fnB)] of the race reports: first frame of each of the two accesses inside /repo."""
    out = []
    for p in paths:
        txt = open(p, errors="replace").read()
        for rep in txt.split("WARNING: DATA RACE")[1:]:
            rep = rep.split("==================")[0]
            blocks = re.split(r"\n\n", rep)
            fns = []
            for b in blocks:
                if re.match(r"\s*(Read|Write|Previous read|Previous write|Atomic)", b.strip()[:40] if b.strip() else ""):
                    fn = None
                    for m in re.finditer(r"^  (\S+)\(", b, re.M):
                        name = m.group(1)
                        if name.startswith(SCION):
                            fn = name[len(SCION):]
                            break
                    fns.append(fn)
            a = fns[0] if len(fns) > 0 else None
            b = fns[1] if len(fns) > 1 else None
            out.append((a, b, rep[:1500]))
    return out


def crash_site(text):
    """(innermost /repo function on the panicking stack, log excerpt) from the router's panic log."""
    m = re.search(r'ERROR\s+\S+\s+Panic\s+(\{.*)', text)
    excerpt = m.group(1) if m else text[-1500:]
    fn = "unknown"
    for f in re.findall(r'(github\.com/scionproto/scion/[^\s\\"]+)\\n', excerpt):
        f = f[len(SCION):]
        if f.startswith("pkg/log."):
            continue
        fn = re.sub(r"\.func\d+(\.\d+)*$", "", f)
        break
    return fn, excerpt


def keep_complete_traces(path):
    """The driver died: keep the reset-delimited traces that were written completely."""
    if not os.path.exists(path):
        open(path, "w").close()
        return
    lines = open(path, errors="replace").read().split("\n")
    good = []
    cur = []
    for ln in lines:
        try:
            e = json.loads(ln)
        except Exception:
            break
        cur.append(ln)
        if e.get("ev") == "final":
            good += cur
            cur = []
    with open(path, "w") as f:
        f.write("".join(x + "\n" for x in good))


def run(c):
    drv = c.build("pool", race=not os.environ.get("C14_NORACE"))   # C14_NORACE: development only (mutation runs)
    if c.thorough:
        cfgs = ["PacketPoolMC.thorough.cfg", "PacketPoolMC.thorough2.cfg", "PacketPoolMC.quick.cfg",
                "PacketPoolMC.quick2.cfg", "PacketPoolMC.live.cfg"]   # live: EventuallyHome under fairness
    else:
        cfgs = ["PacketPoolMC.quick.cfg", "PacketPoolMC.quick2.cfg"]
    if os.environ.get("C14_SKIPMC"):      # development only (mutation runs exercise the binding)
        cfgs = []
    for cfg in cfgs:
        c.mc("PacketPool", cfg, timeout=3000)
    # model-only demonstrations (expected to fail in the model; never a verdict)
    demo = not os.environ.get("C14_SKIPMC")
    r = c.tlc("PacketPool", "PacketPoolMC.anystop.cfg", timeout=600) if demo else None
    if not demo:
        pass
    elif "NoSendOnClosed" in r.inv_violated:
        c.notes.append("model only: dataPlane.Shutdown at an arbitrary moment closes the egress queues while "
                       "processors / BFD senders may still Send -> send on closed channel (panic); the driver "
                       "therefore shuts down from a quiescent pipeline")
    else:
        raise vlib.Infra("anystop variant did not show the send-on-closed-channel counterexample")
    r = c.tlc("PacketPool", "PacketPoolMC.bfdleak.cfg", timeout=600) if demo else None
    if not demo:
        pass
    elif "OwnerUnique" in r.inv_violated:
        c.notes.append("model only: a serialize error in bfdSend.Send would return without Put (DESIGN D10 leak); "
                       "not reachable from the driver (bfderr events: see evidence)")
    else:
        raise vlib.Infra("bfdleak variant did not show the leak")

    if c.replay:
        trace = c.replay
        sites = {}
    else:
        trace = c.scratch + "/pool.ndjson"
        chunks = 6 if c.thorough else 1
        per = 40 if c.thorough else 20
        sites = {}
        with open(trace, "w") as out:
            for k in range(chunks):
                part = c.scratch + "/part%d.ndjson" % k
                sfile = c.scratch + "/sites%d.ndjson" % k
                racep = c.scratch + "/race%d" % k
                p = c.run_driver(drv, ["-n", per, "-first", k * per, "-out", part, "-sites", sfile],
                                 env_extra={"GORACE": "log_path=%s halt_on_error=0 exitcode=0" % racep},
                                 timeout=2400, check=False)
                crash = None
                if p.returncode == 255 and "Service panicked" in p.stdout:
                    # a router goroutine panicked (log.HandlePanic exits with 255): an observation
                    # about the real code, recorded as an event without specification action
                    crash = crash_site(p.stdout)
                    keep_complete_traces(part)
                elif p.returncode != 0:
                    raise vlib.Infra("driver pool failed (%d):\n%s" % (p.returncode, p.stdout[-4000:]))
                out.write(open(part).read())
                if crash:
                    out.write(json.dumps({"ev": "reset", "id": -2, "nbuf": 0, "batch": 1, "np": 1, "ns": 1,
                                          "nconn": 1, "nif": 1, "panic_log": crash[1][:600]}) + "\n")
                    out.write(json.dumps({"ev": "crash", "where": crash[0]}) + "\n")
                for line in (open(sfile) if os.path.exists(sfile) else []):
                    s = json.loads(line)
                    sites[s["site"]] = sites.get(s["site"], 0) + s["n"]
                races = parse_races(glob.glob(racep + ".*"))
                for (a, b, text) in races:
                    if a is None and b is None:
                        raise vlib.Infra("data race inside the harness itself:\n" + text)
                    out.write(json.dumps({"ev": "reset", "id": -1, "nbuf": 0, "batch": 1, "np": 1, "ns": 1,
                                          "nconn": 1, "nif": 1, "race_report": text[:600]}) + "\n")
                    out.write(json.dumps({"ev": "race", "a": a or "harness", "b": b or "harness"}) + "\n")
    r = c.validate("PacketPoolTrace", "PacketPoolTrace.cfg", trace, timeout=3000)
    c.judge_trace(r, trace)
    ntr = 0
    evs = 0
    shapes = set()
    nbfderr = 0
    for t in vlib.split_traces(trace):
        ntr += 1
        evs += len(t) - 1
        puts = sorted({e["fn"] + ":" + str(e["line"]) for e in t if e["ev"] == "put"})
        drops = [p for p in puts if "initPacketPool" not in p]
        nbfderr += sum(1 for e in t if e["ev"] == "bfderr")
        if any(e["ev"] == "write" and e["ret"] != e["n"] for e in t) or len(drops) > 2:
            h = t[0]
            shapes.add(json.dumps([h.get("batch"), h.get("np"), h.get("ns"), h.get("nif"), puts]))
    c.cov["traces_validated_against_impl"] += ntr
    c.cov["evaluations"] += evs
    c.cov["distinct_nontrivial"] += len(shapes)
    c.cov["rule"] = ("one trace = one real dataPlane.Run (several traffic rounds, each ending in quiescence, then "
                     "Shutdown); an event = one pool operation / socket observation judged by TLC; non-trivial = a "
                     "partial or failed WriteBatch or more than two distinct drop sites; distinct = distinct "
                     "(batch, processors, slow processors, interfaces, set of Put call sites)")
    if sites:
        c.notes.append("pool call sites exercised: " + ", ".join("%s x%d" % kv for kv in sorted(sites.items())))
    c.notes.append("bfdSend serialize errors observed: %d" % nbfderr)
    c.sample_trace(trace, nevents=4)
    c.assumptions += [
        "hook events are emitted in the calling goroutine: Put before the channel send, Get after the channel "
        "receive (their order linearizes the operations on each buffer)",
        "goroutine interleavings are sampled (GOMAXPROCS 1/2/4/16, seeded yields, slow writers), enumerated only "
        "in the TLA+ model; use of a buffer by two stages is observed through the race detector, the poison "
        "written by Put, and the buffers the in-memory sockets are handed",
        "Shutdown is exercised from a quiescent pipeline only (at an arbitrary moment the unchanged design can "
        "panic with a send on a closed channel, which is outside the ownership property)",
        "BFD senders are real bfdSend objects driven by harness goroutines (no bfd.Session timers)"]
