"""C18 -- SCION headers round-trip through decoding and serialization.

1. TLC checks the documented layouts (WireOps!Items: common/address header, SCION / EPIC / one-hop /
   empty paths, HBH/E2E TLV options, UDP, every SCMP message) on a boundary lattice (Wire.tla): every
   field set to 0, 1, max-1, max changes the packed bytes (the encoding is injective, so decoding is
   well defined), the packed length equals the declared length, and the independent length
   arithmetic WireOps!LenExceeds rejects every truncation and accepts the whole header.
2. Encoder direction: the driver builds packets from boundary + seeded field values (all address
   lengths/types, all path kinds incl. 64-hop paths, extensions with arbitrary options and
   alignments, UDP and all SCMP types), serializes them with the real slayers code (FixLengths),
   decodes them again with the real decoder and re-serializes without FixLengths.
   Decoder direction: truncations, length/type fields set to boundary values, bit flips and random
   tails of those packets are handed to the real decoder, layer by layer.
3. TLC judges every record (WireCodecTrace.tla): bytes = Pack(Items(v)), redecoded = v,
   accepted => decoded fields are what the bytes say and re-serialization reproduces them on the
   non-reserved bits, declared lengths beyond the data => rejected, no panic.
"""
import json

import vlib
import _wire


def run(c):
    drv = c.build("wire")
    if not c.replay:
        _wire.mc(c, "Wire", "WireMC.%s.cfg" % c.tier, timeout=3000)
    if c.replay:
        trace = c.replay
    else:
        trace = c.scratch + "/codec.ndjson"
        c.run_driver(drv, ["-mode", "codec", "-out", trace, "-n", 400 if c.thorough else 32])
    r = _wire.validate_table(c, "WireCodecTrace", "WireCodecTrace.cfg", trace, chunks=6 if c.thorough else 4, min_chunk=100)
    _wire.judge_table(c, r, trace, maxlen=200)
    n = 0
    shapes = set()
    stats = {"enc": 0, "pkt": 0, "dec_accepted": 0, "dec_rejected": 0, "dec_truncflag": 0}
    with open(trace) as f:
        for line in f:
            e = json.loads(line)
            n += 1
            if e["ev"] == "enc":
                stats["enc"] += 1
                v = e["v"]
                if e["layer"] == "scion":
                    p = v["path"]
                    shapes.add(("enc", "scion", p["kind"], tuple(p.get("seglen", [])), v["dl"], v["sl"]))
                elif e["layer"] in ("hbh", "e2e"):
                    shapes.add(("enc", e["layer"], tuple((len(o["data"]) % 8, o["ax"], o["ay"]) for o in v["opts"])))
                elif e["layer"] == "scmp":
                    shapes.add(("enc", "scmp", v["type"]))
                else:
                    shapes.add(("enc", "udp", v["sport"] in (0, 1, 65534, 65535), v["dport"] in (0, 1, 65534, 65535)))
            elif e["ev"] == "pkt":
                stats["pkt"] += 1
            elif e["ev"] == "dec":
                if e["acc"]:
                    stats["dec_truncflag" if e["trunc"] else "dec_accepted"] += 1
                    shapes.add(("dec", e["layer"], e["contents"], len(e["in"]) - e["contents"] > 0))
                else:
                    stats["dec_rejected"] += 1
                    shapes.add(("rej", e["layer"], min(e["inlen"], 64)))
    drift = _wire.drift_keys(r.out)
    if drift:
        c.notes.append("model drift (not a verdict): " + "; ".join(drift)[:1000])
    c.notes.append(json.dumps(stats, sort_keys=True))
    c.cov["traces_validated_against_impl"] += 1
    c.cov["evaluations"] += n
    c.cov["distinct_nontrivial"] += len(shapes)
    c.cov["rule"] = ("one evaluation = one layer of one packet encoded+decoded by the real code, one whole-packet "
                     "re-serialization, or one layer of one mutated byte string given to the real decoder; distinct = "
                     "(direction, layer, path kind / segment lengths / address lengths | option layout | SCMP type | "
                     "header length and presence of a payload | input length of a rejected input)")
    c.level = "model_checking"
    c.sample_trace(trace, nevents=2)
    c.assumptions += ["encoder direction: model_checking on the boundary lattice of the layouts + sampled values on the real "
                      "code; decoder direction ('all byte strings') is exploration: seeded, structure-aware mutants",
                      "reserved bits are generated as zero for the equality clauses; a decoder that accepts a header whose "
                      "HdrLen leaves unassigned slack bytes after the path is reported as drift (re-serialization drops "
                      "the slack) -- no document assigns those bytes to a field",
                      "'rejects' = returns an error or sets gopacket's truncation flag (UDP); the SCION PayloadLen is not "
                      "a structural length of the header decoder and is not judged",
                      "option padding is free: only decodability, equal non-padding options and ExtLen are required"]
