"""C31 - the revocation cache keeps the newest live revocation per interface.

1. TLC explores RevCache.tla: the cache as built (an expiring store whose entries stay physically
   present until DeleteExpired, Insert = expiry check + store lookup + timestamp comparison) next to
   the abstract store (RevCacheOps: InsertOK, Lookup) over all histories of inserts with arbitrary
   timestamps / lifetimes, lookups, clean-ups and clock ticks: same outcome of every call, expired
   revocations never visible, an older revocation never replaces a newer live one.
2. harness/cmd/revcache runs seeded and directed histories on real memrevcache instances; the wall
   clock is the abstract clock (whole seconds, calls made mid-second, every call logged with the
   window of seconds it may have observed).
3. TLC validates every recorded outcome against RevCacheOps (RevCacheTrace.tla).
"""
import vlib


def run(c):
    drv = c.build("revcache")
    if c.replay:
        trace = c.replay
    else:
        c.mc("RevCache", "RevCacheMC.%s.cfg" % c.tier, timeout=3000)
        trace = c.scratch + "/revcache.ndjson"
        args = ["-n", 1500, "-conc", 1500, "-rounds", 4, "-tmax", 7] if c.thorough else \
               ["-n", 400, "-conc", 200, "-rounds", 1, "-tmax", 5]
        p = c.run_driver(drv, ["-out", trace] + args, timeout=3000)
        c.notes.append("driver: " + p.stdout.strip().splitlines()[-1])
    r = c.validate("RevCacheTrace", "RevCacheTrace.cfg", trace, timeout=3000)
    c.judge_trace(r, trace)
    ntr = evs = wide = nburst = 0
    shapes = set()
    for t in vlib.split_traces(trace):
        ntr += 1
        calls = [e for e in t if e["ev"] != "reset"]
        evs += sum(len(e["ops"]) if e["ev"] == "burst" else 1 for e in calls)
        wide += sum(1 for e in calls if e["lo"] != e["hi"])
        if any(e["ev"] == "burst" for e in calls):
            nburst += 1
        # non-trivial: an insert hit an occupied slot (accepted or not) or a lookup came after an expiry
        seen = set()
        nontrivial = False
        for e in calls:
            if e["ev"] == "burst":
                nontrivial = True
            if e["ev"] == "ins":
                if e["k"] in seen:
                    nontrivial = True
                if e["ok"]:
                    seen.add(e["k"])
            if e["ev"] == "get" and e["k"] in seen and not e["found"]:
                nontrivial = True
        if nontrivial:
            shapes.add(str([(e["ev"], e.get("k"), e.get("ts", 0) - e["lo"], e.get("ttl"), e.get("ok"), e.get("found"))
                            for e in calls]))
    c.cov["traces_validated_against_impl"] += ntr
    c.cov["evaluations"] += evs
    c.cov["distinct_nontrivial"] += len(shapes)
    c.cov["rule"] = ("a trace is one history on one real cache instance; an evaluation is one Insert / Get / "
                     "DeleteExpired call judged by TLC; non-trivial = some insert met an occupied slot or a "
                     "lookup found an accepted revocation gone; distinct = distinct call sequences with "
                     "timestamps relative to the call time")
    c.notes.append("histories ending in a burst of concurrent callers (linearizability search by TLC): %d" % nburst)
    c.notes.append("calls with a two-second window (either outcome accepted): %d of %d" % (wide, evs))
    nd = r.out.count('"VERIF-DRIFT"')
    if nd:
        c.notes.append("VERIF-DRIFT lines (DeleteExpired count, outside the property): %d" % nd)
    c.sample_trace(trace, nevents=10, limit=1)
    c.assumptions += ["the wall clock is the abstract clock: revocations have whole-second timestamps and "
                      "lifetimes, calls are made mid-second and a call within 250 ms of a whole second is "
                      "judged against both seconds",
                      "sub-second expiry behaviour is not examined",
                      "the count returned by DeleteExpired is outside the property; GetAll is judged as the "
                      "lookup of every key at once",
                      "concurrent callers: the cache exposes no hook to order operations, so bursts are judged by "
                      "searching a linearization from invocation/response stamps (interleavings are sampled by the "
                      "Go scheduler, 2-4 callers x 1-3 calls)"]
