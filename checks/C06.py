"""C06 - forwarding respects the link-type rules of SCION paths.

1. TLC checks RouterStep.tla (transcription of scionPacketProcessor.process) exhaustively on the
   complete link-type decision table (router T: one ingress interface per link type core / parent /
   child / peer / unset, one own and one sibling-owned egress interface per type; host, sibling and
   external ingress; no segment change / cross-over / peering hop; both directions; validly MACed
   hop fields for EVERY interface pair - the harness plays a careless control service) and on the
   router-alert space; invariant InvC06 = C06Key / C06Reflect of RouterStepOps.tla.
2. Every assembly the model forwards and the near misses of every single check are concretised
   into real packets, run through one real router (fast path, then slow path), and every event is
   judged by TLC with the same predicates (RouterStepTrace.tla).  A packet that the slow path hands
   back to the ingress link without having built an SCMP message counts as forwarded over (X, X).
"""
import _dpadv


def run(c):
    th = c.thorough
    _dpadv.pipeline(
        c, "C06",
        explores=[("table.%s" % c.tier, False), ("alert.%s" % c.tier, False)],
        asfounds=[("d3", ["InvC06"]), ("d13", ["InvC06"])],
        prefer=("linktype", "egressid", "alertin", "alerteg"),
        budget=120000 if th else 8000,
        rand={"rand": 20000 if th else 1000, "maxhops": 4, "kinds": ["scion"]},
        nontrivial=lambda e: e["o"]["disp"] in ("forward", "deliver") or
        (e["o"]["disp"] == "slow" and (e["o"]["code"] in (48, 49, 50, 53) or e["o"]["st"] < 0)))
    c.cov["rule"] = ("one event = one real packet through the real router, judged by C06Key/C06Reflect; non-trivial = "
                     "the packet was forwarded / delivered, or rejected by the egress-interface / link-type rules, or "
                     "took the router-alert slow path; distinct = distinct (abstract packet, disposition, egress, "
                     "scope, SCMP cause) tuples")
    c.cov["exhaustive"] = False
