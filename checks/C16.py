"""C16 - BFD sessions follow RFC 5880 and always recover.

1. TLC, BFD.tla with the RFC 5880 6.8.6 relation: two sessions over a link that loses, delays and
   reorders, plus an adversary injecting arbitrary control packets (any state incl. AdminDown) with a
   finite budget: never AdminDown, Up only while the peer says Init/Up, silence => Down, and the
   liveness property <>[](both Up) under weak fairness ("never into a state it cannot leave");
   Budget = 0: Up is never left.  The same model with the relation found in router/bfd before the
   repair (received AdminDown => AdminDown) is run as well and is EXPECTED to violate the liveness
   property (design-level evidence for DESIGN.md section 7, D4) - recorded as a note, never a verdict.
2. harness/cmd/bfdfsm runs the real code: the transition table, real Sessions fed complete sets of short
   packet histories and seeded long ones through ReceiveMessage (hook H3 records every step of
   Session.Run) incl. timed histories (the expiry must not come before, nor long after, received Detect
   Mult x max(local Required Min RX, received Desired Min TX)), pairs of real Sessions over a seeded
   lossy/injecting link that becomes lossless, and a real Session against a scripted RFC 5880 peer that
   selects its session by Your Discriminator (undisturbed / after a stray packet / after a peer restart).
3. TLC validates every recorded step against BFDOps!Rfc (BFDTrace.tla).
"""
import re

import vlib


def run(c):
    drv = c.build("bfdfsm")
    if not c.replay:
        c.mc("BFD", "BFDMC.%s.cfg" % c.tier, timeout=3000)
        c.mc("BFD", "BFDMC.nofault.cfg", timeout=600)
        if c.thorough:       # Budget 2 with injected foreign My Discriminators as well
            c.mc("BFD", "BFDMC.foreign.cfg", timeout=3000)
            # ... and with a peer that selects its session strictly by Your Discriminator
            c.mc("BFD", "BFDMC.strict.cfg", timeout=3000)
        r = c.tlc("BFD", "BFDMC.stale.cfg", timeout=600)
        if r.prop_violated or re.search(r"Temporal property Recovers was violated", r.out):
            c.notes.append("design level: a session that learns the remote discriminator only while it is zero "
                           "(router/bfd before the repair) never recovers against an RFC peer that selects its "
                           "session by Your Discriminator after one stray packet - TLC counterexample to "
                           "<>[](both Up) (%d states)" % r.distinct)
        else:
            raise vlib.Infra("BFDMC.stale.cfg was expected to violate Recovers\n" + r.out[-2000:])
        r = c.tlc("BFD", "BFDMC.code.cfg", timeout=600)
        # (this TLC prints "Temporal property Recovers was violated"; vlib only knows the plural form)
        if r.prop_violated or re.search(r"Temporal property Recovers was violated", r.out):
            c.notes.append("design level: with the relation 'received AdminDown => AdminDown' (router/bfd "
                           "before the repair) TLC finds the liveness counterexample to <>[](both Up) "
                           "(%d states)" % r.distinct)
        else:
            raise vlib.Infra("BFDMC.code.cfg: the code-shaped relation was expected to violate Recovers\n"
                             + r.out[-2000:])
    if c.replay:
        trace = c.replay
    else:
        trace = c.scratch + "/bfd.ndjson"
        args = ["-len", 3, "-rand", 3000, "-pairs", 40, "-chaos", 4000, "-workers", 8] if c.thorough else \
               ["-len", 2, "-rand", 300, "-pairs", 8, "-chaos", 2500, "-workers", 8]
        p = c.run_driver(drv, ["-out", trace] + args, timeout=3000)
        c.notes.append("driver: " + p.stdout.strip().splitlines()[-1])
    r = c.validate("BFDTrace", "BFDTrace.cfg", trace, timeout=3000)
    c.judge_trace(r, trace)
    ntr = evs = 0
    shapes = set()
    for t in vlib.split_traces(trace):
        ntr += 1
        steps = [e for e in t if e["ev"] in ("recv", "timer", "tr", "pkt", "send", "settle")]
        evs += len(steps)
        # non-trivial: the session changed state at least once (or a table row)
        seq = []
        prev = 1
        for e in t:
            if e["ev"] in ("recv", "timer"):
                if e["local"] != prev:
                    seq.append((e["ev"], e.get("state", -1), prev, e["local"]))
                prev = e["local"]
        if seq:
            shapes.add(str(seq))
    c.cov["traces_validated_against_impl"] += ntr
    c.cov["evaluations"] += evs
    c.cov["distinct_nontrivial"] += len(shapes)
    c.cov["rule"] = ("a trace is the life of one real Session (or the transition table); an evaluation is one "
                     "recorded step (packet admission, recv, timer, send, settle, table row) judged by TLC; a "
                     "trace is non-trivial if the session changed state; distinct = distinct sequences of "
                     "(step kind, received state, from, to)")
    ndrift = r.out.count('"VERIF-DRIFT"')
    if ndrift:
        c.notes.append("VERIF-DRIFT lines (details outside the property): %d" % ndrift)
    c.sample_trace(trace, nevents=10, limit=1)
    c.assumptions += ["timing is not judged: a detection-timer step is accepted at any point; the only "
                      "time-dependent observations use margins of 10 s (expiry of a 2 ms detection time) and "
                      "30 s (both sessions Up after the link became lossless; the protocol needs about 2 s)",
                      "the sessions under test are selected by link, not by Your Discriminator (as in the router); "
                      "their peers may select strictly (RFC peer scenarios, BFDMC.strict/stale.cfg)",
                      "expiry is never accepted before the detection time (a timer cannot fire early, elapsed time "
                      "is measured from before it was armed); lateness is judged with 5 s slack",
                      "packets using unsupported features (auth, poll/final, echo, demand) may be discarded",
                      "hook H3 (router/bfd/export_verif.go) reports the state after each step from inside Session.Run"]
