"""C19 - path pointer arithmetic is correct for every path shape.

1. TLC explores PathMeta.tla: pick any segment-length triple, then IncPath / Reverse in any order with
   the code-shaped arithmetic (infIndexForHF, IsXover, IsFirstHopAfterXover, IncPath, Reverse);
   invariants: it coincides with the statement-level definitions (segment of a hop, cross-over = last
   hop of a non-last segment, ...), reverse twice = identity (thorough: the complete space).
2. harness/cmd/pathmeta enumerates the meta headers (thorough: all 2^26 projections, reserved bits
   sampled; quick: all 2^18 triples x 16 pointer pairs) through the real Raw/Decoded.DecodeFromBytes
   and tabulates, per accepted triple, every in-range pointer pair: CurrINFMatchesCurrHF, IsXover,
   IsFirstHopAfterXover, IsFirst/Last/PenultimateHop, IncPath, Reverse (Raw, Decoded, twice), byte-level
   agreement of the representations; all 256 pointer pairs for "no panic".
3. TLC validates the tables line by line against the operators of PathMetaOps.tla.
"""
import json
import os
import threading

import vlib


def run(c):
    drv = c.build("pathmeta")
    if not c.replay:
        c.mc("PathMeta", "PathMetaMC.%s.cfg" % c.tier, timeout=3000)
    files = []
    if c.replay:
        files = [c.replay]
    else:
        shards = 6 if c.thorough else 4
        pre = c.scratch + "/pm"
        if c.thorough:
            args = ["-totals", "1-64", "-ptrstride", 1, "-decstride", 4, "-workers", 8]
        else:
            # complete for short paths and for the longest ones, seeded sample in between
            # (of the 2017 triples with 64 hops every third one, the offset depends on the seed)
            args = ["-totals", "1-10,64", "-thin", 3, "-sample", 150, "-ptrstride", 16, "-decstride", 2,
                    "-workers", 4]
        p = c.run_driver(drv, ["-out", pre, "-shards", shards] + args, timeout=3000)
        c.notes.append("driver: " + p.stdout.strip().splitlines()[-1])
        files = ["%s.%d.ndjson" % (pre, i) for i in range(shards)]
    results = [None] * len(files)
    errs = []

    def work(i):
        try:
            results[i] = c.validate("PathMetaTrace", "PathMetaTrace.cfg", files[i], timeout=3000)
        except Exception as e:      # re-raised in the main thread
            errs.append(e)
    ths = [threading.Thread(target=work, args=(i,)) for i in range(len(files))]
    for t in ths:
        t.start()
    for t in ths:
        t.join()
    if errs:
        raise errs[0]
    ntri = nacc = cells = headers = 0
    classes = set()
    ndrift = 0
    for f, r in zip(files, results):
        lines = open(f).read().splitlines()
        if r.stuck_at is not None and not r.bad:
            raise vlib.Infra("table validation stopped at line %s of %s\n%s" % (r.stuck_at, f, r.out[-2000:]))
        ndrift += r.out.count('"VERIF-DRIFT"')
        for (l, key) in r.bad:
            rp = os.path.join(c.scratch, "replay-%s-%d.ndjson" % (os.path.basename(f), l))
            with open(rp, "w") as o:
                o.write(lines[l - 1] + "\n")
            c.report(key, "table line %d: %s" % (l, lines[l - 1][:200]), rp)
        for ln in lines:
            ev = json.loads(ln)
            if ev["ev"] == "acc":
                nacc += 64
                headers += 64 * ev["tried"]
            elif ev["ev"] == "tri":
                ntri += 1
                cells += ev["ni"] * ev["nh"] + 3 * ev["nh"]
                s = ev["s"]
                # abstract class of a tabulated shape: number of segments and which segments have one hop
                classes.add((ev["ni"], tuple(min(x, 2) for x in s), min(ev["nh"], 64) == 64))
    c.cov["traces_validated_against_impl"] += ntri + nacc
    c.cov["evaluations"] += cells + headers
    c.cov["distinct_nontrivial"] += ntri
    c.cov["exhaustive"] = bool(c.thorough and not c.replay)
    c.cov["rule"] = ("an evaluation is one table cell computed by the real code and compared by TLC (one "
                     "pointer pair x {flags+IncPath, Reverse raw/decoded/twice}) or one decoded header; "
                     "distinct_nontrivial = accepted segment-length triples tabulated completely (every "
                     "in-range pointer pair); %d shape classes (segments x one-hop segments x 64 hops)"
                     % len(classes))
    if ndrift:
        c.notes.append("VERIF-DRIFT lines (pointer pairs outside the property): %d" % ndrift)
    if files:
        c.sample_trace(files[-1], nevents=1, limit=1)
        c.cov["samples"] = [json.dumps(s)[:1500] for s in c.cov["samples"]]
    c.assumptions += ["hop and info field contents are sampled (seeded), the 26 pointer/length bits are "
                      "enumerated (thorough: all 2^26; quick: all 2^18 triples x 16 pointer pairs, tables for "
                      "totals <= 10, a third of the triples with 64 hops and a seeded sample)",
                      "the all-zero segment triple is accepted as the empty path (DESIGN.md section 8)",
                      "for pointer pairs outside the path only the absence of panics is required"]
