"""C43 — traffic-class expressions evaluate as written and survive printing.

1. TLC explores TrafficClass.tla, a builder shaped like pktcls' classListener (condition stack +
   child-count stack): the construction yields the tree an independent parser reads from the same
   text, print/parse is the identity, all/any/not have their boolean meaning.
2. TLC (TrafficClassGen) enumerates all expressions up to the node bound over the leaf alphabets
   (addresses, DSCP/TOS, protocol, port ranges, bool) and the packet grid.
3. harness/cmd/pktcls renders each AST to the documented syntax (seeded keyword case / blanks / number
   spellings), calls the real BuildClassTree, evaluates on real layers.IPv4 packets (real TCP/UDP
   headers, truncated headers, other protocols), prints with String(), re-parses, re-evaluates.
4. TrafficClassTrace.tla recomputes Eval for every (expression, packet) pair and judges both values.
"""
import json

import _gw
import vlib


def run(c):
    if c.replay:
        c.build("pktcls")
        r = c.validate("TrafficClassTrace", "TrafficClassTrace.cfg", c.replay)
        c.judge_trace(r, c.replay)
        account(c, [c.replay])
        return
    drv, _, g = _gw.side_by_side(
        lambda: c.build("pktcls"),
        lambda: c.mc("TrafficClass", "TrafficClassMC.%s.cfg" % c.tier, workers=4, timeout=3000),
        lambda: _gw.generator(c, "TrafficClassGen", "TrafficClassGen.%s.cfg" % c.tier),
        c=c, names=("build", "mc", "gen"))
    pk = [p for (p,) in _gw.printed(g.out, "PKTS")]
    if not pk:
        raise vlib.Infra("generator printed no packet grid")
    pkts = pk[0]
    seen = set()
    trees = []
    for (t,) in _gw.printed(g.out, "SCN"):
        k = json.dumps(t, sort_keys=True)
        if k not in seen:
            seen.add(k)
            trees.append(t)
    if not trees:
        raise vlib.Infra("generator printed no expressions")
    nchunks = 8 if c.thorough else 4
    traces = []
    for i, chunk in enumerate(_gw.deal(trees, nchunks)):
        scn = "%s/scn-%d.ndjson" % (c.scratch, i)
        with open(scn, "w") as f:
            f.write(json.dumps({"ev": "reset", "pkts": pkts}) + "\n")
            for t in chunk:
                f.write(json.dumps({"ev": "cls", "ast": t}) + "\n")
        tr = "%s/trace-%d.ndjson" % (c.scratch, i)
        c.run_driver(drv, ["-in", scn, "-out", tr])
        traces.append(tr)
    _gw.validate_all(c, "TrafficClassTrace", "TrafficClassTrace.cfg", traces, minimal=True)
    account(c, traces)
    c.cov["exhaustive"] = True
    c.notes.append("expressions=%d packets=%d" % (len(trees), len(pkts)))


def account(c, traces):
    ntr = evs = 0
    distinct = set()
    sample = None
    for t in traces:
        npk = 0
        with open(t) as f:
            for line in f:
                ev = json.loads(line)
                if ev["ev"] == "reset":
                    ntr += 1
                    npk = len(ev["pkts"])
                    continue
                evs += 3 * npk
                if 0 < len(ev["true1"]) < npk:      # the expression separates the packet grid
                    distinct.add(json.dumps(ev["ast"], sort_keys=True))
                    if sample is None and len(ev["text"]) > 30:
                        sample = {k: ev[k] for k in ("ast", "text", "printed", "true1", "true2")}
    c.cov["traces_validated_against_impl"] += ntr
    c.cov["evaluations"] += evs
    c.cov["distinct_nontrivial"] += len(distinct)
    c.cov["rule"] = ("an evaluation is one (expression, packet) value of the real Cond (parsed text, and parsed "
                     "printed text) recomputed by TLC; an expression is non-trivial if it is true on some and "
                     "false on other packets of the grid; distinct = distinct ASTs")
    if sample:
        c.sample(sample)
    c.assumptions += [
        "protocol predicates use names the grammar can express (letters only: TCP, UDP, SCTP, ...); ICMPv4 "
        "cannot be written in the text syntax and appears only in packets",
        "IPv4 packets are unfragmented; a packet has ports iff a complete TCP/UDP header follows the IP header",
    ]
