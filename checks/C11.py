"""C11 — local delivery uses the documented underlay destination port, whatever the configuration order.

1. TLC explores LocalDelivery.tla (the two stages dstScionPort -> internalLink.Resolve over all packet
   kinds x a port grid around the range bounds x ranges, IP and service destinations) and
   RouterConfig.tla (all 720 orders of the configuration calls: the range in force at the internal
   link is the configured one).  Variants shaped like the code before the repair (`&&`, no
   propagation, propagation to the provider only, `||` applied to service ports) must violate the
   invariants (model only).  RouterConfig prints the 720 orders for the driver.
2. The driver builds real routers (router.NewConnector; production path control.LoadConfig +
   ConfigDataplane from a generated topology.json incl. router-config overrides, and the same calls in
   every TLC order), sends real serialized SCION packets (UDP, TCP, SCMP echo/traceroute
   request/reply, SCMP errors quoting UDP / echo / traceroute, unknown L4, service destinations)
   through the fast path and logs the underlay destination resolved by the internal link.
3. TLC validates every delivery against LocalDeliveryOps!AllowedPorts.
"""
import json

import _crypto
import vlib


def run(c):
    drv = c.build("routercfg")
    if c.replay:
        trace = c.replay
    else:
        c.mc("LocalDelivery", "LocalDeliveryMC.%s.cfg" % c.tier, workers=4, timeout=600)
        r = c.mc("RouterConfig", "RouterConfigMC.quick.cfg", workers=4, timeout=600)
        variants = [("LocalDelivery", "LocalDeliveryMC.and.cfg", "DeliveredToAllowedPort"),
                    ("RouterConfig", "RouterConfigMC.noprop.cfg", "RangeInForce")]
        if c.thorough:
            variants += [("LocalDelivery", "LocalDeliveryMC.nexthdr.cfg", "DeliveredToAllowedPort"),
                         ("LocalDelivery", "LocalDeliveryMC.allor.cfg", "ServiceToRegisteredInstance"),
                         ("RouterConfig", "RouterConfigMC.provonly.cfg", "RangeInForce")]
        for (mod, cfg, inv) in variants:
            b = c.tlc(mod, cfg, workers=2, timeout=600)
            if inv not in b.inv_violated:
                raise vlib.Infra("model variant %s does not violate %s\n%s" % (cfg, inv, b.out[-2000:]))
        c.notes.append("model variants (&& range test, || on service ports, range not propagated / propagated to "
                       "the provider only) violate their invariants as expected (model only)")
        o = sorted(set(l.strip().strip('"')[4:] for l in r.out.splitlines() if l.startswith('"ORD|')))
        if len(o) != 720:
            raise vlib.Infra("generator printed %d configuration orders, expected 720" % len(o))
        op = c.scratch + "/orders.txt"
        with open(op, "w") as f:
            f.write("\n".join(o) + "\n")
        trace = c.scratch + "/port.ndjson"
        c.run_driver(drv, ["-mode", "port", "-orders", op, "-out", trace, "-n", 0])
    r = c.validate("LocalDeliveryTrace", "LocalDeliveryTrace.cfg", trace, timeout=1500)
    lines = _crypto.judge_cases(c, r, trace, vlib, whole_trace=_reset_and_line)
    ntr = nev = 0
    shapes = set()
    orders_run = set()
    cur = None
    for ln in lines:
        e = json.loads(ln)
        if e["ev"] == "reset":
            ntr += 1
            cur = e
            if e["how"] == "direct" and e["ok"]:
                orders_run.add(e["order"])
        elif e["ev"] == "deliver":
            nev += 1
            if e["disp"] == "forward":
                lo, hi = _eff(cur)
                cls = "in" if lo <= e["field"] <= hi else ("below" if e["field"] < lo else "above")
                shapes.add((cur["how"], cur["rangeVsInternal"], cur["rangeKind"], cur["ovLo"] >= 0, cur["ovHi"] >= 0,
                            e["kind"], e["dst"], e["ext"], cls))
    st = _crypto.stats(r)
    if not c.replay:
        if st.get("delivered", 0) == 0:
            raise vlib.Infra("vacuity guard: nothing was delivered")
        if len(orders_run) != 720:
            raise vlib.Infra("driver ran %d of 720 configuration orders" % len(orders_run))
        c.cov["exhaustive"] = True
    c.cov["traces_validated_against_impl"] += ntr
    c.cov["evaluations"] += nev
    c.cov["distinct_nontrivial"] += len(shapes)
    c.cov["rule"] = ("one evaluation = one real packet through the fast path of a real configured router, judged by "
                     "TLC; non-trivial = delivered packets; distinct = distinct (configuration path, range set "
                     "before/after the internal interface, range kind, overrides, packet kind, destination kind, "
                     "port below/in/above the range); exhaustive refers to the 720 configuration orders; "
                     "delivered=%d" % st.get("delivered", 0))
    c.sample_trace(trace, nevents=5)
    c.assumptions += ["the range in force is RouterConfigOps!Effective(topology dispatched_ports, router-config "
                      "override); '-' is the range 0..0 (as topology.validatePortRange encodes it) and the non-port "
                      "0 under a range starting at 0 may stay 0 or go to 30041",
                      "for SCMP errors quoting an echo / traceroute request both the quoted identifier (design "
                      "document) and 30041 are accepted (the statement does not list them)",
                      "packets are injected into the fast path through the add-only verif export "
                      "router/export_cfg_verif.go (no sockets, no goroutines)"]


def _eff(cur):
    lo, hi = {"empty": (0, 0), "all": (1, 65535)}.get(cur["rangeKind"], (cur["lo"], cur["hi"]))
    return (cur["ovLo"] if cur["ovLo"] >= 0 else lo, cur["ovHi"] if cur["ovHi"] >= 0 else hi)


def _reset_and_line(lines, l):
    idx = _crypto.reset_slice(lines, l)
    return [idx[0], l] if idx[0] != l else [l]
