"""C44 — the shim dispatcher never reflects traffic to unintended hosts.

1. TLC explores Dispatcher.tla: one server processing sequences of datagrams with reusable decoding
   layers (shaped like processMsgNextHop): the decision is the stateless Out(d, on) whatever came
   before, a forwarded packet always goes to the outer IP destination, with the dispatcher function
   off only echo / traceroute requests are answered.
2. TLC (DispatcherGen) enumerates all sequences of datagram classes up to the bound, dispatcher on/off.
3. harness/cmd/disp builds real SCION packets with slayers (UDP, SCMP info and error messages quoting
   UDP / SCMP / truncated packets, HBH / E2E extensions, IP / SVC / unknown destination types, IPv4 and
   IPv6 hosts, malformed headers), feeds them to a real dispatcher.Server through the verif export (H5)
   and logs next hop, port and the decoded reply; seeded byte-level mutants (truncation, header bit flips,
   random bytes) of the datagrams follow on the same server (exploration: only next hop and panics are judged).
4. DispatcherTrace.tla judges every datagram.
"""
import json
import random
import re

import _gw
import vlib


def run(c):
    if c.replay:
        c.build("disp")
        r = c.validate("DispatcherTrace", "DispatcherTrace.cfg", c.replay)
        c.judge_trace(r, c.replay)
        account(c, [c.replay], [r])
        return
    drv, _, g = _gw.side_by_side(
        lambda: c.build("disp"),
        lambda: c.mc("Dispatcher", "DispatcherMC.%s.cfg" % c.tier, workers=4, timeout=3000),
        lambda: _gw.generator(c, "DispatcherGen", "DispatcherGen.%s.cfg" % c.tier),
        c=c, names=("build", "mc", "gen"))
    scns = []
    seen = set()
    for (s,) in _gw.printed(g.out, "SCN"):
        k = json.dumps(s, sort_keys=True)
        if k not in seen:
            seen.add(k)
            scns.append(s)
    if not scns:
        raise vlib.Infra("generator printed no scenarios")
    scns.sort(key=lambda s: json.dumps(s, sort_keys=True))
    # exploration: seeded byte-level mutants of the datagrams, processed on the same server instances
    rnd = random.Random(c.seed * 7919 + 44)
    for s in scns:
        s["mut"] = (4 if c.thorough else 1) if rnd.random() < 0.5 else 0
    # the mutation corpus: every datagram class on its own server, dispatcher on and off, followed by K
    # structure-aware mutants (truncation at layer boundaries, length / type fields, addresses, path, L4 header,
    # splices, random strings); judged only on next hop, SCION destination of the mutant and panics
    classes = {}
    for s in scns:
        for d in s["seq"]:
            classes.setdefault(json.dumps(d, sort_keys=True), d)
    k = 60 if c.thorough else 12
    corpus = [{"on": on, "seq": [classes[key]], "mut": k} for key in sorted(classes) for on in (0, 1)]
    scns = scns + corpus
    c.notes.append("mutation corpus: %d classes x 2 modes x %d mutants" % (len(classes), k))
    nchunks = 8 if c.thorough else 4
    traces = []
    for i, chunk in enumerate(_gw.deal(scns, nchunks, lambda s: len(s["seq"]) + s.get("mut", 0))):
        f = "%s/scn-%d.ndjson" % (c.scratch, i)
        with open(f, "w") as fh:
            for s in chunk:
                fh.write(json.dumps(s) + "\n")
        t = "%s/trace-%d.ndjson" % (c.scratch, i)
        c.run_driver(drv, ["-in", f, "-out", t])
        traces.append(t)
    res = _gw.validate_all(c, "DispatcherTrace", "DispatcherTrace.cfg", traces)
    account(c, traces, res)
    c.cov["exhaustive"] = True
    c.notes.append("sequences=%d" % len(scns))


def account(c, traces, res):
    ntr = evs = 0
    distinct = set()
    kinds = {"drop": 0, "fwd": 0, "reply": 0}
    muts = {}
    ops = {}
    samples = {}
    for t in traces:
        with open(t) as f:
            for line in f:
                ev = json.loads(line)
                if ev["ev"] == "reset":
                    ntr += 1
                    continue
                evs += 1
                if ev["ev"] == "mut":
                    muts[ev["k"]] = muts.get(ev["k"], 0) + 1
                    ops[ev["op"]] = ops.get(ev["op"], 0) + 1
                    continue
                kinds[ev["k"]] = kinds.get(ev["k"], 0) + 1
                if ev["k"] != "drop":
                    distinct.add(json.dumps(ev["d"], sort_keys=True))
                    samples.setdefault(ev["k"], {k: ev[k] for k in ("d", "k", "host", "port", "reply")})
    drift = {}
    for r in res:
        for m in re.finditer(r'<<"VERIF-DRIFT", \d+, "([^"]*)">>', r.out):
            drift[m.group(1)] = drift.get(m.group(1), 0) + 1
    c.cov["traces_validated_against_impl"] += ntr
    c.cov["evaluations"] += evs
    c.cov["distinct_nontrivial"] += len(distinct)
    c.cov["rule"] = ("an evaluation is one datagram processed by the real Server.processMsgNextHop and judged by TLC; "
                     "a trace is one server instance with its datagram sequence; non-trivial = the server forwarded or "
                     "replied; distinct = distinct abstract datagrams among those")
    for s in samples.values():
        c.sample(s)
    c.notes.append("decisions: %s; byte-level mutants: %s by operator %s" % (kinds, muts, ops))
    if drift:
        c.notes.append("drift: %s" % drift)
    # the statement is an only-if: guard against vacuity
    if not c.replay and (kinds["fwd"] == 0 or kinds["reply"] == 0):
        raise vlib.Infra("vacuous run: the server never forwarded / never replied (%s)" % kinds)
    c.assumptions += [
        "the outer IP destination (IP_PKTINFO) is passed to processMsgNextHop directly; the socket and the control "
        "message parser are not exercised",
        "the statement is an only-if: a datagram dropped although delivery would be allowed is drift, not a violation",
        "SCMP messages whose SCION destination is a service or an unknown address type are delivered by the code when "
        "the raw address bytes equal the outer destination; counted as drift (no other host is reached)",
        "the reply is judged on type, swapped addresses and reversed path only (E2E extension handling is not judged)",
    ]
