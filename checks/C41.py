"""C41 — gateway encapsulation reproduces the IP packet stream.

1. TLC explores SigFraming.tla (sender framing rule of encoder.Read + network that loses / duplicates /
   reorders + the transcription of reassemblyList.Insert / tryReassemble / collectAndWrite /
   ProcessCompletePkts): NoSplice under all fault schedules, exact reproduction in lossless mode; a
   capacity-bounded variant shows (model only) that a packet spanning more frames than the reassembly
   list holds is lost even without faults.
2. Scenarios: TLC-enumerated packet lists x frame sizes x write/read interleavings x delivery schedules
   (SigFramingGen), plus seeded long ones (all minimal frame sizes, packets 20..9000, invalid packets
   interleaved, 0-30 % loss, duplication, bounded reordering, two stream epochs).
3. harness/cmd/sig runs the real encoder and the real ingress worker through the verif export and logs
   writes, frames, deliveries, emitted packets (mapped to the sent packet they are byte-identical to)
   and the reassembly list metadata.
4. SigFramingTrace.tla judges: sender conformance, exact reproduction when lossless, no splice under
   faults; receiver deviations from the transcription are drift.
"""
import json
import random

import _gw
import vlib

BAD_KINDS = [("ver", 4, 60), ("len", 4, 48), ("len", 6, 70), ("short", 4, 12), ("short", 6, 30), ("empty", 4, 0)]


def pkt(n, ver=None, rnd=None):
    if ver is None:
        ver = 6 if (n >= 40 and rnd is not None and rnd.random() < 0.4) else 4
    return {"len": n, "ver": ver, "bad": ""}


def with_invalid(pkts, rnd, rate=0.2):
    out = []
    for p in pkts:
        if rnd.random() < rate:
            k, v, n = rnd.choice(BAD_KINDS)
            out.append({"len": n, "ver": v, "bad": k})
        out.append(p)
    return out


def plan_for(npk, rnd, style):
    """Write / read plan; at most 32 packets are outstanding (the encoder's ring drops beyond 64)."""
    steps = []
    left = npk
    if style == "drain":
        while left > 0:
            k = min(left, 32)
            steps.append({"w": k})
            left -= k
            if left > 0:
                steps.append({"r": -1})
        steps += [{"close": 1}, {"drain": 1}]
    else:
        pend = 0      # packets written since the encoder was last read empty
        while left > 0:
            k = min(left, rnd.randint(1, 6))
            if pend + k > 24:
                steps.append({"r": -1})
                pend = 0
            steps.append({"w": k})
            left -= k
            pend += k
            r = rnd.choice([1, 1, 2, -1]) if left > 0 else -1
            steps.append({"r": r})
            if r == -1:
                pend = 0
        steps += [{"close": 1}, {"drain": 1}]
    return steps


IDBITS = [19, 16, 15, 0, 18, 8, 17, 4, 12, 1, 14, 7, 13, 2, 11, 3, 10, 5, 9, 6]


def with_idbits(scns, rnd):
    """Scenarios with two streams use stream ids that differ in exactly one of the 20 bits of the field."""
    k = rnd.randrange(2) * 2          # quick tiers of different seeds start at different positions
    for sc in scns:
        if len(sc["streams"]) > 1 and not sc.get("sameid"):
            sc["idbit"] = IDBITS[k % len(IDBITS)]
            k += 1
    return scns


def seeded_lossless(c, rnd):
    out = []
    sizes = [20, 21, 39, 40, 41, 45, 56, 57, 60, 81, 82, 100, 123, 300, 576, 1280, 1500]
    mtus = list(range(57, 121)) if c.thorough else list(range(57, 121, 3)) + [58, 59, 96, 97, 98, 119, 120]
    for mtu in mtus:
        n = 12 if c.thorough else 8
        pk = [pkt(rnd.choice(sizes), rnd=rnd) for _ in range(n)]
        # packet ends that leave exactly 39 / 40 / 41 bytes of room in a frame
        f = mtu - 16
        for room in (39, 40, 41):
            if f - room >= 20:
                pk.append(pkt(f - room, 4))
                pk.append(pkt(rnd.choice([20, 45, 100]), rnd=rnd))
        out.append({"mode": "lossless", "streams": [{"mtu": mtu, "pkts": with_invalid(pk, rnd),
                                                      "plan": plan_for(0, rnd, "x")}]})
    for mtu in ([200, 576, 1280, 1500, 9000] if c.thorough else [200, 1500]):
        pk = [pkt(rnd.randint(20, 9000), rnd=rnd) for _ in range(20 if c.thorough else 8)]
        out.append({"mode": "lossless", "streams": [{"mtu": mtu, "pkts": with_invalid(pk, rnd), "plan": []}]})
    # many frames per packet: the reassembly list fills up (capacity 100)
    for mtu, size in ([(57, 4000), (57, 4101), (57, 4200), (60, 9000), (100, 9000), (107, 9000), (150, 9000)]
                      if c.thorough else [(57, 4000), (57, 4200), (107, 9000)]):
        pk = [pkt(45, 4), pkt(size, 4), pkt(60, 6), pkt(20, 4)]
        out.append({"mode": "lossless", "streams": [{"mtu": mtu, "pkts": pk, "plan": []}]})
    # two streams (epochs) interleaved, in order
    for _ in range(6 if c.thorough else 2):
        ss = []
        for _s in range(2):
            pk = [pkt(rnd.choice(sizes), rnd=rnd) for _ in range(10)]
            ss.append({"mtu": rnd.randint(57, 200), "pkts": with_invalid(pk, rnd), "plan": []})
        out.append({"mode": "lossless", "streams": ss})
    for sc in out:
        for st in sc["streams"]:
            st["plan"] = plan_for(len(st["pkts"]), rnd, rnd.choice(["drain", "bursts", "bursts"]))
    return out


def seeded_faulty(c, rnd):
    """Schedules over frame numbers; numbers beyond the frames actually produced are skipped by the driver."""
    out = []
    for i in range(24 if c.thorough else 6):
        ns = 2 if i % 3 == 0 else 1
        ss = []
        nframes = []
        for _s in range(ns):
            mtu = rnd.choice([57, 60, 73, 100, 150, 300])
            f = mtu - 16
            pk = []
            total = 0
            target = (500 if c.thorough else 120) * f // ns
            while total < target:
                n = rnd.choice([20, 40, 45, 60, 90, 130, 300, rnd.randint(20, 1500)])
                pk.append(pkt(n, rnd=rnd))
                total += n
            ss.append({"mtu": mtu, "pkts": with_invalid(pk, rnd, 0.1), "plan": plan_for(0, rnd, "x")})
            nframes.append(total // f + len(pk))      # upper bound of the number of frames
        for st in ss:
            st["plan"] = plan_for(len(st["pkts"]), rnd, "drain")
        loss = rnd.choice([0.0, 0.02, 0.1, 0.3])
        dup = rnd.choice([0.0, 0.05, 0.2])
        win = rnd.choice([1, 2, 4, 8])
        seq = []
        for s in range(ns):
            seq += [[s + 1, k] for k in range(1, nframes[s] + 1)]
        if ns == 2:
            seq.sort(key=lambda x: (x[1], x[0]))
        sched = []
        for d in seq:
            if rnd.random() < loss:
                continue
            sched.append(d)
            if rnd.random() < dup:
                sched.append(d)
        # bounded reordering: shuffle inside windows
        res = []
        for i0 in range(0, len(sched), win):
            w = sched[i0:i0 + win]
            rnd.shuffle(w)
            res += w
        out.append({"mode": "faulty", "streams": ss, "sched": res})
    return out


def seeded_adversarial(c, rnd):
    """Outside the statement's fault model (drift-level, panics fail): frames whose index / sequence number /
    epoch field is rewritten or that are cut short, and a restarted sender that reuses the stream id."""
    out = []
    sizes = [20, 40, 45, 60, 90, 130, 300, 700]
    for i in range(40 if c.thorough else 10):
        mtu = rnd.choice([57, 60, 73, 100, 150])
        f = mtu - 16
        pk = [pkt(rnd.choice(sizes), rnd=rnd) for _ in range(rnd.randint(6, 14))]
        nfr = sum(p["len"] for p in pk) // f + len(pk)
        sched = []
        for k in range(1, nfr + 1):
            if rnd.random() < 0.35:
                kind = rnd.choice([1, 1, 1, 2, 3, 4])
                val = {1: rnd.choice([0, 1, 7, 19, 20, f - 1, f, f + 5, 0xfffe, rnd.randint(0, 0xffff)]),
                       2: rnd.choice([-2, -1, 1, 2, 1000]), 3: rnd.choice([0, 5, 0xfffff]),
                       4: rnd.choice([0, 1, 19, 20, 39, f - 1])}[kind]
                sched.append([1, k, kind, val])
            else:
                sched.append([1, k, 0, 0])
        out.append({"mode": "adversarial", "streams": [{"mtu": mtu, "pkts": pk, "plan": plan_for(len(pk), rnd, "drain")}],
                    "sched": sched})
    for i in range(12 if c.thorough else 4):
        ss = []
        nfr = []
        for _s in range(2):
            mtu = rnd.choice([57, 60, 100])
            pk = [pkt(rnd.choice(sizes), rnd=rnd) for _ in range(8)]
            ss.append({"mtu": mtu, "pkts": pk, "plan": plan_for(len(pk), rnd, "drain")})
            nfr.append(sum(p["len"] for p in pk) // (mtu - 16) + len(pk))
        cut = rnd.randint(1, nfr[0])
        sched = [[1, k, 0, 0] for k in range(1, cut + 1)] + [[2, k, 0, 0] for k in range(1, nfr[1] + 1)] + \
                [[1, k, 0, 0] for k in range(cut + 1, nfr[0] + 1)]
        out.append({"mode": "adversarial", "sameid": 1, "streams": ss, "sched": sched})
    return out


def seeded_ingress(c, rnd):
    """Worker selection of the real IngressServer: up to four senders that differ only in remote host, remote ISD-AS
    or session id (same stream id, overlapping sequence numbers), frames interleaved, each stream complete."""
    out = []
    sizes = [20, 40, 45, 60, 90, 130, 300, 700, 1400]
    for i in range(10 if c.thorough else 3):
        combos = [(1, 1), (2, 1), (3, 1), (1, 2)]      # (remote, session id)
        rnd.shuffle(combos)
        ss = []
        for (src, sess) in combos[:rnd.randint(2, 4)]:
            pk = [pkt(rnd.choice(sizes), rnd=rnd) for _ in range(rnd.randint(4, 10))]
            pk = with_invalid(pk, rnd, 0.1) + [pkt(rnd.choice(sizes), 4)]
            ss.append({"src": src, "sess": sess, "mtu": rnd.choice([57, 73, 100, 300]), "pkts": pk,
                       "plan": plan_for(len(pk), rnd, "drain")})
        out.append({"mode": "ingress", "sameid": 1, "streams": ss})
    return out


def from_tlc(c, g, rnd):
    scns = []
    seen = set()
    for (s,) in _gw.printed(g.out, "SCN"):
        k = json.dumps(s, sort_keys=True)
        if k in seen:
            continue
        seen.add(k)
        plan = []
        written = 0
        for w in s["w"]:
            if w > written:
                plan.append({"w": w - written})
                written = w
            plan.append({"r": 1})
        plan += [{"close": 1}, {"drain": 1}]
        pk = [{"len": n, "ver": v, "bad": ""} for n, v in zip(s["lens"], s["vers"])]
        scns.append({"mode": "faulty", "streams": [{"mtu": s["F"] + 16, "pkts": pk, "plan": plan}],
                     "sched": [[1, k] for k in s["sched"]]})
    total = len(scns)
    scns.sort(key=lambda x: json.dumps(x, sort_keys=True))
    limit = 12000 if c.thorough else 600
    if len(scns) > limit:
        scns = rnd.sample(scns, limit)
    return scns, total


def run(c):
    if c.replay:
        c.build("sig")
        r = c.validate("SigFramingTrace", "SigFramingTrace.cfg", c.replay)
        c.judge_trace(r, c.replay)
        account(c, [c.replay])
        return
    rnd = random.Random(c.seed * 7919 + 41)
    drv, _, _, g = _gw.side_by_side(
        lambda: c.build("sig"),
        lambda: c.mc("SigFraming", "SigFramingMC.%s.cfg" % c.tier, workers=4, timeout=3000),
        lambda: c.mc("SigFraming", "SigFramingMC.lossless.cfg" if c.thorough else "SigFramingMC.lossless-quick.cfg",
                     workers=2, timeout=3000),
        lambda: _gw.generator(c, "SigFramingGen", "SigFramingGen.%s.cfg" % c.tier),
        c=c, names=("build", "mc-faulty", "mc-lossless", "gen"))
    if c.thorough:
        cp = c.tlc("SigFraming", "SigFramingMC.capacity.cfg", workers=2, timeout=900)
        if "LosslessExact" in cp.inv_violated:
            c.notes.append("model: with a reassembly list shorter than the number of frames of a packet, "
                           "LosslessExact is violated (SigFramingMC.capacity.cfg), as expected")
        else:
            raise vlib.Infra("capacity-bounded model variant unexpectedly satisfies LosslessExact:\n" + cp.out[-1500:])
    tlc_scns, total = from_tlc(c, g, rnd)
    if not tlc_scns:
        raise vlib.Infra("generator printed no scenarios")
    scns = with_idbits(seeded_lossless(c, rnd) + seeded_faulty(c, rnd), rnd) + seeded_adversarial(c, rnd) + \
        seeded_ingress(c, rnd) + tlc_scns
    nchunks = 8 if c.thorough else 4

    def cost(s):
        n = sum(sum(p["len"] for p in st["pkts"]) // (st["mtu"] - 16) + len(st["pkts"]) for st in s["streams"])
        return 3 * n + 20
    traces = []
    # The gateway's pool of 1024 frame buffers is process-wide and frames that are still buffered in a reassembly
    # list (or fetched in advance by an IngressServer read loop, 64 at a time) when a scenario ends are never
    # returned: one driver process must not run too many scenarios, or newFrameBufs blocks for ever.
    def batches(chunk):
        cur, held = [], 0
        for s in chunk:
            need = 70 if s["mode"] == "ingress" else (101 if cost(s) > 400 else 3)
            if cur and (held + need > 600 or len(cur) >= 150):
                yield cur
                cur, held = [], 0
            cur.append(s)
            held += need
        if cur:
            yield cur
    for i, chunk in enumerate(_gw.deal(sorted(scns, key=cost, reverse=True), nchunks, cost)):
        t = "%s/trace-%d.ndjson" % (c.scratch, i)
        with open(t, "w") as tout:
            for j, batch in enumerate(batches(chunk)):
                f = "%s/scn-%d-%d.ndjson" % (c.scratch, i, j)
                with open(f, "w") as fh:
                    for s in batch:
                        fh.write(json.dumps(s) + "\n")
                tb = "%s/trace-%d-%d.ndjson" % (c.scratch, i, j)
                c.run_driver(drv, ["-in", f, "-out", tb], timeout=600)
                with open(tb) as tin:
                    tout.write(tin.read())
        traces.append(t)
    res = _gw.validate_all(c, "SigFramingTrace", "SigFramingTrace.cfg", traces, heap="4g")
    nd = sum(r.out.count('"VERIF-DRIFT"') for r in res)
    nadv = sum(r.out.count('adversarial:emitted-packet-is-not-a-sent-packet') for r in res)
    if nd - nadv:
        c.notes.append("drift lines (receiver deviates from the transcription): %d" % (nd - nadv))
    c.notes.append("adversarial frames / restarted sender with the same stream id (outside the fault model): "
                   "%d emitted packets that were never sent (drift)" % nadv)
    account(c, traces)
    c.notes.append("scenarios: tlc=%d (of %d enumerated) seeded=%d" % (len(tlc_scns), total, len(scns) - len(tlc_scns)))
    c.cov["exhaustive"] = False


def account(c, traces):
    ntr = evs = 0
    distinct = set()
    for t in traces:
        for tr in vlib.split_traces(t):
            ntr += 1
            evs += len(tr) - 1
            # non-trivial: some packet was reassembled from more than one frame, or a frame was dropped / flushed
            nfr = sum(1 for e in tr if e["ev"] == "frame")
            nem = sum(1 for e in tr if e["ev"] == "emit")
            multi = any(e["ev"] == "st" and len(e["list"]) > 0 for e in tr)
            if multi and nfr > 1:
                distinct.add(json.dumps([(e["ev"], e.get("n"), e.get("index"), e.get("k"), e.get("id"))
                                         for e in tr if e["ev"] in ("frame", "deliver", "emit")]))
    c.cov["traces_validated_against_impl"] += ntr
    c.cov["evaluations"] += evs
    c.cov["distinct_nontrivial"] += len(distinct)
    c.cov["rule"] = ("an event is one write / frame returned by the real encoder / frame delivery / packet written "
                     "to the tunnel device / reassembly-list snapshot, judged by TLC; a trace is non-trivial if some "
                     "frame had to wait in the reassembly list; distinct = distinct (frame sizes, indices, delivery "
                     "order, emitted ids) sequences")
    if traces:
        c.sample_trace(traces[0], nevents=16)
    c.assumptions += [
        "every byte of a generated packet depends on (stream, id, offset): a spliced packet is not byte-identical "
        "to any sent packet",
        "frames reach processFrame through the verif export exactly as the ingress server hands them over "
        "(buffer from the free-frame ring, frameLen, sessId)",
        "at most 32 packets are outstanding in the encoder's input ring (it silently drops beyond 64)",
        "reuse of a stream id by a restarted sender is outside the fault model (loss, duplication, reordering)",
    ]
