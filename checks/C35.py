"""C35 — the trust store only advances along verified TRC successions.

1. TLC explores spec/TrustStore.tla: NotifyTRC as written (read latest, guards, loop of fetch /
   verify against the locally held predecessor / insert) run by 2-3 concurrent callers against one
   database, the remote's behaviour (10 outcomes) chosen by the environment at every fetch:
   the store is always an unbroken succession, every stored TRC was verified against the TRC that is
   stored as its predecessor, the latest TRC never regresses, stored TRCs are never replaced.
2. TLC (spec/TrustStoreGen.tla) enumerates sequential histories of notifications (stale, current,
   future serials, other base, other ISD; every failure kind at every position; two valid contents)
   and LoadTRCs calls (directories mixing successors, gaps, future-dated updates, a future-dated BASE TRC
   of another ISD, conflicting content, unparsable files, in every file-name order).
3. harness/cmd/trust -mode notify replays each history on the real FetchingProvider + real in-memory
   sqlite trust DB with a scripted remote serving real signed TRCs (genuine chains a/b, missing vote,
   unknown signers, wrong serial, stale, other base, other ISD, injected insert failure) and on the
   real LoadTRCs with files in a temporary directory; after every call it records the stored TRCs.
   In addition it runs seeded histories of 2-3 simultaneous NotifyTRC calls (goroutines, own scripted
   remotes) on one database and records what each call returned and the final store.
4. TLC (spec/TrustStoreTrace.tla) checks conformance with TrustStoreOps (NotifyResult / LoadResult);
   for the simultaneous calls it checks what must hold for every interleaving (unbroken succession,
   only served verifiable successors stored, consecutive fetches, no step after a failure).
"""
import _pki
import vlib


def run(c):
    drv = c.build("trust")
    trace = c.scratch + "/trace.ndjson"
    if c.replay:
        trace = c.replay
    else:
        c.mc("TrustStore", "TrustStoreMC.%s.cfg" % c.tier, workers=4 if not c.thorough else 8, timeout=2400)
        g = c.tlc("TrustStoreGen", "TrustStoreGen.%s.cfg" % c.tier, workers=2, timeout=1500)
        if not g.completed:
            raise vlib.Infra("scenario generator failed: %s\n%s" % (g.other_error, g.out[-2000:]))
        cases = _pki.tlc_json_lines(g.out, "SCN")
        if not cases:
            raise vlib.Infra("scenario generator produced nothing")
        c._addcmd("tlc " + g.cmd)
        scn = c.scratch + "/scn.ndjson"
        _pki.write_lines(scn, cases)
        c.run_driver(drv, ["-mode", "notify", "-scn", scn, "-out", trace, "-conc", 1500 if c.thorough else 80],
                     timeout=2400)
    r = c.validate("TrustStoreTrace", "TrustStoreTrace.cfg", trace, timeout=2400)
    c.judge_trace(r, trace)
    if not c.replay:
        _pki.need(c, r, "advanced", "notification that advanced the store")
        _pki.need(c, r, "stopped", "notification stopped by a failing step")
    _pki.drift(c, r)
    ntr, evs, shapes = 0, 0, set()
    for t in vlib.split_traces(trace):
        ntr += 1
        evs += len(t) - 1
        # non-trivial: some call fetched at least one TRC or loaded files
        if any((e["ev"] == "notify" and e["fetched"]) or e["ev"] in ("load", "concurrent") for e in t):
            shapes.add(str([(t[0]["init"],)] + [(e["ev"], e.get("isd"), e.get("base"), e.get("serial"),
                                                 e.get("outc"), e.get("files"),
                                                 [(k["serial"], k["outc"]) for k in e.get("calls", [])]) for e in t[1:]]))
    c.cov["traces_validated_against_impl"] += ntr
    c.cov["evaluations"] += evs
    c.cov["distinct_nontrivial"] += len(shapes)
    c.cov["exhaustive"] = not c.replay
    c.cov["rule"] = ("a trace is one history on a fresh trust DB; an evaluation is one NotifyTRC / LoadTRCs call "
                     "whose resulting store and fetch sequence are compared by TLC; non-trivial = the history "
                     "fetched at least one TRC or loaded files; distinct = distinct abstract histories; "
                     "exhaustive = all histories of the bounded generator were executed")
    c.cov["advanced"] = r.stats.get("advanced", 0)
    c.cov["stopped"] = r.stats.get("stopped", 0)
    c.sample_trace(trace, nevents=6)
    c.assumptions += [
        "all interleavings of concurrent callers are explored in the model only; on the implementation side "
        "simultaneous calls are sampled (seeded) and judged by interleaving-independent conditions",
        "remote misbehaviour is limited to the ten outcome kinds of TrustStoreOps",
        "real-time distances: TRC validity boundaries are >= 2 days from the wall clock"]
