"""C33 — TRC payloads are validated and encoded faithfully.

1. TLC explores spec/TRCPayload.tla: a few valid base payloads with up to two mutations (one
   mutation family per rule of the statement + validity preserving variations).  In-model it checks
   that a decision procedure shaped like TRC.Validate() accepts only payloads that are valid by the
   statement (PayloadValid, written from the statement and doc/cryptography/trc.rst) and emits every
   distinct case as a scenario.
2. harness/cmd/trc concretises every case with real x509 certificates (correct and unclassifiable
   ones, other ISD, short validity, duplicate issuer/serial, duplicate subject), runs the real
   TRC.Validate, TRC.Encode/DecodeTRC, and DecodeTRC on a payload marshalled by its own ASN.1 encoder
   (invalid payloads on the wire), and logs the outcomes.
   Decoder direction: the DER encodings of 12 (quick) / 60 (thorough) accepted payloads are mutated
   structure-aware (~160 mutations each: elements of the payload SEQUENCE and of the nested ID /
   validity / votes / AS / certificate sequences dropped, duplicated, swapped, re-tagged, with
   non-minimal and indefinite lengths, trailing data, boundary / non-minimal integers, BOOLEAN
   encodings, other string and time forms) and handed to DecodeTRC; whatever it accepts is abstracted,
   re-encoded and decoded again.
3. TLC (spec/TRCPayloadTrace.tla) judges (DER mutations: accepted => PayloadValid of what was decoded, and
   that value round-trips to itself; acceptance of a non-canonical encoding is drift only): accepted => PayloadValid; valid and accepted => the round
   trip yields the same payload.
"""
import _pki
import vlib


def run(c):
    drv = c.build("trc")
    trace = c.scratch + "/trace.ndjson"
    if c.replay:
        trace = c.replay
    else:
        r = c.mc("TRCPayload", "TRCPayloadMC.%s.cfg" % c.tier, workers=4, timeout=1500)
        pool = _pki.tlc_json_lines(r.out, "POOL")
        cases = _pki.tlc_json_lines(r.out, "SCN")
        if len(pool) != 1 or len(cases) != r.distinct:
            raise vlib.Infra("generator output incomplete: %d pools, %d cases, %d states" %
                             (len(pool), len(cases), r.distinct))
        scn = c.scratch + "/scn.ndjson"
        _pki.write_lines(scn, ['{"pool":%s}' % pool[0]] + cases)
        # the shape of the code as found (quorum only compared with 0) does not satisfy the
        # statement in the model: shown as a note, never a verdict
        rb = c.tlc("TRCPayload", "TRCPayloadMC.asfound.cfg", workers=1, timeout=600) if c.thorough else None
        if rb and "CodeSound" in rb.inv_violated:
            c.notes.append("model: a validation that only refuses quorum = 0 (as found before the fix) "
                           "violates CodeSound (negative quorum accepted)")
        c.run_driver(drv, ["-mode", "payload", "-scn", scn, "-out", trace, "-der", 60 if c.thorough else 12])
    r = c.validate("TRCPayloadTrace", "TRCPayloadTrace.cfg", trace, timeout=1500)
    _pki.judge_table(c, r, trace)
    if not c.replay:
        _pki.need(c, r, "accepted", "payload accepted by TRC.Validate")
        _pki.need(c, r, "roundtrips", "encode/decode round trip")
        _pki.need(c, r, "der_accepted", "mutated DER encoding accepted by DecodeTRC")
    _pki.drift(c, r)
    n, distinct = vlib.count_distinct(
        trace, lambda e: None if e.get("ev") not in ("case", "der") else
        (e["p"] if (e["val"] == 1 or e["wire"] == 1) else None) if e.get("ev") == "case" else
        ([e["p"], e["mut"]] if e.get("ev") == "der" and e["acc"] == 1 else None))
    c.cov["traces_validated_against_impl"] += 1
    c.cov["evaluations"] += n - 1
    c.cov["distinct_nontrivial"] += distinct
    c.cov["exhaustive"] = not c.replay    # of the abstract payload space; the DER mutations are a structured sample
    c.cov["der_accepted"] = r.stats.get("der_accepted", 0)
    c.cov["rule"] = ("one evaluation = one abstract payload run through TRC.Validate, the wire decoder and "
                     "(if accepted) Encode/DecodeTRC; non-trivial = accepted by Validate or DecodeTRC (the "
                     "antecedent of the only-if statement); distinct abstract payloads; exhaustive = every "
                     "case of the bounded TLC space was executed")
    c.cov["valid_by_spec"] = r.stats.get("valid", 0)
    c.cov["accepted_by_code"] = r.stats.get("accepted", 0)
    c.cov["roundtrips"] = r.stats.get("roundtrips", 0)
    c.sample_trace(trace, nevents=4)
    c.assumptions += [
        "the driver's concretisation tables (abstract certificate class -> x509 template, abstract "
        "numbers -> ISD/AS/time values) are faithful; the abstraction of decoded TRCs is their inverse",
        "values outside the generated tables (AS > 48 bit, sub-second validity, serial >= 2^63) are not explored",
        "a root/CA/AS certificate without ISD-AS attribute is not generated (certificate format rules are C34's)"]
