"""Helpers shared by the control-plane PKI checks (C32..C37)."""
import json
import os
import re

import vlib

_SCN = re.compile(r'^<<"([A-Z]+)", "((?:[^"\\]|\\.)*)">>$', re.M)


def tlc_json_lines(out, tag):
    """JSON texts printed by a specification as <<"TAG", ToJson(x)>> (one per line)."""
    res = []
    for m in _SCN.finditer(out):
        if m.group(1) == tag:
            res.append(json.loads('"' + m.group(2) + '"'))
    return res


def write_lines(path, lines):
    with open(path, "w") as f:
        for x in lines:
            f.write((x if isinstance(x, str) else json.dumps(x)) + "\n")


def judge_table(c, r, trace_path, header_lines=1):
    """Table traces: every line is an independent case.  A replay file holds the header line(s)
    (reset record with the per-run constants) and the one failing case."""
    if r.stuck_at is not None and not r.bad:
        c.judge_trace(r, trace_path)
        return
    if not r.bad:
        return
    lines = open(trace_path).read().splitlines()
    for (l, key) in r.bad:
        if not (0 < l <= len(lines)):
            continue
        rp = os.path.join(c.scratch, "replay-%d.ndjson" % l)
        hdr = l - 1
        while hdr > 0 and '"ev":"reset"' not in lines[hdr]:
            hdr -= 1
        write_lines(rp, [lines[hdr], lines[l - 1]] if hdr != l - 1 else [lines[l - 1]])
        c.report(key, "trace line %d: %s" % (l, lines[l - 1][:400]), rp)


def need(c, r, name, what):
    """Vacuity guard: the generator must have produced cases the real code accepts.  It never masks
    a verdict: with monitor failures already reported the run ends as VIOLATION, not as exit 2."""
    if r.stats.get(name, 0) <= 0 and (c.violations or c.known_hits):
        c.notes.append("vacuity guard not applied (violations reported): no %s" % what)
        return 0
    if r.stats.get(name, 0) <= 0:
        raise vlib.Infra("vacuous run: no %s (VERIF-STAT %s = %s)" % (what, name, r.stats.get(name)))
    return r.stats[name]


def drift(c, r):
    n = len(re.findall(r'<<"VERIF-DRIFT", ', r.out))
    if n:
        kinds = sorted(set(re.findall(r'<<"VERIF-DRIFT", \d+, "([^"]*)">>', r.out)))
        c.notes.append("model drift (not a verdict): %d events, kinds=%s" % (n, kinds[:12]))
    return n
