"""Helpers shared by the gateway / policy checks (C41-C44, C47): parsing what TLC generators print,
running independent phases side by side, validating trace chunks in parallel."""
import concurrent.futures
import json
import re
import time

import vlib


def printed(out, tag, nstr=1):
    """Yield the tuples <<"tag", "s1", ..., "json">> printed by a TLC generator (PrintT).  TLC's pretty
    printer may break a tuple over several lines; embedded quotes are backslash-escaped.
    Yields (s1, ..., parsed_json) with nstr-1 plain string fields before the JSON field."""
    mid = r'\s*"(\w*)",' * (nstr - 1)
    rx = re.compile(r'<<\s*"%s",%s\s*"((?:[^"\\]|\\.)*)"\s*>>' % (tag, mid))
    for m in rx.finditer(out):
        g = m.groups()
        yield tuple(g[:-1]) + (json.loads(g[-1].replace('\\"', '"')),)


def generator(c, module, cfg, workers=4, timeout=1800, **kw):
    r = c.tlc(module, cfg, workers=workers, timeout=timeout, **kw)
    if not r.completed:
        raise vlib.Infra("scenario generator %s/%s did not complete: %s\n%s" %
                         (module, cfg, r.other_error, r.out[-2000:]))
    c._addcmd("tlc " + r.cmd)
    return r


def side_by_side(*thunks, c=None, names=()):
    """Run independent phases (build, model check, generator) concurrently; return their results."""
    def timed(t):
        t0 = time.time()
        r = t()
        return r, time.time() - t0
    with concurrent.futures.ThreadPoolExecutor(max_workers=len(thunks)) as ex:
        futs = [ex.submit(timed, t) for t in thunks]
        res = [f.result() for f in futs]
    if c is not None:
        c.notes.append("phase walls: " + ", ".join("%s=%.0fs" % (n, w) for n, (_, w) in zip(names, res)))
    return [r for r, _ in res]


def minimal_keys(results):
    """Keys of the form "<class>,<kind>,<kind>..." name the node kinds of the failing expression.  A
    defect in one kind fails every expression containing it: keep, per class, only the keys whose kind
    set is minimal (the others are implied), so that one defect is reported once."""
    allk = {}
    for r in results:
        for (_, k) in r.bad:
            cls, _, kinds = k.partition(",")
            allk.setdefault(cls, set()).add(frozenset(kinds.split(",")) if kinds else frozenset())
    keep = set()
    for cls, sets in allk.items():
        for s in sets:
            if not any(o < s for o in sets):
                keep.add((cls, s))
    for r in results:
        seen = set()
        nb = []
        for (l, k) in r.bad:
            cls, _, kinds = k.partition(",")
            fs = frozenset(kinds.split(",")) if kinds else frozenset()
            if (cls, fs) in keep and (cls, fs) not in seen:
                seen.add((cls, fs))
                nb.append((l, k))
        r.bad = nb


def validate_all(c, module, cfg, traces, heap="3g", timeout=3000, maxpar=8, minimal=False):
    """Validate trace chunks in parallel TLC processes and judge them; returns the TlcResults."""
    def val(t):
        return c.validate(module, cfg, t, timeout=timeout, heap=heap)
    with concurrent.futures.ThreadPoolExecutor(max_workers=min(maxpar, max(1, len(traces)))) as ex:
        results = list(ex.map(val, traces))
    nbad = sum(len(r.bad) for r in results)
    if minimal:
        minimal_keys(results)
    if nbad:
        c.notes.append("monitor failures: %d lines" % nbad)
    for t, r in zip(traces, results):
        c.judge_trace(r, t)
    c.notes.append("trace validation walls: " + ", ".join("%.0fs" % r.wall for r in results))
    return results


def deal(items, nchunks, cost=lambda x: 1):
    """Split items into nchunks lists of similar total cost (order inside a chunk is kept)."""
    chunks = [[] for _ in range(nchunks)]
    load = [0] * nchunks
    for it in items:
        k = load.index(min(load))
        chunks[k].append(it)
        load[k] += cost(it)
    return [ch for ch in chunks if ch]
