"""Helpers shared by the codec checks (C18, C20, C21, C46): table-style traces where every ndjson
line is an independent case judged by TLC."""
import os
import re


def judge_table(c, r, trace_path, maxlen=400):
    """Like Ctx.judge_trace, but the replay artefact of a BAD line is that single line."""
    if r.bad:
        lines = open(trace_path).read().splitlines()
        for (l, key) in r.bad:
            ev = lines[l - 1] if 0 < l <= len(lines) else ""
            p = os.path.join(c.scratch, "replay-%d.ndjson" % l)
            with open(p, "w") as f:
                f.write(ev + "\n")
            c.report(key, "trace line %d: %s" % (l, ev[:maxlen]), p)
    elif r.stuck_at is not None:
        c.judge_trace(r, trace_path)


def drift_keys(out):
    return sorted(set(m.group(2) for m in re.finditer(r'<<"VERIF-DRIFT", (\d+), "((?:[^"\\]|\\.)*)">>', out)))


def mc(c, module, cfg, **kw):
    """c.mc, skippable while developing (mutation self-tests only exercise the implementation side)."""
    if os.environ.get("VERIF_DEV_SKIP_MC"):
        c.notes.append("DEV: exhaustive model run skipped (VERIF_DEV_SKIP_MC)")
        return None
    return c.mc(module, cfg, **kw)


class _Combined:
    pass


def validate_table(c, module, cfg, trace_path, chunks=4, min_chunk=400, timeout=3000):
    """Validate a table-style trace (independent lines) with several TLC processes in parallel.
    Returns an object with .bad (line numbers of the whole file), .stuck_at, .out, .stats."""
    from concurrent.futures import ThreadPoolExecutor
    lines = open(trace_path).read().splitlines()
    n = len(lines)
    k = max(1, min(chunks, n // min_chunk))
    size = (n + k - 1) // k if n else 1
    parts = []
    for i in range(k):
        seg = lines[i * size:(i + 1) * size]
        if not seg:
            continue
        p = os.path.join(c.scratch, "chunk-%s-%d.ndjson" % (module, i))
        with open(p, "w") as f:
            f.write("\n".join(seg) + "\n")
        parts.append((i * size, p))
    with ThreadPoolExecutor(max_workers=len(parts) or 1) as ex:
        rs = list(ex.map(lambda a: c.validate(module, cfg, a[1], timeout=timeout), parts))
    r = _Combined()
    r.bad, r.out, r.stuck_at, r.stats = [], "", None, {}
    for (off, _), x in zip(parts, rs):
        r.bad += [(l + off, key) for (l, key) in x.bad]
        r.out += x.out
        if x.stuck_at is not None and r.stuck_at is None and not x.bad:
            r.stuck_at = x.stuck_at + off
        for a, b in x.stats.items():
            r.stats[a] = r.stats.get(a, 0) + b
    r.bad.sort()
    return r
