"""Helpers shared by the codec checks (C18, C20, C21, C46): table-style traces where every ndjson
line is an independent case judged by TLC."""
import os
import re


def judge_table(c, r, trace_path, maxlen=400):
    """Like Ctx.judge_trace, but the replay artefact of a BAD line is that single line."""
    if r.bad:
        lines = open(trace_path).read().splitlines()
        for (l, key) in r.bad:
            ev = lines[l - 1] if 0 < l <= len(lines) else ""
            p = os.path.join(c.scratch, "replay-%d.ndjson" % l)
            with open(p, "w") as f:
                f.write(ev + "\n")
            c.report(key, "trace line %d: %s" % (l, ev[:maxlen]), p)
    elif r.stuck_at is not None:
        c.judge_trace(r, trace_path)


def drift_keys(out):
    return sorted(set(m.group(2) for m in re.finditer(r'<<"VERIF-DRIFT", (\d+), "((?:[^"\\]|\\.)*)">>', out)))


def mc(c, module, cfg, **kw):
    """c.mc, skippable while developing (mutation self-tests only exercise the implementation side)."""
    if os.environ.get("VERIF_DEV_SKIP_MC"):
        c.notes.append("DEV: exhaustive model run skipped (VERIF_DEV_SKIP_MC)")
        return None
    return c.mc(module, cfg, **kw)
