"""C09 - SCMP errors are well-formed, addressed to the source, and bounded in size.

Every slow-path cause reachable in the adversarial model (expired hop, unknown ingress / egress
interface, bad packet length, invalid source / destination ISD-AS, bad source host, invalid MAC -
also after a cross-over -, invalid link-type pair / segment change, interface down on own and
sibling links, router alerts) is provoked on the real router; each is repeated over the payload
sizes {0, 400, 1000, 1150, 1180, 1200, 1232, 1300, 4000, 8200}, over paths of 20 / 40 / 64 hop fields (reply built at the end
of the buffer instead of in the headroom), with and without HBH+E2E extension
headers, with UDP / TCP / SCMP-error / SCMP-info / traceroute payloads, with SCMP authentication
off and on.  The bytes the slow path emits are decoded by the harness's own wire reader; TLC
(RouterStepTrace.tla, C09Keys) judges: sent back over the ingress link, addressed to the offender's
source IA + host, from (local IA, router address), type / code / pointer equal to the detected
problem, one's complement sum over pseudo header + message = 0xffff, total length <= 1232, quote =
prefix of the offending packet (modulo the path fields a router rewrites in place), no error in
reply to an SCMP error, valid authenticator when authentication is on.
"""
import _dpadv


def run(c):
    th = c.thorough
    slow = lambda s: s["m"]["disp"] == "slow" or s["m"]["why"] in ("alertin", "alerteg")
    _dpadv.pipeline(
        c, "C09",
        explores=([("adv.quick", False), ("faults", False), ("bfd.quick", False), ("alert.quick", False),
                   ("epic.quick", False), ("adv.quick", True), ("faults", True), ("bfd.quick", True)] if th else
                  [("causes", False), ("faults", False), ("bfd.quick", False),
                   ("causes", True), ("faults", True), ("bfd.quick", True)]),
        budget=2400 if th else 180,
        keep=slow,
        # one stratum per (configuration, cause, ingress link, path kind): every cause is provoked
        stratum=lambda t, s: (t, s["m"]["disp"], s["m"]["why"], s["p"]["via"], s["p"]["kind"]),
        rand={"rand": 150 if th else 40, "maxhops": 4, "kinds": ["scion", "epic"]},
        flags=["-c09"],
        nontrivial=lambda e: e["s"]["ran"])
    c.cov["rule"] = ("one event = one offending packet through fast and slow path of the real router; non-trivial = "
                     "the slow path ran; distinct = distinct (abstract packet, disposition, egress, scope, SCMP cause, "
                     "kind of output) tuples")
    c.assumptions.append("the authenticator is recomputed with spao.ComputeAuthCMAC and the key of the router's fake "
                         "DRKey provider (DESIGN.md C09); its correctness is C21's subject")
