"""C38 — signed control-plane messages verify only when untouched.

1. TLC explores SymCrypto.tla (symbolic signatures, symbolic byte strings with protobuf
   "last field wins" decoding, a tampering attacker with 1 (quick) / 2 (thorough) steps over message
   bytes, signature, associated data, the message/data boundary, the chunking and the key) with the
   statement's signature input (message and data kept apart): Sound, Complete, ReturnsSigned.
2. The variant shaped like computeSignatureInput (plain concatenation) is run to *show* the boundary
   attack in the model (expected invariant violation; model only, never a verdict).
3. The driver signs with the real signed.Sign and presents untouched / touched variants (every bit
   of small messages and of the signature, truncation, extension, re-encoding of every header
   field, associated-data edits and re-splits, other keys, other key algorithms, forged unknown
   algorithm, moved boundary) to the real signed.Verify; TLC judges every attempt (SymCryptoTrace).
   A second family runs Sign and Verify concurrently (8 goroutines signing different messages at once,
   then 8 goroutines verifying untouched / touched messages at once, large associated data so that the
   hashing phases overlap); every outcome is judged exactly like a sequential one.
"""
import json

import _crypto
import vlib


def run(c):
    drv = c.build("signedmsg")
    if c.replay:
        trace = c.replay
    else:
        c.mc("SymCrypto", "SymCryptoMC.%s.cfg" % c.tier, timeout=1500)
        b = c.tlc("SymCrypto", "SymCryptoMC.concat.cfg", timeout=900)
        if "Sound" in b.inv_violated:
            c.notes.append("model variant Framing=concat (as computeSignatureInput) violates Sound: associated "
                           "data that starts with an encoded header can be moved into the message (model only)")
        else:
            raise vlib.Infra("the concat variant of SymCrypto no longer violates Sound:\n" + b.out[-2000:])
        trace = c.scratch + "/signed.ndjson"
        c.run_driver(drv, ["-out", trace, "-n", 150 if c.thorough else 24, "-concurrent", 20 if c.thorough else 4])
    r = c.validate("SymCryptoTrace", "SymCryptoTrace.cfg", trace, timeout=1500)
    lines = _crypto.judge_cases(c, r, trace, vlib, whole_trace=_signs_and_line)
    ntr = nver = 0
    kinds = set()
    for ln in lines:
        e = json.loads(ln)
        if e["ev"] == "reset":
            ntr += 1
        elif e["ev"] == "verify":
            nver += 1
            kinds.add((e["mut"], e["keyKind"], e["algo"], e["accepted"]))
    st = _crypto.stats(r)
    if not c.replay and st.get("accepted", 0) == 0:
        raise vlib.Infra("vacuity guard: no verification succeeded")
    c.cov["traces_validated_against_impl"] += ntr
    c.cov["evaluations"] += nver
    c.cov["distinct_nontrivial"] += len(kinds)
    c.cov["rule"] = ("one evaluation = one real signed.Verify call judged by TLC; every call is non-trivial "
                     "(an iff is judged); distinct = distinct (tampering kind, key kind, claimed algorithm, "
                     "outcome); accepted=%d" % st.get("accepted", 0))
    c.sample_trace(trace, nevents=6)
    c.assumptions += ["signatures are symbolic: equality of byte strings is decided by SHA-256 identities computed "
                      "in the driver; unforgeability and ECDSA's algebraic malleability (r, n-s) are not examined",
                      "'algorithm inconsistent with the key' is read as: not an algorithm of the key's public-key "
                      "family (any ECDSA hash with any ECDSA curve is consistent, as checkPubKeyAlgo decides); "
                      "unpaired hash/curve acceptances are reported as drift only",
                      "empty and nil byte strings are the same header/body value"]


def _signs_and_line(lines, l):
    """Replay slice: the reset, sign and forge events of the trace that contains line l, and line l."""
    idx = _crypto.reset_slice(lines, l)
    return [i for i in idx if i == l or '"ev":"verify"' not in lines[i - 1].replace(" ", "")]
