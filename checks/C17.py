"""C17 — configured socket buffer sizes reach the matching socket option.

1. TLC explores RouterConfig.tla (all orders of the configuration calls, providers instantiated at
   construction and lazily by AddExternalInterface / AddNextHop): every Open carries (receive, send)
   as configured; variants with swapped factory arguments must violate it (model only).  The same
   run prints the 720 configuration orders used by the driver.
2. The driver builds real routers through router.NewConnector + control.LoadConfig/ConfigDataplane
   (generated topology.json, production path) and through the same Connector calls in TLC's orders,
   with distinct receive/send sizes, a recording udpip.ConnOpener and a recording second provider
   registered with router.AddUnderlay; it logs every Open and every factory call.
3. TLC validates every event against RouterConfigOps!ConnOK.
"""
import json

import _crypto
import vlib


def orders(c, r):
    o = sorted(set(l.strip().strip('"')[4:] for l in r.out.splitlines() if l.startswith('"ORD|')))
    if len(o) != 720:
        raise vlib.Infra("generator printed %d configuration orders, expected 720" % len(o))
    p = c.scratch + "/orders.txt"
    with open(p, "w") as f:
        f.write("\n".join(o) + "\n")
    return p, o


def run(c):
    drv = c.build("routercfg")
    if c.replay:
        trace = c.replay
    else:
        r = c.mc("RouterConfig", "RouterConfigMC.quick.cfg", workers=4, timeout=600)
        variants = ["swapped"]
        if c.thorough:
            c.mc("RouterConfig", "RouterConfigMC.thorough.cfg", workers=4, timeout=600)
            c.mc("RouterConfig", "RouterConfigMC.other.cfg", workers=4, timeout=600)
            variants.append("swaphop")
        for v in variants:
            b = c.tlc("RouterConfig", "RouterConfigMC.%s.cfg" % v, workers=2, timeout=600)
            if "BufferSizesReach" not in b.inv_violated:
                raise vlib.Infra("model variant %s does not violate BufferSizesReach\n%s" % (v, b.out[-2000:]))
        c.notes.append("model variants with swapped factory arguments violate BufferSizesReach (model only)")
        op, _ = orders(c, r)
        trace = c.scratch + "/buf.ndjson"
        c.run_driver(drv, ["-mode", "buf", "-orders", op, "-out", trace, "-n", 120 if c.thorough else 16])
        # down to the kernel: production path without a test opener, real loopback sockets, read-back
        st = c.scratch + "/sock.ndjson"
        p = c.run_driver(drv, ["-mode", "sock", "-orders", op, "-out", st, "-n", 12 if c.thorough else 6], check=False)
        if p.returncode == 0:
            with open(trace, "a") as f:
                f.write(open(st).read())
        else:
            c.notes.append("real-socket part skipped: " + p.stdout[-300:].replace("\n", " "))
    r = c.validate("RouterConfigTrace", "RouterConfigTrace.cfg", trace, timeout=900)
    lines = _crypto.judge_cases(c, r, trace, vlib, whole_trace=_reset_and_line)
    ntr = nev = 0
    kinds = set()
    shapes = set()
    cur = None
    for ln in lines:
        e = json.loads(ln)
        if e["ev"] == "reset":
            ntr += 1
            cur = e
        elif e["ev"] in ("open", "factory", "sock"):
            nev += 1
            kinds.add(("sock-" if e["ev"] == "sock" else "") + e.get("kind", "factory"))
            if cur["rcv"] != cur["snd"]:
                shapes.add((cur["how"], cur["order"], cur["rcv"], cur["snd"], cur["reuse"], cur["other"], e["ev"], e.get("kind")))
    socks = {k for k in kinds if k.startswith("sock-")}
    kinds -= socks
    if not c.replay and socks and socks != {"sock-internal", "sock-external", "sock-sibling"}:
        raise vlib.Infra("vacuity guard: real sockets observed: %s" % sorted(socks))
    if not socks and not c.replay:
        c.notes.append("no real sockets were observed (loopback UDP not available?)")
    if not c.replay and kinds != {"internal", "external", "sibling", "factory"}:
        raise vlib.Infra("vacuity guard: link kinds observed: %s" % sorted(kinds))
    c.cov["traces_validated_against_impl"] += ntr
    c.cov["evaluations"] += nev
    c.cov["distinct_nontrivial"] += len(shapes)
    c.cov["rule"] = ("one evaluation = one Open / one provider-factory call of a real router judged by TLC; "
                     "non-trivial = configurations with receive != send (a swap is visible); distinct = distinct "
                     "(path, order, sizes, socket-reuse mode, second provider, event kind)")
    c.sample_trace(trace, nevents=6)
    c.assumptions += ["in the recorded-opener traces the ConnOpener stands for conn.New; the real-socket traces go "
                      "through conn.New and read SO_RCVBUF/SO_SNDBUF back (Linux: between the requested value and "
                      "twice that value, clamped to rmem_max/wmem_max); sizes are chosen so that these intervals "
                      "are disjoint",
                      "the second provider ('verifrec') is a stub registered through router.AddUnderlay; it "
                      "observes the arguments of the lazily called provider factory"]


def _reset_and_line(lines, l):
    idx = _crypto.reset_slice(lines, l)
    return [idx[0], l] if idx[0] != l else [l]
