"""C21 -- packet authenticators cover exactly the immutable packet fields.

1. TLC checks (WireAuth.tla) that the classification table WireOps!AuthClass (which bit of which
   field is covered / excluded) is exactly the set of bits that influence the MAC input the document
   constructs (WireOps!AuthInput: option metadata, common header without 2nd row and with TC w/o ECN,
   address header per SPI kind, path with mutable fields zeroed, payload) -- for every path kind
   (empty, one-hop, SCION 1-3 segments, EPIC) x SPI kind x every single-bit flip of every field.
   The variant built with the code's 0x3f traffic-class mask is run to show D6 (note only).
2. The driver hands packets (same path kinds, raw and decoded representations, all SPI kinds, all
   address lengths) to the real spao.ComputeAuthCMAC and recomputes the authenticator after flipping
   every single bit of every field; it logs {field, offset, bit, changed}.
3. TLC classifies every flip with the documented layout and the table (WireAuthTrace.tla):
   changed <=> covered.
"""
import json

import vlib
import _wire


def run(c):
    drv = c.build("wire")
    if not c.replay:
        _wire.mc(c, "WireAuth", "WireAuthMC.%s.cfg" % c.tier, timeout=3000)
        r0 = c.tlc("WireAuth", "WireAuthMC.code.cfg", workers=2, timeout=600)
        if "Exact" in r0.inv_violated and 'field |-> "tc"' in r0.out:
            c.notes.append("model variant TcCode=TRUE (traffic class masked with 0x3f as in pkg/spao/mac.go): "
                           "Exact violated on a traffic-class bit, as expected (DESIGN.md D6)")
        else:
            raise vlib.Infra("the code-shaped model variant did not produce the expected counterexample:\n" + r0.out[-2000:])
    if c.replay:
        trace = c.replay
    else:
        trace = c.scratch + "/auth.ndjson"
        c.run_driver(drv, ["-mode", "auth", "-out", trace, "-n", 40 if c.thorough else 8])
    r = _wire.validate_table(c, "WireAuthTrace", "WireAuthTrace.cfg", trace, chunks=6 if c.thorough else 3, min_chunk=10)
    _wire.judge_table(c, r, trace, maxlen=160)
    n = flips = unbuilt = 0
    shapes = set()
    with open(trace) as f:
        for line in f:
            e = json.loads(line)
            n += 1
            if e["ev"] != "auth":
                continue
            for fl in e["flips"]:
                flips += 1
                if fl[4] == 0:
                    unbuilt += 1
                    continue
                shapes.add((e["pk"], e["rep"], tuple(e["segs"]), e["spi"], fl[0], fl[1], fl[2]))
    c.cov["traces_validated_against_impl"] += 1
    c.cov["evaluations"] += flips
    c.cov["distinct_nontrivial"] += len(shapes)
    c.cov["rule"] = ("one evaluation = one single-bit change of one field of one packet whose authenticator the real code "
                     "recomputed; distinct = (path kind, representation, segment lengths, SPI kind, field, byte offset, bit) "
                     "of the flips that produced a buildable packet")
    c.notes.append("packets=%d flips=%d unbuildable=%d" % (n, flips, unbuilt))
    c.sample({"first_packet": json.loads(open(trace).readline())["flips"][:6]})
    c.assumptions += ["extension headers are not an input of spao.ComputeAuthCMAC (MACInput = key, option, SCION layer, "
                      "payload type, payload), so 'extension headers do not matter' holds by construction of the API; "
                      "NextHdr / PayloadLen stand for their presence",
                      "reserved bits (path meta RSV, info/hop flag bytes), the HdrLen struct field and the SPI value are not "
                      "classified by the documents: observed, never judged",
                      "AES-CMAC collisions are ignored (2^-128)"]
