"""C28 — combined paths are well-formed and their metadata is accurate (see _combine.py)."""
import _combine


def run(c):
    _combine.run(c, "C28:")
