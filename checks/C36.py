"""C36 — signers are backed by a currently verifiable chain and expire in time.

1. TLC explores spec/TrustSigner.tla: 11 TRC time lines (two of them with a TRC update that keeps the
   root, so that a chain verifies against the latest TRC and its predecessor) (S1 -> S2 with rotated root; in grace, grace
   with expired predecessor, grace shorter / longer than everything else, grace over, no grace, latest
   not yet valid / expired, base TRC only) x key rings x up to 2 (quick) / 3 (thorough) chains out of 18
   (2 keys x issued under old / new / unknown root x 3 expiry times: before / beyond the TRC's, already passed).
   In-model: the procedure shaped like SignerGen.Generate/bestForKey/bestChain produces only signers
   allowed by SignerRule (written from the statement).  Every case is a scenario.
2. harness/cmd/trust -mode signer builds the TRC history, chains and keys, stores them in a real
   in-memory sqlite trust DB, calls the real SignerGen.Generate at wall-clock now (every boundary
   >= 2 days away), lets every returned signer sign a message and real trust.Verifiers (bound to the
   signer's ISD-AS / to another one) verify it through the real FetchingProvider.
   For a seed-dependent selection of signers a verifier with its real cache first meets the signer
   while its trust engine has no chain for it and then again once the chain is stored (vlate).
3. TLC (spec/TrustSignerTrace.tla) judges every generated signer (key, chain, InGrace, Expiration),
   the refusal to sign after expiry and the verification of what was signed.
"""
import _pki
import vlib


def run(c):
    drv = c.build("trust")
    trace = c.scratch + "/trace.ndjson"
    if c.replay:
        trace = c.replay
    else:
        r = c.mc("TrustSigner", "TrustSignerMC.%s.cfg" % c.tier, workers=4 if not c.thorough else 8, timeout=2400)
        if c.thorough:
            rb = c.tlc("TrustSigner", "TrustSignerMC.asfound.cfg", workers=1, timeout=600)
            if "Sound" in rb.inv_violated:
                c.notes.append("model: a grace expiry that ignores the latest TRC's validity end (code as found "
                               "before the fix) violates Sound")
        cases = _pki.tlc_json_lines(r.out, "SCN")
        pool = _pki.tlc_json_lines(r.out, "POOL")
        if len(pool) != 1 or len(cases) != r.distinct - 1:
            raise vlib.Infra("generator output incomplete: %d cases, %d states" % (len(cases), r.distinct))
        scn = c.scratch + "/scn.ndjson"
        _pki.write_lines(scn, ['{"pool":%s}' % pool[0]] + cases)
        c.run_driver(drv, ["-mode", "signer", "-scn", scn, "-out", trace], timeout=2400)
    r = c.validate("TrustSignerTrace", "TrustSignerTrace.cfg", trace, timeout=2400)
    if r.bad:
        lines = open(trace).read().splitlines()
        for (l, key) in r.bad:
            # replay = pool line + the scenario (reset .. next reset) containing the event
            a = l - 1
            while a > 0 and '"ev":"reset"' not in lines[a]:
                a -= 1
            b = l
            while b < len(lines) and '"ev":"reset"' not in lines[b]:
                b += 1
            rp = c.scratch + "/replay-%d.ndjson" % l
            _pki.write_lines(rp, [lines[0]] + lines[max(a, 1):b])
            c.report(key, "trace line %d: %s" % (l, lines[l - 1][:300]), rp)
    elif r.stuck_at is not None:
        c.judge_trace(r, trace)
    if not c.replay:
        _pki.need(c, r, "signers", "generated signer")
        _pki.need(c, r, "signers_in_grace", "signer generated through the grace period")
        _pki.need(c, r, "expired_refused", "expired signer refusing to sign")
    _pki.drift(c, r)
    ntr, evs, shapes = 0, 0, set()
    for t in vlib.split_traces(trace):
        if t[0].get("ev") != "reset":
            t = t[1:] if len(t) > 1 and t[0].get("ev") == "pool" else t
            if not t or t[0].get("ev") != "reset":
                continue
        ntr += 1
        sg = [e for e in t if e["ev"] in ("signer", "direct")]
        evs += len(sg)
        if sg:
            shapes.add(str((t[0].get("tl"), t[0].get("keys"), t[0].get("chains"))))
    c.cov["traces_validated_against_impl"] += ntr
    c.cov["evaluations"] += evs
    c.cov["distinct_nontrivial"] += len(shapes)
    c.cov["exhaustive"] = not c.replay
    c.cov["rule"] = ("a trace is one scenario (time line, key ring, stored chains) run through SignerGen.Generate; an "
                     "evaluation is one generated signer (or one direct Sign call) judged by TLC; non-trivial = the "
                     "scenario produced at least one signer; exhaustive = every case of the bounded TLC space was executed")
    for k in ("signers", "signers_in_grace", "expired_refused"):
        c.cov[k] = r.stats.get(k, 0)
    c.sample_trace(trace, nevents=6)
    c.assumptions += [
        "wall-clock now lies strictly between abstract times 0 and 1 (days); no boundary is placed there",
        "ties between chains with equal expiry are unspecified"]
