"""C05 - routers reject impossible source or destination ISD-AS and transit spoofing.

TLC explores the adversarial space of RouterStep.tla (any assembly of hop fields: every path shape
up to 4 hops, every pointer pair, host / sibling / external ingress, every SrcIA / DstIA class, every
interface value in the current hop and in the previous hop that ingressInterface() reads) with the
invariant InvC05 (C05Key of RouterStepOps.tla).  Everything the model passes, the near misses of the
source / destination / transit-source checks and seeded random assemblies are run through one real
two-sibling router and judged by TLC with the same predicate.
"""
import _dpadv


def run(c):
    th = c.thorough
    _dpadv.pipeline(
        c, "C05",
        explores=[("adv.%s" % c.tier, False)],
        asfounds=[("d9", ["InvC05"])],
        prefer=("srcia", "dstia", "transit"),
        budget=80000 if th else 9000,
        rand={"rand": 30000 if th else 1500, "maxhops": 4, "kinds": ["scion", "epic"]},
        nontrivial=lambda e: e["o"]["disp"] in ("forward", "deliver") or
        (e["o"]["disp"] == "slow" and e["o"]["code"] in (33, 34)) or
        (e["o"]["disp"] == "discard" and e["p"]["via"] not in (1, 2, 5) and e["p"]["hf"] > 0))
    c.cov["rule"] = ("one event = one real packet through the real router, judged by C05Key; non-trivial = forwarded / "
                     "delivered, or answered with invalid source / destination address, or a not-first-hop packet from "
                     "the internal network that was dropped; distinct = distinct (abstract packet, disposition, egress, "
                     "scope, SCMP cause) tuples")
