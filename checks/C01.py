"""C01 - routers forward only along unexpired hop fields issued by their own AS.

TLC explores the adversarial space of RouterStep.tla for SCION and EPIC paths: every path shape,
pointer pair and ingress link kind; for the current hop field and the one reached by a cross-over
every combination of {expired, MAC valid under the SegID in the packet, MAC valid under the SegID
after the against-construction-direction update} (hop fields of other ASes and junk are the ones
valid under neither); invariant InvC01 = C01Key of RouterStepOps.tla (forward / deliver => current
hop - and after an effective cross-over the next segment's first hop - authentic under the
accumulator in force and unexpired; MAC / expiry errors point at the offending hop field).
Everything the model passes, the near misses of every check (in particular: exactly one of the two
hop fields expired or invalid, valid only under the wrong accumulator) and seeded random assemblies
are concretised with real AES-CMAC hop fields issued by the harness under the AS key (corrupted in
seven different ways), run through one real router and judged by TLC with the same predicate; the
SCMP pointer is compared with the byte offset of the hop field in the packet as received.
"""
import _dpadv


def run(c):
    th = c.thorough
    _dpadv.pipeline(
        c, "C01",
        explores=[("adv.%s" % c.tier, False), ("epic.%s" % c.tier, False)],
        prefer=("mac", "mac2", "expiry", "expiry2"),
        budget=60000 if th else 10000,
        rand={"rand": 30000 if th else 1500, "maxhops": 4, "kinds": ["scion", "epic"]},
        flags=["-variants", "2" if th else "1"],
        nontrivial=lambda e: e["o"]["disp"] in ("forward", "deliver") or
        (e["o"]["disp"] == "slow" and e["o"]["code"] in (51, 52)))
    c.cov["rule"] = ("one event = one real packet through the real router, judged by C01Key; non-trivial = forwarded / "
                     "delivered, or answered with invalid-MAC / path-expired; distinct = distinct (abstract packet, "
                     "disposition, egress, scope, SCMP cause) tuples")
