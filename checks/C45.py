"""C45 — hidden segments are registered only by writers and served only to members.

1. TLC (HiddenPath.tla) explores registry + server over the C27 store for 2-3 group configurations and all
   two-registration histories over the alphabet (3 peers x 3 group numbers (one unknown) x 6 segment sets incl.
   non-down and badly signed segments), checking the statement's clauses for EVERY request of the battery in
   every reachable state; it prints every history. A second config exhibits the named deviation (an
   equal-version re-registration under another group is ignored by the C27 store) as a model-only counterexample.
2. harness/cmd/hiddenpath executes every history, followed by the whole request battery, on the real
   RegistryServer / AuthoritativeServer / Storer over the real sqlite path DB, plus seeded random
   configurations and longer mixed histories.
3. HiddenPathTrace.tla judges every registration (by the complete DB content afterwards) and every answer.
"""
import json
import os
import re

import vlib

SCN = re.compile(r'^<<"(SCN|CFGS|POOL|REQS)", "(.*)">>$')
KEY = {"CFGS": "cfgs", "POOL": "pool", "REQS": "reqs"}


def run(c):
    drv = c.build("hiddenpath")
    if c.replay:
        r = c.validate("HiddenPathTrace", "HiddenPathTrace.cfg", c.replay)
        c.judge_trace(r, c.replay)
        c.cov["traces_validated_against_impl"] += 1
        return
    m = c.mc("HiddenPath", "HiddenPathMC.%s.cfg" % c.tier, workers=8, timeout=2400)
    # the named deviation, shown in the model only (never a verdict about the code)
    dev = c.tlc("HiddenPath", "HiddenPathDev.cfg", workers=2, timeout=600)
    if "ServesEveryRegistration" in dev.inv_violated:
        c.notes.append("model-only counterexample (expected): with the C27 store an equal-version re-registration "
                       "of a segment under a second group is ignored, so the segment is not served for that group")
    else:
        raise vlib.Infra("HiddenPathDev.cfg: expected counterexample not found: %s" % dev.out[-800:])
    scn = os.path.join(c.scratch, "scn.ndjson")
    nhist = 0
    with open(scn, "w") as f:
        for line in m.out.splitlines():
            mm = SCN.match(line.strip())
            if not mm:
                continue
            v = json.loads(json.loads('"' + mm.group(2) + '"'))
            if mm.group(1) == "SCN":
                f.write(json.dumps(v) + "\n")
                nhist += 1
            else:
                f.write(json.dumps({KEY[mm.group(1)]: v}) + "\n")
    if nhist == 0:
        raise vlib.Infra("the model printed no histories")
    trace = os.path.join(c.scratch, "hp.ndjson")
    c.run_driver(drv, ["-scn", scn, "-n", 2500 if c.thorough else 150, "-out", trace], timeout=3000)
    chunks = []
    cur, curn = None, 0
    with open(trace) as f:
        for line in f:
            if cur is None or (curn >= 80000 and '"ev":"reset"' in line):
                if cur:
                    cur.close()
                p = os.path.join(c.scratch, "chunk%d.ndjson" % (len(chunks) + 1))
                chunks.append(p)
                cur, curn = open(p, "w"), 0
            cur.write(line)
            curn += 1
    if cur:
        cur.close()
    drift = {}
    for p in chunks:
        r = c.validate("HiddenPathTrace", "HiddenPathTrace.cfg", p, timeout=3000)
        c.judge_trace(r, p)
        for mm in re.finditer(r'<<"VERIF-DRIFT", \d+, "([^"]*)">>', r.out):
            drift[mm.group(1)] = drift.get(mm.group(1), 0) + 1
    for k, v in sorted(drift.items()):
        c.notes.append("MODEL-DRIFT %s x%d" % (k, v))

    ntr = evs = stored = answered = nonempty = 0
    shapes = set()
    for t in vlib.split_traces(trace):
        ntr += 1
        prev = []
        for e in t[1:]:
            evs += 1
            if e["ev"] == "reg":
                if e["dump"] != prev:
                    stored += 1
                    shapes.add(json.dumps(["reg", t[0]["cfg"]["groups"], e["peer"], e["g"], e["segs"], prev]))
                prev = e["dump"]
            elif e["ev"] == "req" and e["err"] == 0:
                answered += 1
                if e["res"]:
                    nonempty += 1
                shapes.add(json.dumps(["req", t[0]["cfg"]["groups"], e["peer"], e["gs"], e["dst"], prev]))
    if stored == 0 or nonempty == 0:
        raise vlib.Infra("vacuous run: %d registrations stored, %d non-empty answers" % (stored, nonempty))
    c.cov["traces_validated_against_impl"] += ntr
    c.cov["evaluations"] += evs
    c.cov["distinct_nontrivial"] += len(shapes)
    c.cov["exhaustive"] = False
    c.cov["rule"] = ("an evaluation is one Register call (judged on the complete path-DB content afterwards) or one "
                     "Segments call (judged on error/answer); %d histories are TLC's complete set, each followed by the "
                     "40-request battery; non-trivial = a registration that changed the DB (%d) or a request that was "
                     "answered (%d, %d non-empty); distinct = distinct (groups, call, DB content before)"
                     % (nhist, stored, answered, nonempty))
    c.sample_trace(trace, nevents=5)
    c.assumptions += [
        "segments are real signed segments verified by the real VerifierAdapter/segverifier with the pool key; "
        "a badly signed segment has one AS entry signed with another key",
        "the store follows C27: an equal-or-older re-registration under another group may be ignored (accepted either way, "
        "reported as MODEL-DRIFT)",
        "request destinations are full ISD-AS values (no wildcards)",
    ]
