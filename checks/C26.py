"""C26 - beacon selection returns the shortest beacons plus the most diverse one.

1. TLC explores BeaconSel.tla: every list of small candidates (ordered by length) and every k; the
   statement-level Select (BeaconSelOps) is well defined and returns exactly min(n, k) distinct
   candidates, the k-1 first ones plus one further one chosen as stated.  The relation found in
   selection_algo.go before the repair (reference beacon = result[0]) is run too and is EXPECTED to
   violate NoPanic (k = 1 < n; DESIGN.md section 7, D5) - a note, never a verdict.
2. harness/cmd/beaconsel calls the real DefaultSelectionAlgorithm().SelectBeacons on the complete set of
   small candidate lists and on seeded larger ones and records the returned candidates.
3. TLC validates every case against BeaconSelOps!Select (BeaconSelTrace.tla); a panic is a violation.
"""
import json
import os
import threading

import vlib


def run(c):
    drv = c.build("beaconsel")
    if c.replay:
        trace = c.replay
    else:
        c.mc("BeaconSel", "BeaconSelMC.%s.cfg" % c.tier, timeout=3000)
        r = c.tlc("BeaconSel", "BeaconSelMC.asfound.cfg", timeout=600)
        if "NoPanic" in r.inv_violated:
            c.notes.append("design level: the selection as found before the repair (reference beacon "
                           "result[0]) has no reference for k = 1 < n - TLC counterexample to NoPanic")
        else:
            raise vlib.Infra("BeaconSelMC.asfound.cfg was expected to violate NoPanic\n" + r.out[-2000:])
        trace = c.scratch + "/beaconsel.ndjson"
        args = ["-complete", "4:2:3,5:2:2", "-rand", 20000] if c.thorough else \
               ["-complete", "3:2:3,4:2:2", "-rand", 1500]
        p = c.run_driver(drv, ["-out", trace] + args, timeout=3000)
        c.notes.append("driver: " + p.stdout.strip().splitlines()[-1])
    lines = open(trace).read().splitlines()
    # every line is an independent case: large tables are validated by several TLC processes
    nsh = 4 if len(lines) > 20000 else 1
    parts = []
    for i in range(nsh):
        pth = "%s.part%d" % (trace, i) if nsh > 1 else trace
        if nsh > 1:
            with open(pth, "w") as o:
                o.write("\n".join(lines[i::nsh]) + "\n")
        parts.append((pth, lines[i::nsh]))
    results = [None] * nsh
    errs = []

    def work(i):
        try:
            results[i] = c.validate("BeaconSelTrace", "BeaconSelTrace.cfg", parts[i][0], timeout=3000)
        except Exception as e:
            errs.append(e)
    ths = [threading.Thread(target=work, args=(i,)) for i in range(nsh)]
    for t in ths:
        t.start()
    for t in ths:
        t.join()
    if errs:
        raise errs[0]
    ndrift = 0
    for (pth, plines), r in zip(parts, results):
        if r.stuck_at is not None and not r.bad:
            raise vlib.Infra("table validation stopped at line %s\n%s" % (r.stuck_at, r.out[-2000:]))
        ndrift += r.out.count('"VERIF-DRIFT"')
        for (l, key) in r.bad:          # the replay of a case is its line
            rp = os.path.join(c.scratch, "replay-%s-%d.ndjson" % (os.path.basename(pth), l))
            with open(rp, "w") as o:
                o.write(plines[l - 1] + "\n")
            c.report(key, "case: %s" % plines[l - 1][:200], rp)
    n = nontriv = 0
    shapes = set()
    for ln in lines:
        e = json.loads(ln)
        n += 1
        if len(e["c"]) > e["k"]:            # a real choice had to be made
            nontriv += 1
            shapes.add(json.dumps([e["c"], e["k"]]))
    c.cov["traces_validated_against_impl"] += n
    c.cov["evaluations"] += n
    c.cov["distinct_nontrivial"] += len(shapes)
    c.cov["exhaustive"] = not c.replay
    c.cov["rule"] = ("an evaluation is one call of the real SelectBeacons judged by TLC; non-trivial = more "
                     "candidates than k; distinct = distinct (candidate links, k). exhaustive refers to the "
                     "complete enumeration of lists of <= 3 (quick) / 4 (thorough) candidates with <= 2 links over "
                     "3 link values, and of <= 4 / 5 candidates over 2 link values, with all k <= n+1 (the first "
                     "block is also the model-checked bound); larger lists are seeded samples")
    nd = ndrift
    if nd:
        c.notes.append("VERIF-DRIFT lines (tie-break among equally diverse, equally long candidates): %d" % nd)
    c.sample_trace(trace, nevents=3, limit=1)
    c.assumptions += ["candidates are given ordered by length (the property's precondition); k >= 1",
                      "for k = 1 the best diversity among zero served beacons is -1 (DESIGN.md section 8)",
                      "a link is (ISD-AS, egress interface) of an AS entry; beacons are built directly from AS "
                      "entries (no signatures needed by the selection)"]
