"""C48 — the ring buffer is a linearizable bounded FIFO queue.

1. TLC explores the implementation-shaped state machine (RingBuf.tla: slice + indices + counters +
   cond-var wait sets + Broadcast) exhaustively: FIFO/no-loss/no-dup (rlog \\o Q = wlog), index
   arithmetic, no lost wake-up, close releases everybody (liveness under weak fairness).
2. The real private/ringbuf.Ring is driven by seeded concurrent histories (up to 6 goroutines,
   GOMAXPROCS 1..16); the verif hook records every linearization point under the ring's mutex; the
   merged trace (hook order + caller-observed results) is validated by TLC against RingBufTrace.tla,
   which applies the same pure operators (RingBufOps.tla).
"""
import vlib


def run(c):
    drv = c.build("ring")
    c.mc("RingBuf", "RingBufMC.%s.cfg" % c.tier, timeout=3000)
    if c.replay:
        trace = c.replay
        first = open(trace).readline()
        if '"batch"' in first:      # a pktRing trace slice
            pr = c.validate("PktRingTrace", "PktRingTrace.cfg", trace)
            c.judge_trace(pr, trace)
            c.cov["traces_validated_against_impl"] += 1
            c.cov["evaluations"] += pr.nlines
            c.sample_trace(trace)
            return
    else:
        trace = c.scratch + "/ring.ndjson"
        n = 3000 if c.thorough else 400
        c.run_driver(drv, ["-n", n, "-out", trace])
    r = c.validate("RingBufTrace", "RingBufTrace.cfg", trace)
    c.judge_trace(r, trace)
    ntr = 0
    shapes = set()
    evs = 0
    for t in vlib.split_traces(trace):
        ntr += 1
        evs += len(t) - 1
        # non-trivial: at least one caller slept on a condition variable or a batch was cut short
        if any(e["ev"] in ("waitw", "waitr") for e in t) or \
                any(e["ev"] in ("read", "write") and 0 <= e["ret"] < e["len"] for e in t):
            shapes.add(str([(e["ev"], e.get("c"), e.get("len"), e.get("ret")) for e in t]))
    c.cov["traces_validated_against_impl"] += ntr
    c.cov["evaluations"] += evs
    c.cov["distinct_nontrivial"] += len(shapes)
    c.cov["rule"] = ("seeded concurrent histories on the real Ring; an event is one linearization point "
                     "judged by TLC; a trace is non-trivial if some caller blocked or a batch was "
                     "truncated; distinct = distinct (event, caller, len, ret) sequences")
    c.sample_trace(trace, nevents=14)
    # the gateway's pktRing (batching single-reader view) on top of the same ring
    if not c.replay:
        pdrv = c.build("pktring")
        ptrace = c.scratch + "/pktring.ndjson"
        c.run_driver(pdrv, ["-n", 400 if c.thorough else 60, "-out", ptrace])
        pr = c.validate("PktRingTrace", "PktRingTrace.cfg", ptrace)
        c.judge_trace(pr, ptrace)
        pn = 0
        for t in vlib.split_traces(ptrace):
            pn += 1
            c.cov["evaluations"] += len(t) - 1
            if any(e["ev"] in ("waitw", "waitr") for e in t) or any(e["ev"] == "rread" and e["hret"] > 1 for e in t):
                shapes.add("p" + str([(e["ev"], e.get("hret"), e.get("ret")) for e in t][:400]))
        c.cov["traces_validated_against_impl"] += pn
        c.cov["distinct_nontrivial"] = len(shapes)
    c.assumptions += ["hook events are emitted under the ring mutex (exact linearization order)",
                      "goroutine scheduling is sampled, not enumerated, on the implementation side; "
                      "all interleavings are enumerated only in the TLA+ model"]
