"""C22 — SegID accumulator updates give every hop its construction-time value.

Exhaustive: SegIDChain.tla — one segment, all lengths n <= 63 (64 thorough), both directions, every
entry/exit (full, shortcut, peering), every position, symbolic MACs (accumulator = set of hop
signatures, XOR = symmetric difference): invariant InSync; plus Dataplane.tla invariant SegIDInSync on
the topology families.  Binding: line topologies of n in {2,3,4,5,8,16,(33),63} ASes with peering links,
real extender/combinator/routers; at every router visit the accumulator in force (observed bytes: the
value that arrived in construction direction, the value written back against it) must equal the
construction-time accumulator of the validated hop field (fold over the extender's output), checked by
DataplaneTrace.tla (Prop = C22) together with the independent AES-CMAC re-computation."""
import _dp


def run(c):
    drv = c.build("dp")
    if c.replay:
        trace = c.replay
    else:
        c.mc("SegIDChain", "SegIDChainMC.%s.cfg" % c.tier, workers=4 if not c.thorough else 8, timeout=1500)
        if c.thorough:      # SegIDInSync on the topology families (quick: the chain model only)
            _dp.model(c)
        trace = c.scratch + "/line.ndjson"
        c.run_driver(drv, ["-mode", "line", "-out", trace])
    _dp.validate(c, "C22", trace)
    _dp.coverage(c, trace, lambda r, evs: any(e["ev"] == "hop" for e in evs),
                 "line topologies (segments of n hop fields) with peering links, every/sampled path of the "
                 "real combinator, request and reply legs; each router visit is one evaluation of the "
                 "accumulator-in-force = construction-beta formula; distinct = distinct (n, segment "
                 "lengths, ConsDir/Peer flags) shapes")
    c.assumptions += [
        "a chance collision of two 16-bit values can only make the monitor accept (2^-16 per comparison)",
        "paths with more than 64 hop fields cannot be serialized and are skipped (63 + 2 hops)"]
