"""C04 — tampered hop or info fields prevent delivery.

Binding: for every path of T1 (sample of T2/T3 in quick; all in thorough) every single-bit alteration
of a protected value (hop field ConsIngress, ConsEgress, ExpTime, MAC; info field SegID, Timestamp) of
the packet a host sends is walked through the real routers; one compact event per walk (where it
died, whether a host got it).  DataplaneTrace.tla (Prop = C04) computes from the path shape the first
hop field whose MAC input depends on the altered value and the router visit of the untampered reference
walk that validates it, and demands: never handed to a host, dead no later than that visit.
Exhaustive: Dataplane.tla with the symbolic mutation action (Tamper) — invariant NoDeliveryAfterTamper."""
import _dp


def run(c):
    drv = c.build("dp")
    if c.replay:
        trace = c.replay
    else:
        _dp.model(c)
        trace = c.scratch + "/tamper.ndjson"
        c.run_driver(drv, ["-mode", "tamper", "-out", trace, "-topos", "T1,T2,T3"] +
                     (["-random", 12] if c.thorough else []))
    _dp.validate(c, "C04", trace)
    n = cases = 0
    kinds = set()
    import json
    for line in open(trace):
        if '"ev":"tamper"' in line:
            e = json.loads(line)
            cases += 1
            kinds.add((e["kind"], e["pos"], e["bit"] // 8, e["disp"], e["code"]))
        elif '"ev":"reset"' in line:
            n += 1
    c.cov["traces_validated_against_impl"] += n
    c.cov["evaluations"] += cases
    c.cov["distinct_nontrivial"] += len(kinds)
    c.cov["rule"] = ("one evaluation = one single-bit alteration walked through the real routers; "
                     "distinct = distinct (field kind, field position, byte, resulting disposition/code)")
    c.sample_trace(trace, nevents=6)
    c.assumptions += ["bits of reserved/flag bytes are not protected values and are not flipped",
                      "a 2^-48 MAC collision would be reported as a violation (not observed)"]
