"""Shared pipeline of the single-router adversarial / table checks (C01 C05 C06 C09 C12 C13 C15).

TLC explores spec/RouterStep.tla exhaustively (invariants = the property predicates of
RouterStepOps.tla) and, through the state constraint Emit, prints every assembled packet the model
lets pass plus every near miss of a single check.  harness/cmd/dpadv concretises them (and seeded
random assemblies) into real packets, runs them through one real router and logs abstract
observations; TLC judges every line with spec/RouterStepTrace.tla.
"""
import json
import os
import re
from concurrent.futures import ThreadPoolExecutor

import vlib

_LINE = re.compile(r'<<\s*"(CFG|SCN)",\s*"((?:[^"\\]|\\.)*)"\s*>>')
_BAD = re.compile(r'<<\s*"VERIF-(BAD|DRIFT)",\s*(\d+),\s*"((?:[^"\\]|\\.)*)"\s*>>')


def tlc_scenarios(out):
    """(cfg, [scenario records]) printed by RouterStep's Emit constraint."""
    cfg, scn = None, []
    for m in _LINE.finditer(out):
        o = json.loads(json.loads('"' + m.group(2) + '"'))
        if m.group(1) == "CFG":
            cfg = o
        else:
            scn.append(o)
    return cfg, scn


def explore(c, cfgname, timeout=3000):
    """Exhaustive run of one RouterStepMC.<cfgname>.cfg; returns (cfg, scenarios)."""
    # development aid for the mutation self-tests (never set by registered commands): reuse the
    # scenario output of an earlier exhaustive run instead of repeating it for every mutant
    cache = os.environ.get("VERIF_DPADV_CACHE")
    cf = os.path.join(cache, cfgname + ".json") if cache else None
    if cf and os.path.exists(cf):
        cfg, scn = json.load(open(cf))
        c.notes.append("%s: scenarios taken from VERIF_DPADV_CACHE (development run)" % cfgname)
        return cfg, scn
    r = c.mc("RouterStep", "RouterStepMC.%s.cfg" % cfgname, timeout=timeout)
    cfg, scn = tlc_scenarios(r.out)
    if cf and cfg is not None:
        json.dump([cfg, scn], open(cf, "w"))
    if cfg is None:
        raise vlib.Infra("RouterStep %s printed no CFG line" % cfgname)
    return cfg, scn


def asfound(c, cfgname, expect):
    """The check sequence as found in the code (Cfg.fix all FALSE): TLC must show the design-level
    counterexamples.  Never a verdict; recorded in the notes."""
    r = c.tlc("RouterStep", "RouterStepMC.%s.cfg" % cfgname, timeout=1500, workers=4)
    seen = sorted(set(r.inv_violated))
    c.notes.append("model of the check sequence as found (%s): TLC violates %s" % (cfgname, seen))
    for inv in expect:
        if inv not in seen:
            raise vlib.Infra("as-found model %s does not violate %s (got %s)" % (cfgname, inv, seen))


def write_scenarios(path, blocks):
    """blocks: list of (cfg, auth, [lines]); a line is a dict ({"p":..} | {"rand":..} | ...)."""
    n = 0
    with open(path, "w") as f:
        for cfg, auth, lines in blocks:
            f.write(json.dumps({"cfg": cfg, "auth": auth}) + "\n")
            for ln in lines:
                f.write(json.dumps(ln) + "\n")
                n += 1
    return n


def _chunks(trace, size):
    """Split a trace into files of about `size` lines.  A chunk that starts inside a reset-delimited
    trace begins with that trace's reset record AND the "bfd" records logged since (the state the
    trace specification carries from line to line: router configuration, last BFD state per link)."""
    out, metas = [], []
    with open(trace) as f:
        lines = f.read().splitlines()
    reset, bfd = None, []
    i = 0
    while i < len(lines):
        cur = []
        if reset is not None and '"ev":"reset"' not in lines[i]:
            cur = [reset] + list(bfd)
        inj = len(cur)
        start = i
        while i < len(lines) and len(cur) < size:
            if '"ev":"reset"' in lines[i]:
                reset, bfd = lines[i], []
            elif '"ev":"bfd"' in lines[i]:
                bfd.append(lines[i])
            cur.append(lines[i])
            i += 1
        p = "%s.%d" % (trace, len(out))
        with open(p, "w") as f:
            f.write("\n".join(cur) + "\n")
        out.append(p)
        metas.append((start, inj))
    return out, metas, lines


def validate(c, trace, pid, chunk=12000, also=("panic",)):
    """Validate a dpadv trace; report the BAD keys of property pid; return statistics."""
    files, metas, lines = _chunks(trace, chunk)
    with ThreadPoolExecutor(max_workers=min(4, max(1, len(files)))) as ex:
        rs = list(ex.map(lambda p: c.validate("RouterStepTrace", "RouterStepTrace.cfg", p, timeout=2400, heap="3g"), files))
    stats = {"pkt": 0, "passed": 0, "slow": 0, "scmp": 0, "drift": 0}
    drift, foreign = {}, {}
    for r, (start, inj), p in zip(rs, metas, files):
        if r.done != r.nlines:
            raise vlib.Infra("trace validation did not consume %s: %s\n%s" % (p, r.other_error, r.out[-2000:]))
        for k in stats:
            stats[k] += r.stats.get(k, 0)
        for m in _BAD.finditer(r.out):
            kind, ln, key = m.group(1), int(m.group(2)), m.group(3)
            orig = start + (ln - inj)        # 1-based line in the full trace
            if kind == "DRIFT":
                drift[key] = drift.get(key, 0) + 1
                continue
            if not (key.startswith(pid + ":") or key in also):
                foreign[key] = foreign.get(key, 0) + 1
                continue
            # replay slice: the reset in force, the BFD states logged since, the offending line
            j = orig - 1
            while j > 0 and '"ev":"reset"' not in lines[j]:
                j -= 1
            keep = [lines[j]] + [x for x in lines[j + 1:orig - 1] if '"ev":"bfd"' in x] + [lines[orig - 1]]
            rp = os.path.join(c.scratch, "replay-%d.ndjson" % orig)
            with open(rp, "w") as f:
                f.write("\n".join(keep) + "\n")
            c.report(key, "trace line %d: %s" % (orig, lines[orig - 1][:400]), rp)
    if drift:
        c.notes.append("MODEL-DRIFT (not a verdict): %s" % json.dumps(drift, sort_keys=True))
    if foreign:
        c.notes.append("monitor failures of other properties seen in this run (reported by their own checks): %s"
                       % json.dumps(foreign, sort_keys=True))
    return stats


def replay(c, pid):
    """--replay: re-validate a stored slice."""
    import shutil
    src = os.path.join(c.scratch, "replayed.ndjson")      # report() stores a copy under out/replay
    shutil.copyfile(c.replay, src)
    r = c.validate("RouterStepTrace", "RouterStepTrace.cfg", src)
    if r.done != r.nlines:
        raise vlib.Infra("replay: trace not consumed: %s" % r.other_error)
    for m in _BAD.finditer(r.out):
        if m.group(1) == "BAD" and (m.group(3).startswith(pid + ":") or m.group(3) == "panic"):
            c.report(m.group(3), "replayed trace line %s" % m.group(2), src)
    c.cov["evaluations"] += max(0, r.nlines - 1)
    c.cov["traces_validated_against_impl"] += 1


def count(c, trace, nontrivial, shape):
    """evaluations / distinct non-trivial cases of a trace (ev = pkt)."""
    n, seen, ntr = 0, set(), 0
    with open(trace) as f:
        for line in f:
            e = json.loads(line)
            if e.get("ev") == "reset":
                ntr += 1
            if e.get("ev") != "pkt":
                continue
            n += 1
            if nontrivial(e):
                seen.add(json.dumps(shape(e), sort_keys=True))
    c.cov["traces_validated_against_impl"] += ntr
    c.cov["evaluations"] += n
    c.cov["distinct_nontrivial"] += len(seen)
    return n, len(seen)


def abstract_shape(e):
    """Abstract projection of a packet event: the abstract packet + what the router did."""
    o, s = e["o"], e["s"]
    return [e["p"], o["disp"], o["eg"], o["osc"], o["st"], o["code"], s["kind"]]


TRUSTED = [
    "MAC validity is the harness's own AES-CMAC (written from scion-header.rst / RFC 4493) applied to the bytes "
    "that entered the router; a 2^-48 chance collision can only make a monitor accept",
    "one router per scenario, built by router.VerifNewDP in the order of control.ConfigDataplane on real udpip links "
    "over an in-memory connection opener; packets enter through processPkt with the real link object",
    "time: hop fields expire >= 50 min before / >= 5 h after the run, EPIC timestamps are >= 1 s inside, >= 1 s too old (a stall only ages a packet) or >= 14 s ahead "
    "outside the freshness window; no verdict depends on a smaller wall-clock distance",
]


def _stratum(tag, s):
    p, m = s["p"], s["m"]
    cur = p["infos"][p["inf"]] if p["inf"] < len(p["infos"]) else {}
    h = p["hops"][p["hf"]] if p["hf"] < len(p["hops"]) else {}
    n = p["hops"][p["hf"] + 1] if p["hf"] + 1 < len(p["hops"]) else {}      # the hop a cross-over leads to
    return (tag, m["disp"], m["why"], p["kind"], p["via"], tuple(p["seg"]), p["hf"], p["inf"], cur.get("cons"),
            cur.get("peer"), h.get("in"), h.get("eg"), n.get("in"), n.get("eg"))


def select(tagged, seed, budget, prefer=(), stratum=None):
    """Stratified, seeded selection of at most `budget` scenarios: every packet the model passes is
    kept; the near misses are drawn round-robin over strata (cause, ingress link, shape, position,
    direction, interface pair), the causes in `prefer` three times as often."""
    import random
    rnd = random.Random(seed)
    _st = stratum or _stratum
    # with an explicit stratum function nothing is kept unconditionally
    keep = [(t, s) for (t, s) in tagged if not s["m"]["nm"] and stratum is None]
    rest = {}
    for (t, s) in tagged:
        if s["m"]["nm"] or stratum is not None:
            rest.setdefault(_st(t, s), []).append((t, s))
    if len(keep) > budget:
        # even the passing set is over budget: stratify it as well
        groups = {}
        for (t, s) in keep:
            groups.setdefault(_st(t, s), []).append((t, s))
        keep = _round_robin(groups, rnd, budget * 2 // 3, prefer)
    room = max(0, budget - len(keep))
    return keep + _round_robin(rest, rnd, room, prefer)


def _round_robin(groups, rnd, room, prefer):
    keys = sorted(groups, key=repr)
    for k in keys:
        rnd.shuffle(groups[k])
    out = []
    rnd.shuffle(keys)
    while room > 0 and keys:
        nxt = []
        for k in keys:
            take = 3 if k[2] in prefer else 1
            while take > 0 and groups[k] and room > 0:
                out.append(groups[k].pop())
                take -= 1
                room -= 1
            if groups[k]:
                nxt.append(k)
        keys = nxt
    return out


def pipeline(c, pid, explores, asfounds=(), prefer=(), budget=12000, rand=None, flags=(), extra=(),
             nontrivial=None, keep=None, stratum=None):
    """explores: [(cfgname, auth)]; asfounds: [(cfgname, [invariants expected to fail])];
    rand: dict for a {"rand": ...} line appended to every block; extra: [(cfg, auth, lines)]."""
    import time
    t0 = time.time()
    tm = {}
    drv = c.build("dpadv")
    tm["build"] = round(time.time() - t0, 1)
    if c.replay:
        replay(c, pid)
        return None
    blocks, total, cache = [], 0, {}
    per = max(1, budget // max(1, len(explores)))
    for (name, auth) in explores:
        if name not in cache:
            t1 = time.time()
            cache[name] = explore(c, name)
            tm["mc:" + name] = round(time.time() - t1, 1)
            total += len(cache[name][1])
        cfg, scn = cache[name]
        sel = select([(name, s) for s in scn if keep is None or keep(s)], c.seed + (7 if auth else 0), per, prefer, stratum)
        lines = [{"p": s["p"]} for (_, s) in sel]
        for ln in ([rand] if isinstance(rand, dict) else list(rand or [])):
            lines.append(ln)
        blocks.append((cfg, auth, lines))
        c.notes.append("%s%s: TLC emitted %d assemblies (passed + single-check near misses), %d executed"
                       % (name, " (SCMP authentication on)" if auth else "", len(scn), len(sel)))
    for (name, expect) in asfounds:
        if os.environ.get("VERIF_DPADV_CACHE"):
            continue
        t1 = time.time()
        asfound(c, name, expect)
        tm["asfound:" + name] = round(time.time() - t1, 1)
    blocks += list(extra)
    scnf = os.path.join(c.scratch, "scenarios.ndjson")
    write_scenarios(scnf, blocks)
    trace = os.path.join(c.scratch, "dpadv.ndjson")
    t1 = time.time()
    c.run_driver(drv, ["-scn", scnf, "-out", trace] + list(flags), timeout=1800)
    tm["driver"] = round(time.time() - t1, 1)
    t1 = time.time()
    stats = validate(c, trace, pid)
    tm["validate"] = round(time.time() - t1, 1)
    c.notes.append("wall seconds per stage: %s" % json.dumps(tm))
    count(c, trace, nontrivial or (lambda e: True), abstract_shape)
    c.sample_trace(trace, nevents=3)
    c.assumptions += TRUSTED
    c.notes.append("events: %s" % json.dumps(stats, sort_keys=True))
    return trace, stats
