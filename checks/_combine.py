"""Shared pipeline of C28 and C29 (one driver `combine`, one trace specification).

1. TLC explores Combinator.tla exhaustively: over every segment set beaconing can register on small
   topologies, the code-shaped pipeline (DMG construction, breadth-first enumeration, long-path and
   duplicate filters) agrees with the DEFINITION of path combination, every defined path is a walk
   over real links whose hop fields verify hop by hop under the router's SegID rules, metadata equals
   the minima over the topology, and the returned list is sorted / duplicate free / latest-expiring.
2. The driver builds REAL segments with the real beaconing extender over generated topologies
   (several runs with perturbed expiry/MTU settings and newer timestamps), calls the REAL
   combinator.Combine, and logs inputs and outputs.
3. CombinatorTrace.tla recomputes the admissible paths by definition from the logged segments and
   compares; keys C28:* / C29:* separate the two properties.
"""
import json

import vlib
import _tlcout


def run(c, prefix):
    drv = c.build("combine")
    c.mc("Combinator", "CombinatorMC.%s.cfg" % c.tier, timeout=3000)
    if c.thorough:
        c.mc("Combinator", "CombinatorMC.thorough2.cfg", timeout=3000)
    if c.replay:
        trace = c.replay
    else:
        trace = c.scratch + "/combine.ndjson"
        n = 400 if c.thorough else 45
        args = ["-n", n, "-out", trace]
        if c.thorough:
            args += ["-pairs", 5, "-maxsegs", 8, "-maxcores", 10, "-duppairs", 4]
        c.run_driver(drv, args)
    r = c.validate("CombinatorTrace", "CombinatorTrace.cfg", trace, timeout=3000)
    drift = _tlcout.renorm(r)
    # keep only the keys of this property (the other property's check reports its own)
    r.bad = [(l, k) for (l, k) in r.bad if k.startswith(prefix)]
    c.judge_trace(r, trace)
    if drift:
        c.notes.append("MODEL-DRIFT (not a verdict): %s" % drift)
    st = r.stats
    c.cov["traces_validated_against_impl"] += st.get("cases", 0)
    shapes = set()
    npaths = 0
    with open(trace) as f:
        for line in f:
            ev = json.loads(line)
            if ev.get("ev") != "combine":
                continue
            for p in ev["paths"]:
                npaths += 1
                shapes.add((tuple(p["seglen"]), tuple((i["cd"], i["peer"]) for i in p["infos"]),
                            len(p["intfs"]), ev["all"]))
    if prefix == "C28:":
        c.cov["evaluations"] += npaths
        c.cov["distinct_nontrivial"] += len(shapes)
        c.cov["rule"] = ("an evaluation is one path returned by the real Combine, judged field by field "
                         "against the definition; distinct = distinct (segment lengths, info flags, "
                         "number of interfaces, findAllIdentical) shapes among returned paths")
    else:
        c.cov["evaluations"] += st.get("choices", 0)
        c.cov["distinct_nontrivial"] += len(shapes)
        c.cov["rule"] = ("an evaluation is one admissible combination (by definition) looked up in the "
                         "real Combine result; non-trivial cases are calls with at least one admissible "
                         "combination (%d of %d); distinct = distinct path shapes returned"
                         % (st.get("nontrivial", 0), st.get("cases", 0)))
    c.notes.append("trace stats: %s" % st)
    c.sample_trace(trace, nevents=2)
    c.assumptions += [
        "segment sets are those real beaconing produces on generated loop-free topologies (<= 2 ISDs, "
        "<= 2 cores per ISD, depth <= 3, parallel links, peering between any two ASes not both core); "
        "hand-crafted inconsistent segments are not generated",
        "weight is the number of inter-AS links (package documentation of combinator)",
        "'passes no AS more than twice' is read as in filterLongPaths: no AS owns more than two of the "
        "path's interfaces",
    ]
