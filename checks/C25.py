"""C25 — only valid, policy-conforming beacons are stored and propagated.

1. TLC (BeaconStore.tla) enumerates the complete table configurations x beacons (every ISD-AS sequence
   up to the bound, loops included) x next x bad signature position x ingress interface (every link
   type, wrong neighbour, unknown interface) through a model of the code's pipeline and checks the
   statement's clauses, spelled out directly, on everything stored / propagated; it prints every case.
2. harness/cmd/beaconstore feeds every case (plus seeded random ones: longer beacons, random policies and
   interfaces) to the real beaconing.Handler + beacon.Store/CoreStore on the real sqlite beacon DB and then
   runs the real Propagator with a recording sender factory.
3. BeaconStoreTrace.tla judges every handle / propagate event with the same operators. C25 is an only-if
   statement: monitors are its clauses; allowed-but-not-done and the stronger loop reading are drift.
"""
import json
import os
import re

import vlib

SCN = re.compile(r'^<<"(SCN|CFGS)", "(.*)">>$')


def run(c):
    drv = c.build("beaconstore")
    if c.replay:
        r = c.validate("BeaconStoreTrace", "BeaconStoreTrace.cfg", c.replay)
        c.judge_trace(r, c.replay)
        c.cov["traces_validated_against_impl"] += 1
        return
    m = c.mc("BeaconStore", "BeaconStoreMC.%s.cfg" % c.tier, workers=8, timeout=2400)
    # the loop test of the code before the fix (local AS left out), shown in the model only
    dev = c.tlc("BeaconStore", "BeaconStoreDev.cfg", workers=4, timeout=1200)
    if "SentNoLoop" in dev.inv_violated:
        c.notes.append("model-only counterexample (expected): a loop test that leaves the local AS out propagates a "
                       "beacon that already contains the local AS (fixed in /repo)")
    else:
        raise vlib.Infra("BeaconStoreDev.cfg: expected counterexample not found: %s" % dev.out[-800:])
    scn = os.path.join(c.scratch, "scn.ndjson")
    ncases = 0
    with open(scn, "w") as f:
        for line in m.out.splitlines():
            mm = SCN.match(line.strip())
            if not mm:
                continue
            v = json.loads(json.loads('"' + mm.group(2) + '"'))
            if mm.group(1) == "CFGS":
                f.write(json.dumps({"cfgs": v}) + "\n")
            else:
                f.write(json.dumps(v) + "\n")
                ncases += 1
    if ncases == 0:
        raise vlib.Infra("the model printed no cases")
    trace = os.path.join(c.scratch, "bstore.ndjson")
    c.run_driver(drv, ["-scn", scn, "-n", 300 if c.thorough else 25, "-out", trace], timeout=3000)
    r = c.validate("BeaconStoreTrace", "BeaconStoreTrace.cfg", trace, timeout=3000)
    c.judge_trace(r, trace)

    ntr = evs = stored = sends = regd = 0
    shapes = set()
    for t in vlib.split_traces(trace):
        ntr += 1
        cfg = t[0]["cfg"]
        lt = {i["id"]: (i["lt"], i["nbr"]) for i in cfg["ifs"]}
        for e in t[1:]:
            if e["ev"] == "handle":
                evs += 1
                if e["after"]:
                    stored += 1
                    l, nbr = lt.get(e["inIf"], (-1, -1))
                    shapes.add(json.dumps(["h", cfg["pols"], e["hops"], l, e["usage"]]))
            elif e["ev"] == "regrun":
                for sgm in e["segs"]:
                    evs += 1
                    regd += 1
                    shapes.add(json.dumps(["r", cfg["pols"], e["type"], sgm["k"] and 1]))
            elif e["ev"] == "prop":
                for s in e["sends"]:
                    evs += 1
                    sends += 1
                    shapes.add(json.dumps(["p", cfg["pIsdLoop"], s["hops"], lt.get(s["eg"], (0, 0))[1]]))
    # vacuity guard for an only-if statement: the implementation must accept / propagate something
    if stored == 0 or sends == 0 or regd == 0:
        raise vlib.Infra("vacuous run: %d beacons stored, %d propagated, %d registered" % (stored, sends, regd))
    drift = {}
    for mm in re.finditer(r'<<"VERIF-DRIFT", \d+, "([^"]*)">>', r.out):
        drift[mm.group(1)] = drift.get(mm.group(1), 0) + 1
    for k, v in sorted(drift.items()):
        c.notes.append("MODEL-DRIFT %s x%d" % (k, v))
    c.cov["traces_validated_against_impl"] += ntr
    c.cov["evaluations"] += evs
    c.cov["distinct_nontrivial"] += len(shapes)
    c.cov["exhaustive"] = False
    c.cov["rule"] = ("an evaluation is one beacon handled by the real Handler/Store (judged on what the database "
                     "holds afterwards) or one (interface, beacon) pair sent by the real Propagator; %d handle "
                     "cases are TLC's complete table, the rest seeded; non-trivial = the beacon was stored or "
                     "sent / registered (the antecedent of the only-if clauses): %d stored, %d sent, %d handed to the registrar; distinct = distinct "
                     "(policies, ISD-AS sequence, link type, usages) resp. (loop switch, sequence, neighbour)"
                     % (ncases, stored, sends, regd))
    c.sample_trace(trace, nevents=6)
    c.assumptions += [
        "signatures are real ECDSA signatures over the real segment encoding; a 'bad' entry is signed with another key",
        "the Extender is a no-op and senders record (egress, segment): what is sent where is observed, not the extension (C23)",
        "stored = present in the sqlite beacon DB (queried by segment id) after HandleBeacon returned; every case has its own segment id",
        "the loop clause is judged on the AS sequence of the propagated beacon: the received beacon's ASes, the local AS "
        "(appended by the extender), the neighbour of the egress interface",
    ]
