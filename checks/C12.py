"""C12 - one-hop paths are issued and completed only between the right neighbours.

TLC checks the processOHP branch of RouterStep.tla on the complete table of one-hop packets
(construction-direction flag x first-hop egress interface incl. 0 / unknown / sibling-owned / down x
MAC valid or not x SrcIA / DstIA in {local, far, three neighbours} x host / sibling / external
ingress); invariant InvC12 = C12Key of RouterStepOps.tla.  The whole table (every abstract packet)
is executed on the real router.  In addition real one-hop journeys are run: local host -> this
router -> a second REAL router of the neighbour AS (own key) which completes the path; the completed
second hop is re-verified with the harness's own AES-CMAC under the neighbour's key, the path is
reversed with onehop.Path.Reverse and the reply is sent back through both routers.
"""
import _dpadv


def run(c):
    th = c.thorough
    _dpadv.pipeline(
        c, "C12",
        explores=[("ohp", False)],
        budget=10000,
        rand=[{"rand": 20000 if th else 1500, "maxhops": 4, "kinds": ["ohp"]}, {"ohp": 60 if th else 12}],
        flags=["-variants", "3" if th else "2"],
        nontrivial=lambda e: e["p"]["kind"] == "ohp")
    c.cov["rule"] = ("one event = one real one-hop (or reversed one-hop) packet through a real router, judged by C12Key "
                     "/ the ohprev record; distinct = distinct (abstract packet, disposition, egress, scope) tuples")
    c.cov["exhaustive"] = True
    c.assumptions.append("the router's own one-hop BFD packets (bfdSend) are not captured: the export offers no access "
                         "to a link's send queue")
