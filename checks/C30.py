"""C30 — paths handed to applications are live, unrevoked and end at the destination.

1. TLC explores PathLookup.tla exhaustively: for every core configuration, local AS, destination
   (AS / ISD wildcard / local AS), bounded sets of registered, expired and revoked segments, the
   pipeline split -> resolve -> find destinations -> combine -> drop expired -> drop revoked is sound
   (start, end, live, unrevoked), the issued requests are sufficient for concrete destinations, and
   the local AS yields exactly one empty path.
2. The driver runs the REAL Pather + MultiSegmentSplitter + DefaultResolver over a real sqlite path
   DB with real segments (expiries on both sides of now, margins >= 150 s) and the real in-memory
   revocation cache (running and run-out revocations, margins >= 30 s).
   Remote mode: only the local up segments are in the path DB; core and down segments come through the real
   Fetcher: real resolver (next-query bookkeeping), real DefaultRequester, scripted RPC (matching segments,
   segments for other destinations, expired and unverifiable ones), real seghandler (segment verifier with real
   chains in a real trust DB) and DefaultStorage into the real path DB; every lookup is made twice.
3. PathLookupTrace.tla: requests = PathLookupOps!SplitRequests; every returned path starts at local,
   ends at the destination (core AS of the ISD for wildcards), is unexpired and crosses no revoked
   interface; local destination => one empty path.  Completeness against CombinatorOps is drift.
"""
import json
import re

import vlib
import _tlcout


def run(c):
    drv = c.build("lookup")
    c.mc("PathLookup", "PathLookupMC.%s.cfg" % c.tier, timeout=3000)
    if c.thorough:
        # remote fetch in the model: unverifiable reply segments never reach a path (replies within the contract)
        c.mc("PathLookup", "PathLookupMC.fetch.cfg", timeout=3000)
        # replies OUTSIDE the contract (valid segments for other destinations): the design hands out a path to a
        # core AS of the own ISD for a foreign ISD wildcard. A model-only counterexample is never a verdict.
        r = c.tlc("PathLookup", "PathLookupMC.fetchextra.cfg", timeout=3000)
        c.notes.append("model with replies outside the request contract: Sound %s (expected: violated; "
                       "see design_notes/C30.md, 'Remote fetch')" % ("violated" if "Sound" in r.inv_violated else "holds"))
    if c.replay:
        trace = c.replay
    else:
        trace = c.scratch + "/lookup.ndjson"
        c.run_driver(drv, ["-n", 400 if c.thorough else 40, "-lookups", 6 if c.thorough else 5,
                           "-remote", 120 if c.thorough else 12, "-out", trace])
    r = c.validate("PathLookupTrace", "PathLookupTrace.cfg", trace, timeout=3000)
    drift = _tlcout.renorm(r)
    c.judge_trace(r, trace)
    if drift:
        c.notes.append("MODEL-DRIFT (not a verdict): %s" % drift)
    st = r.stats
    if not c.replay and (st.get("paths", 0) == 0 or st.get("expiredcombos", 0) == 0 or st.get("revokedcombos", 0) == 0
                          or st.get("remotewithpaths", 0) == 0):
        raise vlib.Infra("vacuous run: %s" % st)
    classes = set()
    with open(trace) as f:
        for line in f:
            ev = json.loads(line)
            if ev.get("ev") == "lookup":
                classes.add((ev["cls"], len(ev["reqs"]), min(len(ev["paths"]), 3), len(ev["revs"]) > 0,
                             ev["dst"]["s"] == ev["local"]["s"], ev["dst"]["isd"] == 0))
    c.cov["traces_validated_against_impl"] += st.get("lookups", 0)
    c.cov["evaluations"] += st.get("lookups", 0) + st.get("paths", 0)
    c.cov["distinct_nontrivial"] += len(classes)
    c.cov["rule"] = ("an evaluation is one lookup (request set judged) or one returned path (start, end, expiry, "
                     "revocations judged); distinct = distinct (source/destination kind class, number of requests, "
                     "number of paths capped at 3, revocations present, local destination, ISD 0) tuples; %d paths "
                     "returned, %d expired and %d revoked combinations were withheld"
                     % (st.get("paths", 0), st.get("expiredcombos", 0), st.get("revokedcombos", 0)))
    c.notes.append("trace stats: %s" % st)
    c.sample_trace(trace, nevents=2)
    c.assumptions += [
        "segments reach the Pather only through the real DefaultResolver over a real path DB (every request is "
        "answered locally), so a segment that does not satisfy an issued request cannot appear",
        "expiry and revocation instants are >= 150 s / >= 30 s away from the wall clock",
        "for ISD wildcards 'a core AS of that ISD' is judged against the inspector's core list",
    ]
