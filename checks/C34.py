"""C34 — only properly formed chains rooted in an active TRC are trusted.

1. TLC explores spec/TrustChain.tla: (A) chains of 1-3 certificates from a pool of correct and
   mis-issued ones (AS signed by the root directly, AS under a CA of an unknown root, CA twin with
   another key, malformed key usages / constraints / ISD-AS, validity not covered) x TRC (root R1,
   rotated root R2, both) x verification times one second either side of every boundary; (B) TRC
   histories S1 -> S2 with rotated root and grace period placed so that "now" falls into each region
   of the time line, with chains in the database and at the remote; single-chain cases are also asked
   with a query validity 10 days in the past / future (a chain is handed out only if it verifies NOW,
   the AS certificate included).  In-model: procedures shaped
   like cppki.VerifyChain and activeTRCs/filterVerifiableChains imply the statement's ChainOK /
   ProviderOK.  Every case is a scenario.
2. harness/cmd/trust -mode chains builds real certificates / TRCs, calls cppki.VerifyChain with the
   explicit CurrentTime (A) and FetchingProvider.GetChains over a real in-memory sqlite trust DB
   with a scripted remote (B; all boundaries >= 2 days from the wall clock).
   (C) TRC update during operation: the store holds S1 and up to two chains, chains are requested,
   S2 arrives through the real NotifyTRC (scripted remote serving the real S2), chains are requested
   again; a trust.Verifier with its real go-cache checks a message signed under the old root before
   and after, a fresh verifier after.  spec/ProviderCache.tla is the small state machine over
   (time, database, cache) for the cache in front of the provider.
3. TLC (spec/TrustChainTrace.tla) judges (history: every hand-out satisfies ProviderOK for the TRCs in
   the store at that moment; a stale hit of the verifier's cache is drift: bounded by its expiration): accepted => ChainOK; handed out => ProviderOK.
"""
import _pki
import vlib


def run(c):
    drv = c.build("trust")
    trace = c.scratch + "/trace.ndjson"
    if c.replay:
        trace = c.replay
    else:
        r = c.mc("TrustChain", "TrustChainMC.%s.cfg" % c.tier, workers=4, timeout=1500)
        cases = _pki.tlc_json_lines(r.out, "SCN")
        hdr = [_pki.tlc_json_lines(r.out, t) for t in ("POOLA", "POOLB", "TRCSA")]
        if any(len(h) != 1 for h in hdr) or len(cases) != r.distinct - 1:
            raise vlib.Infra("generator output incomplete: %d cases, %d states" % (len(cases), r.distinct))
        cases.sort(key=lambda s: 0 if '"kind":"verify"' in s else (1 if '"kind":"provider"' in s else 2))
        # the verifier's chain cache in front of the provider while a TRC update arrives
        if c.thorough:
            c.mc("ProviderCache", "ProviderCacheMC.cfg", workers=2, timeout=600)
            ns = c.tlc("ProviderCache", "ProviderCacheMC.nostale.cfg", workers=1, timeout=600)
            if "NoStale" in ns.inv_violated:
                c.notes.append("model: a verifier cache hit can hand out the old-root chain after the grace period, "
                               "for at most the cache expiration (StaleBounded holds, NoStale does not)")
        scn = c.scratch + "/scn.ndjson"
        _pki.write_lines(scn, ['{"poola":%s,"poolb":%s,"trcsa":%s}' % (hdr[0][0], hdr[1][0], hdr[2][0])] + cases)
        c.run_driver(drv, ["-mode", "chains", "-scn", scn, "-out", trace], timeout=1800)
    r = c.validate("TrustChainTrace", "TrustChainTrace.cfg", trace, timeout=1800)
    _pki.judge_table(c, r, trace)
    if not c.replay:
        _pki.need(c, r, "verified", "chain accepted by VerifyChain")
        _pki.need(c, r, "handed_out", "chain handed out by the provider")
        _pki.need(c, r, "handed_out_via_grace", "chain handed out through the predecessor TRC in grace")
        _pki.need(c, r, "handed_out_after_update", "chain handed out after a TRC update arrived")
    _pki.drift(c, r)
    n, distinct = vlib.count_distinct(
        trace, lambda e: [e["chain"], e["trc"], e["t"]] if e.get("ev") == "verify" and e["ok"] else
        ([e["tl"], e["db"], e["remote"]] if e.get("ev") == "provider" and e["ret"] else
         ([e["tl"], e["db"], "history"] if e.get("ev") == "history" and (e["get1"] or e["get2"]) else None)))
    c.cov["traces_validated_against_impl"] += 1
    c.cov["evaluations"] += n - 2
    c.cov["distinct_nontrivial"] += distinct
    c.cov["exhaustive"] = not c.replay
    c.cov["rule"] = ("one evaluation = one VerifyChain call (chain, TRC, time) or one GetChains call (time line, "
                     "DB chains, remote chains); non-trivial = the code accepted / handed out a chain (antecedent "
                     "of the only-if statement); exhaustive = every case of the bounded TLC space was executed")
    for k in ("verified", "handed_out", "handed_out_via_grace", "handed_out_after_update", "stale_cache_accepts"):
        c.cov[k] = r.stats.get(k, 0)
    c.sample_trace(trace, nevents=4)
    c.assumptions += [
        "provider cases run against the wall clock; every validity / grace boundary is >= 2 days away from it",
        "exact boundaries are tested through cppki.VerifyChain's CurrentTime parameter only",
        "weak reading: the statement does not require the AS certificate itself to be valid at the verification "
        "time (the code does; difference reported as drift only)"]
