"""C23 — beacon extension produces verifiable, correctly bounded AS entries.

1. TLC explores Beaconing.tla exhaustively: a beacon travelling down a chain of ASes, every
   (ingress, egress) request (consistent or not), every list of one or two signer validity windows
   of a timeline around the segment timestamp / current time, every configured maximum: entries name
   local AS and neighbour, signatures chain over info + all earlier entries and signatures by a signer
   whose window covers the hop lifetime, symbolic MACs chain over the accumulator, expiry is bounded
   by maximum and signer expiry (and maximal), positions are consistent.
2. The driver runs the REAL DefaultExtender with REAL trust.Signers over x509 chains whose windows
   are placed on the same kind of timeline (margins >= 60 s), verifies the result with the REAL
   segverifier / trust.Verifier over a real in-memory trust DB, probes signature coverage by
   altering info / earlier entries / earlier signatures, and re-computes MACs independently.
   Concurrent mode: the REAL Originator.Run and Propagator.Run (one goroutine per interface and per
   beacon, all sharing one extender, recording sender, MAC instances that yield in the middle of
   Write) - every beacon handed to a sender is judged like a sequential call.
3. BeaconingTrace.tla judges every call with BeaconingOps!ExtendOutcome / the C23 monitor.
"""
import json
import re

import vlib
import _tlcout


def run(c):
    drv = c.build("beacon")
    c.mc("Beaconing", "BeaconingMC.%s.cfg" % c.tier, timeout=3000)
    if c.replay:
        trace = c.replay
    else:
        trace = c.scratch + "/beacon.ndjson"
        c.run_driver(drv, ["-n", 3000 if c.thorough else 360, "-conc", 12 if c.thorough else 3, "-out", trace])
    r = c.validate("BeaconingTrace", "BeaconingTrace.cfg", trace, timeout=3000)
    drift = _tlcout.renorm(r)
    c.judge_trace(r, trace)
    if drift:
        c.notes.append("MODEL-DRIFT (not a verdict): %s" % drift)
    st = r.stats
    if not c.replay and (st.get("ok", 0) == 0 or st.get("inconsistent", 0) == 0 or st.get("shortened", 0) == 0):
        raise vlib.Infra("vacuous run: %s" % st)
    shapes = set()
    with open(trace) as f:
        for line in f:
            ev = json.loads(line)
            if ev.get("ev") != "extend":
                continue
            e = ev["entry"]
            shapes.add((ev["n"], ev["in"] == 0, ev["eg"] == 0, len(ev["peers"]), len(e["peers"]), len(ev["signers"]),
                        ev["maxexp"], e["exp"], ev["err"], ev["msg"][:30]))
    c.cov["traces_validated_against_impl"] += st.get("calls", 0)
    c.cov["evaluations"] += st.get("calls", 0) + st.get("covermutations", 0)
    c.cov["distinct_nontrivial"] += len(shapes)
    c.cov["rule"] = ("an evaluation is one Extend call or one signature-coverage probe judged by TLC; "
                     "distinct = distinct (position, ingress/egress zero-ness, peers requested/kept, number of "
                     "signers, maximum, resulting exp, outcome class) tuples; %d accepted, %d with inconsistent "
                     "ingress/egress, %d with exp shortened by the signer expiry"
                     % (st.get("ok", 0), st.get("inconsistent", 0), st.get("shortened", 0)))
    c.notes.append("trace stats: %s" % st)
    c.sample_trace(trace, nevents=2)
    c.assumptions += [
        "signer validity boundaries are >= 60 s away from the segment timestamp and from the wall clock "
        "(the current time is read inside Extend); boundary instants themselves are explored only in the model",
        "MAC validity is judged through an independent AES-CMAC re-computation in the driver (abstraction "
        "function), signature validity through the real trust.Verifier / segverifier",
        "which covering signer is chosen and maximality of the expiry are conformance details (drift), the "
        "statement only bounds the expiry by the signer actually used",
    ]
