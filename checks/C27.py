"""C27 — the beacon DB and the path-segment DB behave like their abstract stores.

1. TLC (SegDB.tla) explores the abstract store under all operation sequences (exhaustive configs:
   equal abstract stores identified; step properties: versions never go back, types/groups only
   accumulate, clean-up exact, next-query monotone, candidate lists shortest-first) and ENUMERATES all
   operation histories of length 3 over the operation alphabet (generator configs, history in the state).
2. harness/cmd/segdb executes every generated history, plus seeded longer random histories over a
   richer pool, on the REAL sqlite backends (in memory) with real signed segments and logs every
   result in abstract form.
3. SegDBTrace.tla replays each history on the abstract store (same operators, SegDBOps.tla) and
   compares every result: full conformance is the monitor.
"""
import json
import os
import re
import threading
import time

import vlib

SCN = re.compile(r'^<<"(SCN|POOL)", "(.*)">>$')


def scenarios(out, kind, f):
    """TLC generator output -> scenario lines for the driver. Returns the number of histories."""
    n = 0
    pool = None
    hist = []
    for line in out.splitlines():
        m = SCN.match(line.strip())
        if not m:
            continue
        val = json.loads(json.loads('"' + m.group(2) + '"'))
        if m.group(1) == "POOL":
            pool = val
        else:
            hist.append(val)
    if pool is None or not hist:
        raise vlib.Infra("generator for kind %s printed no pool / no histories" % kind)
    f.write(json.dumps({"kind": kind, "pool": pool}) + "\n")
    for h in hist:
        f.write(json.dumps({"steps": h}) + "\n")
        n += 1
    return n


def mutators(t):
    return [e for e in t if e["ev"] in ("pins", "pdel", "pexp", "nqins", "bins", "bdel", "bexp")]


def run(c):
    drv = c.build("segdb")
    if c.replay and '"src":"conc"' in open(c.replay).readline():
        n = sum(1 for _ in open(c.replay))
        r = c.validate("SegDBConcTrace", "SegDBConcTrace.cfg", c.replay, deterministic=False)
        if r.done != n:
            c.report("concurrent:history-not-linearizable", "replayed history has no linearization", c.replay)
        c.cov["traces_validated_against_impl"] += 1
        return
    if c.replay:
        r = c.validate("SegDBTrace", "SegDBTrace.cfg", c.replay)
        c.judge_trace(r, c.replay)
        c.cov["traces_validated_against_impl"] += 1
        return

    # 1. exhaustive model + history generation (the two DB kinds in parallel)
    results = {}
    errs = []

    def gen(kind):
        try:
            if c.thorough and kind != "n":
                results["mc" + kind] = c.mc("SegDB", "SegDBMC.%s.thorough.cfg" % kind, workers=6, timeout=2400)
            results[kind] = c.mc("SegDB", "SegDBGen.%s.%s.cfg" % (kind, c.tier), workers=6, timeout=2400)
        except Exception as e:     # re-raised in the main thread
            errs.append(e)

    def rel():
        # implementation-shaped layer: sqlite tables + join query refine the abstract store
        try:
            c.mc("SegDBRel", "SegDBRel.cfg", workers=4, timeout=2400)
            if c.thorough:
                r = c.tlc("SegDBRel", "SegDBRelNoFK.cfg", workers=4, timeout=1200)
                if "Represents" in r.inv_violated or "QueriesAgree" in r.inv_violated:
                    c.notes.append("model-only counterexample (expected): without ON DELETE CASCADE a segment inserted "
                                   "after a deletion inherits the deleted row's types/groups/interfaces "
                                   "(the defect found in /repo and fixed there)")
                else:
                    raise vlib.Infra("SegDBRelNoFK.cfg: expected counterexample not found")
        except Exception as e:
            errs.append(e)

    conc = {}

    def concurrent():
        # 2-3 goroutines on one file-based database; TLC searches a linearization of every history
        try:
            tr = os.path.join(c.scratch, "conc.ndjson")
            c.run_driver(drv, ["-conc", 300 if c.thorough else 45, "-out", tr], timeout=3000)
            r = c.validate("SegDBConcTrace", "SegDBConcTrace.cfg", tr, deterministic=False, timeout=3000)
            conc["r"], conc["trace"] = r, tr
        except Exception as e:
            errs.append(e)

    ths = [threading.Thread(target=gen, args=(k,)) for k in ("p", "b", "n")] + [threading.Thread(target=rel),
                                                                           threading.Thread(target=concurrent)]
    for t in ths:
        t.start()
    for t in ths:
        t.join()
    if errs:
        raise errs[0]
    t_gen = time.time() - c.t0
    nhist = 0
    nrand = 1200 if c.thorough else 60
    traces = {}

    # 2. the real databases, 3. trace validation (the two DB kinds in parallel)
    def execute(kind):
        try:
            scn = os.path.join(c.scratch, "scn-%s.ndjson" % kind)
            with open(scn, "w") as f:
                results["n" + kind] = scenarios(results[kind].out, kind, f)
                if kind == "p":     # the next-query-only histories (all keys differing in one component)
                    results["n" + kind] += scenarios(results["n"].out, "p", f)
            trace = os.path.join(c.scratch, "segdb-%s.ndjson" % kind)
            c.run_driver(drv, ["-scn", scn, "-kind", kind, "-n", nrand, "-len", 40 if c.thorough else 25,
                               "-q", 2, "-out", trace] + (["-obsall"] if c.thorough else []), timeout=3000)
            results["t_drv" + kind] = time.time() - c.t0 - t_gen
            # chunks cut at reset records
            chunks = []
            cur, curn = None, 0
            with open(trace) as f:
                for line in f:
                    if cur is None or (curn >= 80000 and line.startswith('{"ev":"reset"')):
                        if cur:
                            cur.close()
                        p = os.path.join(c.scratch, "chunk-%s-%d.ndjson" % (kind, len(chunks) + 1))
                        chunks.append(p)
                        cur, curn = open(p, "w"), 0
                    cur.write(line)
                    curn += 1
            if cur:
                cur.close()
            traces[kind] = [(p, c.validate("SegDBTrace", "SegDBTrace.cfg", p, timeout=3000)) for p in chunks]
        except Exception as e:
            errs.append(e)

    ths = [threading.Thread(target=execute, args=(k,)) for k in ("p", "b")]
    for t in ths:
        t.start()
    for t in ths:
        t.join()
    if errs:
        raise errs[0]
    # concurrent histories: the first one TLC could not linearize (if any)
    r, tr = conc["r"], conc["trace"]
    lines = open(tr).read().splitlines()
    starts = [i + 1 for i, l in enumerate(lines) if '"ev":"reset"' in l]
    if r.done != len(lines):
        lin = [int(x) for x in re.findall(r'<<"VERIF-HIST", (\d+)>>', r.out)]
        nxt = [x for x in starts if x > (max(lin) if lin else 0)]
        if not nxt or (r.other_error and "VERIF" not in r.other_error and not lin and "deadlock" not in r.out.lower()
                       and not r.completed):
            raise vlib.Infra("concurrent trace validation did not run: %s" % r.out[-1500:])
        a = nxt[0]
        b = ([x for x in starts if x > a] + [len(lines) + 1])[0]
        rp = os.path.join(c.scratch, "conc-replay.ndjson")
        with open(rp, "w") as f:
            f.write("\n".join(lines[a - 1:b - 1]) + "\n")
        kind = json.loads(lines[a - 1]).get("kind", "?")
        c.report("concurrent[%s]:history-not-linearizable" % kind,
                 "no linearization of the concurrent history starting at line %d explains the logged results" % a, rp)
    nconc = len(starts)
    ncalls = len(lines) - nconc
    nerr = sum(1 for l in lines if '"err":1' in l)
    c.notes.append("concurrent histories linearized by TLC: %d (%d calls, %d of them returned an error and are "
                   "treated as without effect)" % (nconc, ncalls, nerr))
    c.cov["traces_validated_against_impl"] += nconc
    c.cov["evaluations"] += ncalls
    for kind in ("p", "b"):
        nhist += results["n" + kind]
        for (p, r) in traces[kind]:
            c.judge_trace(r, p)
    t_drv = max(results["t_drvp"], results["t_drvb"])
    c.notes.append("wall: build+TLC model/generator %.0fs, driver %.0fs, trace validation %.0fs" %
                   (t_gen, t_drv, time.time() - c.t0 - t_gen - t_drv))
    ntr = 0
    evs = 0
    shapes = set()
    alltraces = [t for kind in ("p", "b") for t in vlib.split_traces(os.path.join(c.scratch, "segdb-%s.ndjson" % kind))]
    for t in alltraces:
        ntr += 1
        evs += len(t) - 1
        m = mutators(t)
        # non-trivial: an insert met an already stored id (update or ignore) or a deletion removed something
        if any(e["ev"] in ("pins", "bins") and e["ins"] == 0 for e in m) or \
                any(e["ev"] in ("pexp", "bexp") and e["ret"] > 0 for e in m):
            shapes.add(json.dumps([{k: v for k, v in e.items() if k not in ("err",)} for e in m],
                                  sort_keys=True))
    c.cov["traces_validated_against_impl"] += ntr
    c.cov["evaluations"] += evs
    c.cov["distinct_nontrivial"] += len(shapes)
    c.cov["exhaustive"] = False
    c.cov["rule"] = ("a trace is one operation history on a fresh real sqlite database (%d of them are ALL "
                     "histories of length 3 over the model's alphabet, the rest seeded random ones); an "
                     "evaluation is one logged operation result compared by TLC with the abstract store; "
                     "non-trivial = some insert met an already stored id (update/ignore) or a clean-up "
                     "removed an entry; distinct = distinct sequences of mutating operations with results"
                     % nhist)
    c.notes.append("TLC-generated histories executed: %d" % nhist)
    c.sample_trace(os.path.join(c.scratch, "segdb-p.ndjson"), nevents=8)
    c.assumptions += [
        "segments returned by the databases are identified by their raw signed bytes (pool index 0 = unknown)",
        "one in-memory sqlite database serves 200 consecutive histories and is emptied in between by the "
        "harness with plain SQL (opening costs 50 ms); a fresh one is opened every 200 histories",
        "LastUpdated values and result order (other than candidate length order) are not compared",
        "times passed to clean-up / validity filters are whole seconds",
    ]
