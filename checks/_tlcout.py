"""TLC's pretty printer wraps tuples longer than ~80 columns over several lines; vlib's regexes are
single-line.  renorm(r) re-extracts VERIF-BAD / VERIF-DRIFT tuples from the TLC output tolerant of
line breaks (keys of my specifications are kept short, this is a second line of defence)."""
import re

_T = r'<<\s*"VERIF-%s",\s*(\d+),\s*"((?:[^"\\]|\\.)*)"\s*>>'


def renorm(r):
    bad = [(int(m.group(1)), m.group(2)) for m in re.finditer(_T % "BAD", r.out)]
    seen = set()
    r.bad = [b for b in bad if not (b in seen or seen.add(b))]
    drift = {}
    for m in re.finditer(_T % "DRIFT", r.out):
        drift[m.group(2)] = drift.get(m.group(2), 0) + 1
    return drift
