"""C37 — certificate renewal is granted only to the certified AS itself.

1. TLC explores spec/TrustRenew.tla: TRC time lines (rotated root, grace period) x 11 included
   certificate sets (chain under new / old / unknown root, expired, other AS, swapped order, one or
   three certificates, AS with a foreign CA, two CAs) x 10 signer-info sets (good, none, duplicate,
   good + CA, CA only, foreign key, signature over another request, another AS's signer, CA key under
   the AS's identifier) x 4 CSRs (good, other ISD-AS, broken self-signature, no ISD-AS), plus
   CAPolicy.CreateChain for signing times and validities around the CA certificate's validity.
   In-model: the procedure shaped like VerifyCMSSignedRenewalRequest accepts only what RenewRule
   (from the statement) allows.  Every case is a scenario.
2. harness/cmd/renewal builds real chains, CSRs and CMS messages, calls the real
   RequestVerifier.VerifyCMSSignedRenewalRequest over a real in-memory sqlite trust DB at wall-clock
   now (boundaries >= 2 days away) and the real CAPolicy.CreateChain with explicit CurrentTime.
   Every request also goes in-process through the gRPC handler layer: renewalgrpc.RenewalServer ->
   renewalgrpc.CMS -> the real RequestVerifier and renewal.ChainBuilder/CAPolicy; the issued chain is
   taken from the signed response (the request format without CMS envelope no longer exists: a request
   without CmsSignedRequest must be refused).
3. TLC (spec/TrustRenewTrace.tla) judges: accepted => RenewRule = ""; issued => inside the CA's
   validity with the requested key and subject, a valid chain.
"""
import _pki
import vlib


def run(c):
    drv = c.build("renewal")
    trace = c.scratch + "/trace.ndjson"
    if c.replay:
        trace = c.replay
    else:
        r = c.mc("TrustRenew", "TrustRenewMC.%s.cfg" % c.tier, workers=4, timeout=1500)
        cases = _pki.tlc_json_lines(r.out, "SCN")
        pool = _pki.tlc_json_lines(r.out, "POOL")
        if len(pool) != 1 or len(cases) != r.distinct - 1:
            raise vlib.Infra("generator output incomplete: %d cases, %d states" % (len(cases), r.distinct))
        scn = c.scratch + "/scn.ndjson"
        _pki.write_lines(scn, ['{"pool":%s}' % pool[0]] + cases)
        c.run_driver(drv, ["-scn", scn, "-out", trace], timeout=1800)
    r = c.validate("TrustRenewTrace", "TrustRenewTrace.cfg", trace, timeout=1800)
    _pki.judge_table(c, r, trace)
    if not c.replay:
        _pki.need(c, r, "accepted", "accepted renewal request")
        _pki.need(c, r, "accepted_via_grace", "renewal request accepted through the grace period")
        _pki.need(c, r, "issued", "issued chain")
        _pki.need(c, r, "issued_by_handler", "chain issued through the gRPC handler layer")
    _pki.drift(c, r)
    n, distinct = vlib.count_distinct(
        trace, lambda e: None if e.get("ev") not in ("renew", "issue") or not e["ok"] else
        {k: v for k, v in e.items() if k in ("ev", "tl", "chain", "sis", "csr", "t", "d")})
    c.cov["traces_validated_against_impl"] += 1
    c.cov["evaluations"] += n - 1
    c.cov["distinct_nontrivial"] += distinct
    c.cov["exhaustive"] = not c.replay
    c.cov["rule"] = ("one evaluation = one renewal request (or one CreateChain call) executed on the real code; "
                     "non-trivial = accepted / issued (antecedent of the only-if statement); exhaustive = the full "
                     "product space of the TLC model was executed")
    for k in ("accepted", "accepted_via_grace", "issued", "issued_by_handler"):
        c.cov[k] = r.stats.get(k, 0)
    c.sample_trace(trace, nevents=4)
    c.assumptions += [
        "request verification runs against the wall clock; every validity / grace boundary is >= 2 days away",
        "CreateChain boundaries are exact through CAPolicy.CurrentTime (seconds)",
        "forged signer infos: foreign key, CA key, signature over another request; the CMS certificate set is "
        "unordered, so [CA, AS] is the same chain as [AS, CA]"]
