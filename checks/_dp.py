"""Shared helper of the data-plane journey checks (C02, C03, C04, C07, C10, C22).

One driver (harness/cmd/dp), one trace specification (spec/DataplaneTrace.tla) whose constant Prop
selects the property monitor, one exhaustive model (spec/Dataplane.tla)."""
import json
import vlib


def journeys(trace):
    """Yield (reset_record, [events]) per journey; topo records are skipped."""
    cur = None
    evs = []
    with open(trace) as f:
        for line in f:
            e = json.loads(line)
            if e["ev"] == "topo":
                continue
            if e["ev"] == "reset":
                if cur is not None:
                    yield cur, evs
                cur, evs = e, []
            elif cur is not None:
                evs.append(e)
    if cur is not None:
        yield cur, evs


def shape(reset):
    p = reset["pkt"]
    return (tuple(p["sl"]), tuple((i["c"], i["p"]) for i in p["infos"]), reset["pt"], reset["mode"],
            json.dumps(reset.get("desc"), sort_keys=True))


def validate(c, prop, trace, timeout=1500):
    r = c.validate("DataplaneTrace", "DataplaneTrace.%s.cfg" % prop, trace, timeout=timeout)
    c.judge_trace(r, trace)
    drift = sorted(set(m for m in __import__("re").findall(r'"VERIF-DRIFT",\s*\d+,\s*"([^"]*)"', r.out)))
    if drift:
        c.notes.append("MODEL-DRIFT (not a verdict): " + "; ".join(drift[:10]))
    return r


def slice_journeys(trace, out, keep):
    """Write the topo records and the journeys selected by keep(reset) to out."""
    n = 0
    with open(trace) as f, open(out, "w") as g:
        on = False
        for line in f:
            if '"ev":"topo"' in line:
                g.write(line)
                continue
            if '"ev":"reset"' in line:
                on = keep(json.loads(line))
                n += 1 if on else 0
            if on:
                g.write(line)
    return n
