"""Shared helper of the data-plane journey checks (C02, C03, C04, C07, C10, C22).

One driver (harness/cmd/dp), one trace specification (spec/DataplaneTrace.tla) whose constant Prop
selects the property monitor, one exhaustive model (spec/Dataplane.tla)."""
import json
import vlib


def journeys(trace):
    """Yield (reset_record, [events]) per journey; topo records are skipped."""
    cur = None
    evs = []
    with open(trace) as f:
        for line in f:
            e = json.loads(line)
            if e["ev"] == "topo":
                continue
            if e["ev"] == "reset":
                if cur is not None:
                    yield cur, evs
                cur, evs = e, []
            elif cur is not None:
                evs.append(e)
    if cur is not None:
        yield cur, evs


def shape(reset):
    p = reset["pkt"]
    return (tuple(p["sl"]), tuple((i["c"], i["p"]) for i in p["infos"]), reset["pt"], reset["mode"],
            json.dumps(reset.get("desc"), sort_keys=True))


def validate(c, prop, trace, timeout=1500):
    r = c.validate("DataplaneTrace", "DataplaneTrace.%s.cfg" % prop, trace, timeout=timeout)
    c.judge_trace(r, trace)
    _fix_replays(c, trace)
    drift = sorted(set(m for m in __import__("re").findall(r'"VERIF-DRIFT",\s*\d+,\s*"([^"]*)"', r.out)))
    if drift:
        c.notes.append("MODEL-DRIFT (not a verdict): " + "; ".join(drift[:10]))
    return r


def slice_journeys(trace, out, keep):
    """Write the topo records and the journeys selected by keep(reset) to out."""
    n = 0
    with open(trace) as f, open(out, "w") as g:
        on = False
        for line in f:
            if '"ev":"topo"' in line:
                g.write(line)
                continue
            if '"ev":"reset"' in line:
                on = keep(json.loads(line))
                n += 1 if on else 0
            if on:
                g.write(line)
    return n


def model(c, workers=None):
    """Exhaustive honest model over the topology families the driver defines (T1-T3)."""
    drv = c.build("dp")
    topos = c.scratch + "/topos.ndjson"
    c.run_driver(drv, ["-mode", "topo", "-topos", "T1,T2,T3", "-out", topos])
    r = c.mc("Dataplane", "DataplaneMC.%s.cfg" % c.tier, extra_files=[(topos, "topos.ndjson")],
             workers=workers or (8 if c.thorough else 4), timeout=3000)
    if r.distinct < 1000:
        raise vlib.Infra("Dataplane model explored only %d states: vacuous" % r.distinct)
    return r


def coverage(c, trace, nontrivial, rule, sample_events=8):
    ntr = nev = 0
    shapes = set()
    skipped = 0
    with open(trace) as f:
        for line in f:
            if '"ev":"skip"' in line:
                skipped += 1
    for r, evs in journeys(trace):
        ntr += 1
        nev += sum(1 for e in evs if e["ev"] in ("hop", "scmp"))
        if nontrivial(r, evs):
            shapes.add((r["topo"],) + shape(r))
    c.cov["traces_validated_against_impl"] += ntr
    c.cov["evaluations"] += nev
    c.cov["distinct_nontrivial"] += len(shapes)
    c.cov["rule"] = rule
    if skipped:
        c.notes.append("%d combined paths could not be serialized by slayers (more than 64 hop "
                       "fields) and were skipped" % skipped)
    if len(c.cov["samples"]) < 3:
        for r, evs in journeys(trace):
            c.sample({"journey": {k: r[k] for k in ("id", "topo", "src", "dst", "ifs", "mode", "pt")},
                      "events": [{k: e.get(k) for k in ("ev", "j", "as", "r", "scope", "inif", "disp",
                                                        "egress", "out", "dst")}
                                 for e in evs[:sample_events]]})
            if len(c.cov["samples"]) >= 3:
                break


def _fix_replays(c, trace):
    """A stored replay slice starts at a reset record; prepend the topology record it refers to, so
    that `bin/check <ID> --replay <slice>` is self-contained."""
    topos = {}
    for (key, rp, what) in c.violations:
        if not rp:
            continue
        try:
            lines = open(rp).read().splitlines()
            if not lines or '"ev":"topo"' in lines[0]:
                continue
            if not topos:
                with open(trace) as f:
                    for line in f:
                        if '"ev":"topo"' in line:
                            topos[json.loads(line)["t"]["name"]] = line.rstrip("\n")
            name = json.loads(lines[0]).get("topo")
            if name in topos:
                with open(rp, "w") as g:
                    g.write(topos[name] + "\n" + "\n".join(lines) + "\n")
        except Exception:
            pass
