"""C32 — TRC updates are accepted only with the required votes and signatures.

1. TLC explores spec/TRCUpdate.tla: five accepted signed TRCs (regular update without change, regular
   update re-issuing a regular voter and the root, sensitive update with re-issued/added voters and a
   new quorum, sensitive update with quorum 1, base TRC) with up to two deviations each (ID, flags,
   quorum/AS lists, certificate slots, vote list edits incl. duplicates / wrong class / out of range,
   signer infos absent / good / forged; certificate order swaps; "another voter votes instead"; a sixth
   accepted update re-lists a re-issued regular voter at another position).  A panic of the
   verification code is recorded as an observation (key verification-panics), it does not kill the run.  In-model: the decision procedure shaped like
   SignedTRC.Verify + TRC.ValidateUpdate + verifyAll accepts only what AcceptOK (written from the
   statement and doc/cryptography/trc.rst) allows.  Every distinct case is a scenario.
2. harness/cmd/trc -mode update builds every case with real x509 certificates, the real TRC encoding
   and real CMS signer infos (forged ones: other key, signature over the predecessor, corrupted
   signature), runs DecodeSignedTRC + SignedTRC.Verify(pred) and Verify on the direct value.
3. TLC (spec/TRCUpdateTrace.tla) judges: accepted => AcceptOK.
"""
import _pki
import vlib


def run(c):
    drv = c.build("trc")
    trace = c.scratch + "/trace.ndjson"
    if c.replay:
        trace = c.replay
    else:
        r = c.mc("TRCUpdate", "TRCUpdateMC.%s.cfg" % c.tier, workers=4 if not c.thorough else 8, timeout=2400)
        pool = _pki.tlc_json_lines(r.out, "POOL")
        cases = _pki.tlc_json_lines(r.out, "SCN")
        if len(pool) != 1 or len(cases) != r.distinct:
            raise vlib.Infra("generator output incomplete: %d pools, %d cases, %d states" %
                             (len(pool), len(cases), r.distinct))
        if c.thorough:
            # depth 3 on the four update bases: checked in-model completely; every 23rd case (residue
            # chosen by the seed) is added to the scenarios executed on the real code
            cfg = open(vlib.SPEC + "/TRCUpdateMC.deep.cfg").read().replace("SampleRes = 0", "SampleRes = %d" % (c.seed % 23))
            cfgp = c.scratch + "/deepseed.cfg"
            open(cfgp, "w").write(cfg)
            rd = c.mc("TRCUpdate", "TRCUpdateMC.deepseed.cfg", workers=8, timeout=3000,
                      extra_files=[(cfgp, "TRCUpdateMC.deepseed.cfg")])
            deep = _pki.tlc_json_lines(rd.out, "SCN")
            if not deep:
                raise vlib.Infra("deep generator produced no sampled case")
            seen = set(cases)
            cases += [x for x in deep if x not in seen]
            c.notes.append("depth-3 cases: %d states checked in-model, %d sampled cases executed" % (rd.distinct, len(deep)))
        scn = c.scratch + "/scn.ndjson"
        _pki.write_lines(scn, ['{"pool":%s}' % pool[0]] + cases)
        c.run_driver(drv, ["-mode", "update", "-scn", scn, "-out", trace], timeout=1800)
    r = c.validate("TRCUpdateTrace", "TRCUpdateTrace.cfg", trace, timeout=2400)
    _pki.judge_table(c, r, trace)
    if not c.replay:
        _pki.need(c, r, "accepted_sensitive", "accepted sensitive update")
        _pki.need(c, r, "accepted_regular", "accepted regular update")
        _pki.need(c, r, "accepted_base", "accepted base TRC")
    _pki.drift(c, r)
    n, distinct = vlib.count_distinct(
        trace, lambda e: None if e.get("ev") != "case" or not (e["wire"] or e["direct"]) else
        [e["hp"], e["pred"], e["next"], e["sk"]])
    c.cov["traces_validated_against_impl"] += 1
    c.cov["evaluations"] += n - 1
    c.cov["distinct_nontrivial"] += distinct
    c.cov["exhaustive"] = not c.replay      # of the depth-2 space; depth 3 is sampled (thorough)
    c.cov["rule"] = ("one evaluation = one abstract (predecessor, successor payload, vote list, signer info set) "
                     "executed on DecodeSignedTRC + SignedTRC.Verify; non-trivial = accepted by the code (antecedent "
                     "of the only-if statement); distinct abstract cases; exhaustive = every case of the bounded TLC "
                     "space was executed")
    for k in ("accepted_sensitive", "accepted_regular", "accepted_base"):
        c.cov[k] = r.stats.get(k, 0)
    c.sample_trace(trace, nevents=3)
    c.assumptions += [
        "the predecessor is a valid, trusted TRC (quorum 1 or 2; two sensitive, two regular voters, one root)",
        "signatures are real ECDSA/CMS; forged signer infos are limited to: other key, signature over another "
        "payload, corrupted signature bytes",
        "concretisation tables of harness/internal/pki are faithful"]
