"""C40 — DRKey keys are only handed to the entities they are bound to.

1. TLC explores the code-shaped admission model (DRKeyAdmit.tla: one action per check of each of the
   six handlers, in source order) over the complete abstract request lattice (46 656 requests) and
   checks served => Admit (the statement's predicate, DRKeyOps.tla) and that the key asked of the
   engine is the one of the authenticated / named entity.  The same run prints every lattice point.
2. Thorough tier: a deliberately broken variant of the model (host-host served to any named host) must
   violate the invariant (non-vacuity of the model check; never a verdict).
3. The Go driver executes every lattice point against the real control/drkey/grpc.Server handlers
   (recording engine, fake certificate verifier): directly with a peer.Peer in the context, or through
   the in-process connect-RPC chain (generated client -> pkg/connect.AttachPeer -> connect mux ->
   control/drkey/connect.Server), where peer address and TLS state are extracted by the real code.
4. TLC validates the recorded outcomes against DRKeyAdmitTrace.tla (served => Admit /\ key term).
"""
import json
import os

import _crypto
import vlib


def run(c):
    drv = c.build("drkeyadmit")
    if c.replay:
        trace = c.replay
    else:
        r = c.mc("DRKeyAdmit", "DRKeyAdmitMC.%s.cfg" % c.tier, timeout=900)
        scns = sorted(set(l.strip().strip('"')[4:] for l in r.out.splitlines() if l.startswith('"SCN|')))
        if len(scns) != 46656:
            raise vlib.Infra("generator printed %d lattice points, expected 46656" % len(scns))
        if c.thorough:     # non-vacuity of the model check (the design itself has no known defect)
            b = c.tlc("DRKeyAdmit", "DRKeyAdmitMC.broken.cfg", timeout=900)
            if "ServedOnlyIfAdmitted" not in b.inv_violated:
                raise vlib.Infra("the broken model variant does not violate ServedOnlyIfAdmitted: the "
                                 "model check is vacuous\n" + b.out[-2000:])
            c.notes.append("model variant 'anyhost' violates ServedOnlyIfAdmitted as expected (model only)")
        scn = c.scratch + "/scenarios.txt"
        with open(scn, "w") as f:
            f.write("\n".join(scns) + "\n")
        trace = c.scratch + "/admit.ndjson"
        # quick: every lattice point once, through the direct handler call or through the in-process
        # connect-RPC chain (alternating by point and seed); thorough: both ways, canonical + 1 seeded
        args = ["-scn", scn, "-out", trace, "-k", 1, "-via", "both" if c.thorough else "split"]
        c.run_driver(drv, args + (["-canon"] if c.thorough else []))
    r = c.validate("DRKeyAdmitTrace", "DRKeyAdmitTrace.cfg", trace, timeout=1500)
    lines = _crypto.judge_cases(c, r, trace, vlib, sidecar=trace + ".conc")
    served = {}
    vias = {}
    total = {}
    points = set()
    nontrivial = set()
    for ln in lines:
        e = json.loads(ln)
        if e.get("ev") != "req":
            continue
        total[e["rpc"]] = total.get(e["rpc"], 0) + 1
        pt = "|".join(e[k] for k in ("rpc", "proto", "src", "dst", "srcHost", "dstHost", "peer", "allow", "cert"))
        points.add(pt)
        if e["served"]:
            vias[e["via"]] = vias.get(e["via"], 0) + 1
            served[e["rpc"]] = served.get(e["rpc"], 0) + 1
            nontrivial.add(pt)
    if not c.replay:
        if len(points) != 46656:
            raise vlib.Infra("driver executed %d of 46656 lattice points" % len(points))
        for rpc in ("lvl1", "intra", "ashost", "hostas", "hosthost", "sv"):
            if not served.get(rpc):
                # an only-if property is vacuous on an implementation that serves nobody
                raise vlib.Infra("vacuity guard: RPC %s never served a request (harness problem?)" % rpc)
        if not vias.get("direct") or not vias.get("connect"):
            raise vlib.Infra("vacuity guard: served per path: %s" % vias)
        c.cov["exhaustive"] = True
    c.cov["traces_validated_against_impl"] += 1
    c.cov["evaluations"] += len(lines)
    c.cov["distinct_nontrivial"] += len(nontrivial)
    c.cov["rule"] = ("one evaluation = one real handler call judged by TLC; non-trivial = lattice points "
                     "(abstract requests) that the real service answered with a key (the antecedent of "
                     "the only-if property); served per rpc: %s of %s; served per path: %s" % (served, total, vias))
    c.sample_trace(trace, nevents=3)
    c.assumptions += ["the abstract lattice (DRKeyOps!Requests) is enumerated completely; each point is "
                      "executed with a canonical and seeded concretisations (addresses, ISD-ASes, "
                      "protocol numbers, address spellings), which are sampled",
                      "'never for the generic protocol' is read as applying to AS-host, host-AS and "
                      "host-host keys alike (as the code does)",
                      "a requester with a non-TCP transport address is identified by its IP"]
