"""C42 — gateway routing picks the most specific prefix and applies policies in order.

1. TLC explores GatewayRouting.tla: the loop of RoutingTable.route (table order, highestMask) after the
   forwarder's fragment test ends, for every table with distinct prefixes in every order and every
   packet, with the session the declarative Route() demands; the backward add/remove construction of
   Policy.Match equals the first-match definition; the model's text form round-trips.
2. TLC (GatewayRoutingGen) enumerates routing tables (<= 3 distinct prefixes from a nested / disjoint /
   unmasked / IPv6 alphabet x class lists with and without sessions) and policies (<= 2 rules: action,
   ISD-AS matchers with wildcards and negation, prefix lists, negated lists) with packets, IA pairs
   and query prefixes.
3. harness/cmd/gwroute builds real RoutingTables, pushes real serialized IPv4/IPv6 packets (all 64
   destinations x TOS, fragments) through the real IPForwarder.Run; parses policies from text with the
   real UnmarshalText, queries Match / AdvertiseList, MarshalText -> UnmarshalText, queries again.
4. GatewayRoutingTrace.tla recomputes every decision.
"""
import json
import random

import _gw
import vlib


def run(c):
    if c.replay:
        c.build("gwroute")
        r = c.validate("GatewayRoutingTrace", "GatewayRoutingTrace.cfg", c.replay)
        c.judge_trace(r, c.replay)
        account(c, [c.replay])
        return
    drv, _, g, _, gc = _gw.side_by_side(
        lambda: c.build("gwroute"),
        lambda: c.mc("GatewayRouting", "GatewayRoutingMC.%s.cfg" % c.tier, workers=4, timeout=3000),
        lambda: _gw.generator(c, "GatewayRoutingGen", "GatewayRoutingGen.%s.cfg" % c.tier),
        lambda: c.mc("GatewayRoutingConc", "GatewayRoutingConcMC.%s.cfg" % c.tier, workers=4, timeout=3000),
        lambda: _gw.generator(c, "GatewayRoutingConcGen", "GatewayRoutingConcGen.%s.cfg" % c.tier),
        c=c, names=("build", "mc", "gen", "mc-conc", "gen-conc"))
    conc_traces = concurrent(c, drv, gc)
    outs = [g.out]
    if c.thorough:   # policies of three rules over a small rule alphabet
        outs.append(_gw.generator(c, "GatewayRoutingGen", "GatewayRoutingGen.thorough3.cfg").out)
    lists = {k: v for (k, v) in _gw.printed(g.out, "LIST", nstr=2)}
    if set(lists) != {"pkts", "pairs", "queries"}:
        raise vlib.Infra("generator did not print its lists: %s" % sorted(lists))
    scn = {"table": [], "pol": []}
    seen = set()
    for o in outs:
        for kind, s in _gw.printed(o, "SCN", nstr=2):
            k = kind + json.dumps(s, sort_keys=True)
            if k not in seen:
                seen.add(k)
                scn[kind].append(s)
    if not scn["table"] or not scn["pol"]:
        raise vlib.Infra("generator printed no scenarios")
    nchunks = 8 if c.thorough else 4
    groups = []
    step_t, step_p = 200, 300
    for i in range(0, len(scn["table"]), step_t):
        groups.append(("table", scn["table"][i:i + step_t]))
    for i in range(0, len(scn["pol"]), step_p):
        groups.append(("pol", scn["pol"][i:i + step_p]))
    cost = lambda gr: len(gr[1]) * (len(lists["pkts"]) if gr[0] == "table" else 16 * 16)
    traces = []
    for i, chunk in enumerate(_gw.deal(sorted(groups, key=cost, reverse=True), nchunks, cost)):
        f = "%s/scn-%d.ndjson" % (c.scratch, i)
        with open(f, "w") as fh:
            for kind, items in chunk:
                if kind == "table":
                    fh.write(json.dumps({"ev": "reset", "kind": "table", "W": 6, "pkts": lists["pkts"],
                                         "pairs": [], "queries": []}) + "\n")
                    for t in items:
                        fh.write(json.dumps({"ev": "table", "table": t}) + "\n")
                else:
                    fh.write(json.dumps({"ev": "reset", "kind": "pol", "W": 4, "pkts": [],
                                         "pairs": lists["pairs"], "queries": lists["queries"]}) + "\n")
                    for p in items:
                        fh.write(json.dumps({"ev": "pol", "pol": p}) + "\n")
        t = "%s/trace-%d.ndjson" % (c.scratch, i)
        c.run_driver(drv, ["-in", f, "-out", t])
        traces.append(t)
    # both trace families are validated side by side
    res, _ = _gw.side_by_side(
        lambda: _gw.validate_all(c, "GatewayRoutingTrace", "GatewayRoutingTrace.cfg", traces),
        lambda: _gw.validate_all(c, "GatewayRoutingConcTrace", "GatewayRoutingConcTrace.cfg", conc_traces))
    nd = sum(r.out.count('"VERIF-DRIFT"') for r in res)
    if nd:
        c.notes.append("drift lines: %d" % nd)
    account(c, traces)
    account_conc(c, conc_traces)
    c.cov["exhaustive"] = True
    c.notes.append("tables=%d policies=%d packets=%d" % (len(scn["table"]), len(scn["pol"]), len(lists["pkts"])))


def concurrent(c, drv, gc):
    """Run-time updates: every TLC-enumerated update sequence is executed by one writer against three
    concurrent readers on a real AtomicRoutingTable; the recorded history is validated by TLC."""
    setup = [v for (k, v) in _gw.printed(gc.out, "LIST", nstr=2) if k == "conc"]
    seqs = []
    seen = set()
    for (s,) in _gw.printed(gc.out, "SCN"):
        k = json.dumps(s, sort_keys=True)
        if k not in seen:
            seen.add(k)
            seqs.append(s["ops"])
    if not setup or not seqs:
        raise vlib.Infra("concurrent generator printed nothing")
    seqs.sort(key=lambda x: json.dumps(x))
    rnd = random.Random(c.seed * 7919 + 42)
    limit = 600 if c.thorough else 150
    total = len(seqs)
    if len(seqs) > limit:
        seqs = rnd.sample(seqs, limit)
    traces = []
    for i, chunk in enumerate(_gw.deal(seqs, 4 if c.thorough else 2)):
        f = "%s/conc-scn-%d.ndjson" % (c.scratch, i)
        with open(f, "w") as fh:
            for ops in chunk:
                fh.write(json.dumps({"ev": "conc", "tables": setup[0]["tables"], "pkts": setup[0]["pkts"],
                                     "ops": ops}) + "\n")
        t = "%s/conc-trace-%d.ndjson" % (c.scratch, i)
        c.run_driver(drv, ["-in", f, "-out", t])
        traces.append(t)
    c.notes.append("concurrent update sequences: %d of %d enumerated" % (len(seqs), total))
    return traces


def account_conc(c, traces):
    ntr = reads = 0
    mixed = set()
    for t in traces:
        for tr in vlib.split_traces(t):
            ntr += 1
            ws = [e for e in tr if e["ev"] == "w"]
            for e in tr:
                if e["ev"] != "r":
                    continue
                reads += 1
                # non-trivial: the lookup overlapped at least one update
                if any(w["inv"] < e["res"] and w["res"] > e["inv"] for w in ws):
                    mixed.add(json.dumps([[w["op"], w["t"], w["i"], w["j"]] for w in ws]) + str(e["pkt"]))
    c.cov["traces_validated_against_impl"] += ntr
    c.cov["evaluations"] += reads
    c.cov["distinct_nontrivial"] += len(mixed)
    c.notes.append("concurrent lookups: %d, overlapping an update (distinct update sequence x packet): %d" % (reads, len(mixed)))


def account(c, traces):
    ntr = evs = 0
    distinct = set()
    sample = {}
    for t in traces:
        with open(t) as f:
            for line in f:
                ev = json.loads(line)
                if ev["ev"] == "reset":
                    ntr += 1
                elif ev["ev"] == "table":
                    evs += len(ev["out"])
                    # non-trivial: some packets delivered to >= 1 session and some dropped or to another one
                    if len(set(ev["out"])) > 1:
                        distinct.add("t" + json.dumps(ev["table"], sort_keys=True))
                        sample.setdefault("table", {"table": ev["table"], "lead": ev["lead"], "out": ev["out"][:24]})
                else:
                    evs += len(ev["m0"]) + len(ev["m1"])
                    if any(0 < len(x) for x in ev["m0"]) and len(set(map(tuple, ev["m0"]))) > 1:
                        distinct.add("p" + json.dumps(ev["pol"], sort_keys=True))
                        sample.setdefault("pol", {k: ev[k] for k in ("pol", "text", "text1", "m0", "adv0")})
    c.cov["traces_validated_against_impl"] += ntr
    c.cov["evaluations"] += evs
    c.cov["distinct_nontrivial"] += len(distinct)
    c.cov["rule"] = ("an evaluation is one packet pushed through the real IPForwarder (tables) or one Policy.Match "
                     "query (policies, before and after text round trip), each recomputed by TLC; a table is "
                     "non-trivial if the grid's packets do not all meet the same fate, a policy if its answers differ "
                     "between queries; distinct = distinct abstract tables / policies")
    for s in sample.values():
        c.sample(s)
    c.assumptions += [
        "abstract W-bit address space embedded as 10.0.0.0/(32-W) and 2001:db8::/(128-W)",
        "policy default action 'not accept' is concretised as Reject or UnknownAction (seeded)",
        "comments and next-hop columns are rendered but are not part of the decisions",
    ]
