"""C39 — DRKey keys are derived consistently and with domain separation; epoch selection.

1. TLC explores DRKeyDerive.tla: all pairs of level-2 derivation requests on a scaled-down byte
   layout of the derivation inputs (separation of (upper key, input) pairs), host-host inputs, and
   the epoch selection of GetKeyWithinAcceptanceWindow on a complete (now, timestamp) grid.
   The variant that lets the specific derivation run for the generic protocol shows the collision
   the service's refusal of protocol 0 prevents (model only).
2. The driver derives keys with the real code along every route (service engines of source and
   destination AS over real sqlite stores with a level-1 fetcher that asks the source AS's engine,
   hosts holding the secret value / level-1 key using specific.Deriver / generic.Deriver, DeriveSV
   from the AS secret) and logs symbolic descriptions + key identities; and calls the real
   FakeProvider.GetKeyWithinAcceptanceWindow around epoch / window / grace boundaries.
   Epoch rotation: two real engines asked at explicit validity times walking across epoch boundaries,
   with prefetch requests (now + epoch length) and the cleaners (explicit cut-off) interleaved; model
   DRKeyEpoch.tla (stores of both services over time) is explored exhaustively.
3. TLC validates: same key <=> same documented term (DRKeyOps), selected epochs satisfy MaySelect, every
   answer is the key of the epoch containing the requested time, one key per epoch on every route.
"""
import json

import _crypto
import vlib


def run(c):
    drv = c.build("drkeyderive")
    if c.replay:
        trace = c.replay
    else:
        c.mc("DRKeyDerive", "DRKeyDeriveMC.%s.cfg" % c.tier, timeout=1500)
        b = c.tlc("DRKeyDerive", "DRKeyDeriveMC.genericl2.cfg", timeout=900)
        if "Separated" not in b.inv_violated:
            raise vlib.Infra("variant AllowGenericL2 no longer violates Separated:\n" + b.out[-2000:])
        c.notes.append("model variant AllowGenericL2 violates Separated (specific level-2 derivation for "
                       "protocol 0 collides with a generic derivation of a niche protocol): model only; the "
                       "service refuses protocol 0 at level 2 (C40)")
        c.mc("DRKeyEpoch", "DRKeyEpochMC.%s.cfg" % c.tier, workers=4, timeout=1500)
        if c.thorough:
            b = c.tlc("DRKeyEpoch", "DRKeyEpochMC.inclusive.cfg", workers=2, timeout=900)
            if "AnswerInEpoch" not in b.inv_violated:
                raise vlib.Infra("variant Lookup=inclusive no longer violates AnswerInEpoch:\n" + b.out[-2000:])
            c.notes.append("model variant Lookup=inclusive (t <= EpochEnd) answers with the epoch that just ended at "
                           "the boundary instant: violates AnswerInEpoch (model only)")
        trace = c.scratch + "/derive.ndjson"
        if c.thorough:
            args = ["-batches", 40, "-n", 14, "-windows", 400, "-epochs", 400]
        else:
            args = ["-batches", 6, "-n", 12, "-windows", 40, "-epochs", 40]
        c.run_driver(drv, ["-out", trace] + args)
    r = c.validate("DRKeyDeriveTrace", "DRKeyDeriveTrace.cfg", trace, timeout=1500)
    lines = _crypto.judge_cases(c, r, trace, vlib, whole_trace=_crypto.reset_slice)
    ntr = nkey = nsel = nl1 = 0
    shapes = set()
    for ln in lines:
        e = json.loads(ln)
        if e["ev"] == "reset":
            ntr += 1
        elif e["ev"] == "key":
            nkey += 1
            shapes.add((e["who"], e["kt"], e["mode"], min(e["proto"], 2), e["srcHost"][:4], e["dstHost"][:4]))
        elif e["ev"] == "l1":
            nl1 += 1
            if e["ok"]:
                d = max(1, e["ee"] - e["eb"])
                shapes.add(("l1", e["who"], e["fetched"], e["t"] - e["eb"] in (0, d - 1), (e["t"] - e["now"]) // d))
        elif e["ev"] == "select":
            nsel += 1
            if e["ok"]:
                shapes.add(("select", e["eb"] // max(1, e["ee"] - e["eb"]), e["now"] // max(1, e["ee"] - e["eb"])))
    st = _crypto.stats(r)
    if not c.replay and (st.get("selected", 0) == 0 or st.get("sameterm", 0) == 0):
        raise vlib.Infra("vacuity guard: no key selected / no two routes produced the same term: %s" % st)
    c.cov["traces_validated_against_impl"] += ntr
    if not c.replay and nl1 == 0:
        raise vlib.Infra("vacuity guard: no epoch-rotation answers")
    c.cov["evaluations"] += nkey + nsel + nl1
    c.cov["distinct_nontrivial"] += len(shapes)
    c.cov["rule"] = ("one evaluation = one real derivation or one real window selection judged by TLC; distinct = "
                     "distinct (route, key type, derivation, protocol class, host kinds) resp. (selected epoch, "
                     "current epoch) of successful selections; same-term re-derivations=%d selected=%d"
                     % (st.get("sameterm", 0), st.get("selected", 0)))
    c.sample_trace(trace, nevents=5)
    c.assumptions += ["key bytes stand for derivation inputs: under one upper key equal inputs give equal keys and "
                      "different inputs different keys (AES-CBC-MAC; collision probability 2^-128)",
                      "specific level-2 derivation for protocol 0 is outside the documented scheme (the service "
                      "refuses it, C40); collisions that involve it are reported as drift only",
                      "host identity = the address a SCION header carries (IPv4-mapped IPv6 = IPv4; CS = CS_A)",
                      "times are whole microseconds relative to an epoch start; epochs are multiples of 1 s"]
