"""C47 — path-policy sequences match exactly the paths their expression describes.

1. TLC explores SeqPolicy.tla (expressions built bottom-up like the ANTLR listener's stack): for every
   expression up to the size bound and every word over a small hop alphabet the derivative-based
   oracle agrees with the textbook denotational semantics; the code-shaped textual AS comparison is
   shown to differ from the numeric one on non-canonical spellings (model-only, a note).
2. TLC (SeqPolicyGen.tla) enumerates the scenarios: all expressions up to the bound over a leaf
   alphabet, every hop predicate of the full alphabet (ISD / AS spellings / interface forms) in
   first, middle and last position, ACLs, policies with weighted options, and the path sets.
3. harness/cmd/seqpol renders each AST to text, calls the real NewSequence/Eval, ACL.Eval,
   Policy.Filter on fake snet.Paths and logs what was kept.
4. SeqPolicyTrace.tla recomputes membership for every (expression, path) pair and judges.
"""
import concurrent.futures
import json
import re

import vlib

# TLC's pretty printer may break a tuple over several lines
SCN = re.compile(r'<<\s*"(SCN|PATHS)",\s*"(\w+)",\s*"((?:[^"\\]|\\.)*)"\s*>>')


def generate(c):
    """Run the TLC generator and turn its output into the driver's scenario file(s)."""
    r = c.tlc("SeqPolicyGen", "SeqPolicyGen.%s.cfg" % c.tier, workers=4, timeout=1500)
    if not r.completed:
        raise vlib.Infra("scenario generator did not complete: %s\n%s" % (r.other_error, r.out[-2000:]))
    c._addcmd("tlc " + r.cmd)
    paths = {}
    scns = {}
    seen = set()
    for m in SCN.finditer(r.out):
        kind, fam, js = m.groups()
        js = js.replace('\\"', '"')
        if kind == "PATHS":
            paths[fam] = json.loads(js)
        else:
            if (fam, js) in seen:
                continue
            seen.add((fam, js))
            scns.setdefault(fam, []).append(json.loads(js))
    if not scns or not paths:
        raise vlib.Infra("scenario generator printed nothing")
    return paths, scns, r


def nodes(a):
    return 1 + sum(nodes(a[k]) for k in ("a", "b") if k in a)


def write_chunks(c, paths, scns, nchunks):
    """Scenario files: every chunk is a sequence of reset-delimited groups (one family each)."""
    groups = []   # (fam, pathset, [records])
    work = [(fam, {"pred": "pred", "struct": "struct", "acl": "acl", "pol": "struct", "ext": "acl"}[fam], scns[fam])
            for fam in sorted(scns)]
    if c.thorough:
        # the small expressions also on all paths of up to 4 hops
        work.append(("struct", "struct4", [a for a in scns.get("struct", []) if nodes(a) <= 3]))
    for fam, ps, recs in work:
        step = 150 if fam != "pred" else 400
        for i in range(0, len(recs), step):
            groups.append((fam, ps, recs[i:i + step]))
    files = [[] for _ in range(nchunks)]
    # deal groups round-robin, largest cost first
    cost = lambda g: len(g[2]) * len(paths[g[1]])
    load = [0] * nchunks
    for g in sorted(groups, key=cost, reverse=True):
        k = load.index(min(load))
        files[k].append(g)
        load[k] += cost(g)
    out = []
    for k, gs in enumerate(files):
        if not gs:
            continue
        p = "%s/scn-%d.ndjson" % (c.scratch, k)
        with open(p, "w") as f:
            for fam, ps, recs in gs:
                f.write(json.dumps({"ev": "reset", "fam": fam, "paths": paths[ps]}) + "\n")
                for s in recs:
                    if fam in ("pred", "struct"):
                        f.write(json.dumps({"ev": "seq", "ast": s}) + "\n")
                    elif fam == "acl":
                        f.write(json.dumps({"ev": "acl", "acl": s["acl"]}) + "\n")
                    elif fam == "ext":
                        f.write(json.dumps({"ev": "ext", "top": s["top"], "pool": s["pool"]}) + "\n")
                    else:
                        f.write(json.dumps({"ev": "pol", "acl": s["acl"], "seq": s["seq"],
                                            "opts": s["opts"]}) + "\n")
        out.append(p)
    return out


def codeshape(c):
    """Design-level illustration of D8: textual AS comparison differs from numeric comparison as
    soon as the alphabet contains a non-canonical spelling (model only: never a verdict)."""
    d8 = c.tlc("SeqPolicy", "SeqPolicyMC.codeshape.cfg", workers=2, timeout=900)
    if "CodeShapeAgrees" in d8.inv_violated:
        c.notes.append("model: CodeShapeAgrees (textual = numeric AS comparison) is violated over an "
                       "alphabet with non-canonical AS spellings (SeqPolicyMC.codeshape.cfg), as expected")
    else:
        raise vlib.Infra("code-shaped model variant unexpectedly satisfies CodeShapeAgrees:\n" + d8.out[-1500:])


def run(c):
    if c.replay:
        c.build("seqpol")
        r = c.validate("SeqPolicyTrace", "SeqPolicyTrace.cfg", c.replay)
        c.judge_trace(r, c.replay)
        account(c, [c.replay])
        return
    # build, exhaustive model and scenario generation are independent: run them side by side
    with concurrent.futures.ThreadPoolExecutor(max_workers=4) as ex:
        fb = ex.submit(c.build, "seqpol")
        fm = ex.submit(c.mc, "SeqPolicy", "SeqPolicyMC.%s.cfg" % c.tier, workers=4, timeout=3000)
        fg = ex.submit(generate, c)
        fc = ex.submit(codeshape, c) if c.thorough else None
        drv = fb.result()
        fm.result()
        paths, scns, g = fg.result()
        if fc:
            fc.result()
    nchunks = 8 if c.thorough else 4
    files = write_chunks(c, paths, scns, nchunks)
    traces = []
    for i, f in enumerate(files):
        t = "%s/trace-%d.ndjson" % (c.scratch, i)
        c.run_driver(drv, ["-in", f, "-out", t])
        traces.append(t)

    def val(t):
        return t, c.validate("SeqPolicyTrace", "SeqPolicyTrace.cfg", t, timeout=3000, heap="3g")
    with concurrent.futures.ThreadPoolExecutor(max_workers=len(traces)) as ex:
        results = list(ex.map(val, traces))
    ndrift = 0
    for t, r in results:
        c.judge_trace(r, t)
        ndrift += len(re.findall(r'"VERIF-DRIFT"', r.out))
    if ndrift:
        c.notes.append("drift lines (hop-level ACL reading): %d" % ndrift)
    account(c, traces)
    c.cov["exhaustive"] = True   # the generated finite scenario space was executed completely
    c.notes.append("scenarios: " + ", ".join("%s=%d" % (k, len(v)) for k, v in sorted(scns.items())))


def account(c, traces):
    ntr = evs = 0
    distinct = set()
    for t in traces:
        npaths = 0
        with open(t) as f:
            for line in f:
                ev = json.loads(line)
                if ev["ev"] == "reset":
                    ntr += 1
                    npaths = len(ev["paths"])
                    continue
                n = len(ev.get("inp", [])) or npaths
                evs += n
                # non-trivial: the filter kept some but not all of its input
                if 0 < len(ev["kept"]) < n:
                    key = json.dumps({k: ev.get(k) for k in ("ast", "acl", "seq", "opts", "top", "pool")}, sort_keys=True)
                    distinct.add(key)
    c.cov["traces_validated_against_impl"] += ntr
    c.cov["evaluations"] += evs
    c.cov["distinct_nontrivial"] += len(distinct)
    c.cov["rule"] = ("an evaluation is one (expression | ACL | policy, path) pair executed by the real pathpol "
                     "code and recomputed by TLC; a scenario is non-trivial if the real filter kept some but "
                     "not all of its input paths; distinct = distinct abstract scenarios (AST / ACL / policy)")
    if traces:
        c.sample_trace(traces[0], nevents=3)
    c.assumptions += [
        "fake snet.Path objects carry only PathMetadata.Interfaces (all that pathpol reads)",
        "expressions are rendered with binary operators fully parenthesised (the grammar's priority of "
        "'|' over juxtaposition is not part of the property)",
        "AS numbers with groups > 4 hex digits and the spelling 0:0:0 of the wildcard are outside the alphabet",
    ]
