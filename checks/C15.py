"""C15 - traffic is not sent over links that BFD declares down.

1. TLC checks RouterStep.tla on a router whose own interface 5 and whose sibling link A (interfaces
   3, 6) are held down (InvC15: forward over l => l usable; down => ExternalInterfaceDown for own
   links, InternalConnectivityDown for sibling links; InvC15Answer: such packets are answered, not
   dropped).  The assemblies are executed on a real router whose down links carry a real
   bfd.Session that never came up; links without BFD must always forward.
2. BFD histories: a router whose links ALL carry real sessions is started (StartBFD); session
   state is driven only by received control messages (Down / Init / Up in seeded random order,
   detection time = hours so no timer interferes); after every message the hook of router/bfd
   (VerifTracer, called by Session.Run once the step is applied) is awaited and the reported state
   logged; probe packets for every interface run between the messages.  RouterStepTrace.tla keeps
   the last logged state per interface and judges every packet with C15Key / C15ScmpKeys.
"""
import _dpadv


def run(c):
    th = c.thorough
    _dpadv.pipeline(
        c, "C15",
        explores=[("bfd.quick", False)],
        prefer=("up",),
        budget=5000 if th else 3000,
        rand=[{"rand": 10000 if th else 800, "maxhops": 4, "kinds": ["scion", "epic"]}, {"bfd": 400 if th else 40}],
        nontrivial=lambda e: e["o"]["disp"] == "forward" or (e["o"]["disp"] == "slow" and e["o"]["st"] in (5, 6)))
    c.cov["rule"] = ("one event = one real packet through the real router with the BFD state of every link known "
                     "(static: session never started; histories: last state reported by the session hook); "
                     "non-trivial = forwarded over a link, or answered with interface-down; distinct = distinct "
                     "(abstract packet, disposition, egress, scope, SCMP cause) tuples")
    c.assumptions.append("C15 covers SCION and EPIC paths; one-hop-path packets and the router's own BFD packets do "
                         "not consult the session (DESIGN.md section 8)")
