"""C46 -- ISD-AS and address text formats round-trip.

1. TLC checks the text denotation (spec/AddrTextOps.tla) exhaustively on a boundary lattice
   (AddrText.tla): Denote(Format(v, opts), opts) = v for every option combination incl. the empty
   separator, decimal-iff-below-2^32, Denote/Format agreement on ALL short texts over a small
   alphabet, grammar-aware mutants denote nothing.  A variant without the documented ':' fallback
   (the shape of pkg/addr/fmt.go before the D7 fix) is run to show the counterexample (note only).
2. The driver formats boundary + seeded values of every pkg/addr type with every formatting entry
   point / option combination, parses the produced text and grammar-aware mutants / random strings
   with every parsing entry point of the real code, and logs texts as byte lists.
3. TLC evaluates the denotation on every logged record (AddrTextTrace.tla): the text denotes the
   value, every parser returns it, and a parser that accepts a text returns what the text denotes.
"""
import json

import vlib
import _wire


def run(c):
    drv = c.build("addrtext")
    if not c.replay:
        _wire.mc(c, "AddrTextMC", "AddrTextMC.%s.cfg" % c.tier, timeout=3000)
        # design-level demonstration of D7 (never a verdict): without the fallback the round trip fails
        r0 = c.tlc("AddrTextMC", "AddrTextMC.nofallback.cfg", workers=2, timeout=600)
        if "RoundTrip" in r0.inv_violated:
            c.notes.append("model variant Fallback=FALSE (empty separator used as is): RoundTrip violated, as expected")
        else:
            raise vlib.Infra("the no-fallback model variant did not produce the expected counterexample:\n" + r0.out[-2000:])
    if c.replay:
        trace = c.replay
    else:
        trace = c.scratch + "/addrtext.ndjson"
        c.run_driver(drv, ["-out", trace] + (["-scale", 5, "-mutevery", 6] if c.thorough else ["-scale", 1, "-mutevery", 45]))
    r = _wire.validate_table(c, "AddrTextTrace", "AddrTextTrace.cfg", trace, chunks=6 if c.thorough else 3)
    _wire.judge_table(c, r, trace)
    n = 0
    shapes = set()
    kinds = {}
    accepted_mutants = 0
    with open(trace) as f:
        for line in f:
            e = json.loads(line)
            n += 1
            if e["ev"] not in ("fmt", "parse"):
                continue
            kinds[e["kind"]] = kinds.get(e["kind"], 0) + 1
            oc = (e["prefix"], e["sepgiven"], len(e["sep"]))
            if e["ev"] == "fmt":
                # non-trivial: an in-range value was formatted and at least one parser was consulted
                shapes.add(json.dumps([e["kind"], e["fapi"], oc, e["v"]]))
            else:
                if any(p["ok"] for p in e["p"]):
                    accepted_mutants += 1
                    shapes.add(json.dumps([e["kind"], e["mut"], oc, e["text"]]))
    drift = _wire.drift_keys(r.out)
    if drift:
        c.notes.append("model drift (not a verdict): " + "; ".join(drift)[:1500])
    c.notes.append("records per kind: %s; mutant/random texts accepted by some parser: %d" % (
        json.dumps(kinds, sort_keys=True), accepted_mutants))
    c.cov["traces_validated_against_impl"] += 1
    c.cov["evaluations"] += n
    c.cov["distinct_nontrivial"] += len(shapes)
    c.cov["rule"] = ("one record = one value formatted by one entry point with one option combination and parsed "
                     "back by every matching parser, or one mutant/random text given to every parser; non-trivial = "
                     "distinct (kind, entry point, options, value) formatted, plus distinct mutant/random texts that "
                     "some parser accepted (the antecedent of 'returns what the text denotes')")
    c.sample_trace(trace, nevents=4)
    c.assumptions += ["texts are compared as byte sequences; separators containing '-' or hex digits are outside "
                      "the quantifier (ambiguous by construction) and skipped by the monitor",
                      "service numbers other than DS/CS/Wildcard (+multicast) and the none-host are not 'addresses': "
                      "for them only 'no parser returns a different value' is required",
                      "IP texts accepted by Go's netip beyond the RFC 4291 forms of the specification are drift, not violations"]

