"""C08 — router packet processing never crashes and never forwards malformed packets.

1. TLC checks the byte-level well-formedness predicate (RouterWireOps!WellFormed: header length,
   payload length, path type / path length / path pointers, extension header lengths) against the
   field-level definition on a bounded space of abstract headers (RouterWire.tla).
2. The real router code (receive-side parse, fast path, slow path / SCMP generation, the internal
   link's STUN processing; SCMP authentication on and off) is fed with byte strings on the internal,
   both external and the sibling link: the valid corpus, every value of the structural header
   bytes, every truncation, seeded stacks of structure-aware mutations, random packets and STUN
   messages.  Each call runs under recover.  What the router would put on the wire is logged
   (once per abstract projection) and judged by TLC with the same operators; a panic that reproduces
   3/3 on a fresh router is an event without a specification action.
Level: exploration (byte strings cannot be enumerated).
"""
import json

import vlib


def run(c):
    c.level = "exploration"
    drv = c.build("rfuzz")
    c.mc("RouterWire", "RouterWireMC.%s.cfg" % c.tier, timeout=3000)
    if c.replay:
        trace = c.replay
    else:
        trace = c.scratch + "/rfuzz.ndjson"
        n = 3000000 if c.thorough else 60000
        c.run_driver(drv, ["-n", n, "-out", trace], timeout=3000)
    r = c.validate("RouterWireTrace", "RouterWireTrace.cfg", trace, timeout=3000)
    c.judge_trace(r, trace)
    nin = 0
    nout = 0
    kinds = {}
    with open(trace) as f:
        for line in f:
            e = json.loads(line)
            if e["ev"] == "batch":
                nin = max(nin, e["n"])
                last = e
            elif e["ev"] == "out":
                nout += 1
                kinds[e["kind"]] = kinds.get(e["kind"], 0) + 1
    c.cov["traces_validated_against_impl"] += 1
    c.cov["evaluations"] += nin
    c.cov["distinct_nontrivial"] += nout
    c.cov["rule"] = ("an evaluation = one byte string processed by the real router code under recover; "
                     "non-trivial = the router emitted a packet (forwarded, delivered, SCMP reply, STUN response); "
                     "distinct = distinct abstract projections (the bytes the well-formedness predicate reads) of the "
                     "emitted packets, each judged by TLC")
    if nin:
        c.notes.append("inputs=%d emitted: fwd=%d scmp=%d stun=%d dropped=%d; distinct outputs judged=%d %s" % (
            nin, last.get("fwd", 0), last.get("scmp", 0), last.get("stun", 0), last.get("drop", 0), nout, kinds))
    c.sample_trace(trace, nevents=3)
    c.assumptions += [
        "byte strings are sampled (seeded, structure-aware), not enumerated: absence of panics is observed, not proved",
        "one router configuration (AS with parent, child and sibling-owned child interface), processors re-used "
        "across inputs as the processor goroutines do",
        "outputs with the same abstract projection (lengths, path type, address types, path meta header, extension "
        "header lengths) are judged once"]
