"""C07 — forwarded packets change only in the path's mutable state.

Every router visit of every journey (requests, replies, SCMP answers) logs the byte-wise difference
between the received and the forwarded packet (random payloads, traffic class, flow id, HBH/E2E
extension headers).  DataplaneTrace.tla (Prop = C07) maps each changed offset to the packet layout
derived from the logged pre-state: allowed are the CurrINF/CurrHF byte, the SegID bytes of the current
(at a cross-over: old and new) info field, consumed router-alert bits; length unchanged.  In the model
(Dataplane.tla) the same frame condition is the action property Frame."""
import _dp


def run(c):
    drv = c.build("dp")
    if c.replay:
        trace = c.replay
    else:
        _dp.model(c)
        trace = c.scratch + "/dp.ndjson"
        c.run_driver(drv, ["-mode", "honest", "-out", trace, "-topos", "T1,T2,T3",
                           "-random", 40 if c.thorough else 3])
    _dp.validate(c, "C07", trace)
    if not c.replay:
        # forwarding events of packets that carry router-alert flags (traceroute requests passing routers
        # that must not touch the flag, e.g. the ingress router when the flagged egress is on a sibling) and,
        # thorough, of the fault journeys (SCMP answers travelling back)
        for mode in (("fault", "alert") if c.thorough else ("alert",)):
            t2 = c.scratch + "/%s.ndjson" % mode
            c.run_driver(drv, ["-mode", mode, "-out", t2, "-topos", "T1,T2" if c.thorough else "T2"])
            _dp.validate(c, "C07", t2)
            c.cov["evaluations"] += sum(1 for line in open(t2) if '"disp":"forward"' in line)
    _dp.coverage(c, trace, lambda r, evs: r["mode"] == "honest" and any(
        e["ev"] == "hop" and e["disp"] == "forward" for e in evs),
        "every path returned by the real combinator (findAllIdentical) for every ordered AS pair of "
        "T1-T3 and a sample for seeded random topologies, walked through the real routers; a journey "
        "is non-trivial if at least one router forwarded a packet; distinct = distinct (topology, "
        "segment lengths, ConsDir/Peer flags, path type) shapes")
    c.assumptions += [
        "packets are injected into the real packet processors through the router export (no sockets)",
        "time: segment timestamps 10 min in the past, hop expiry 6 h (no boundary cases)",
        "model and driver use the same topology families (emitted by the driver, read by TLC)"]
